"""E7 - ATN engine.

The serialized ATN strings of the generated lexer and parser are collected
with ``ast`` (the generated modules are never imported) and deserialised with
the antlr4 runtime used as a *library*.  On the result:

* lexer: per token rule an NFA over (ATN state, bounded call stack); alphabet =
  atoms obtained by splitting Unicode at every interval boundary used by a
  transition or by a reference set, plus EOF; subset construction; equivalence
  with reference DFAs written from cmake-language(7) by product BFS, which
  yields a shortest distinguishing string; lexer actions, non-greedy flags,
  rule order.
* parser: each rule as a regular language over token types and rule
  references; alternative order; EOF anchor; FIRST sets of the alternatives of
  every decision (own closure) against the token sets in the generated guards.
"""
from __future__ import annotations

import ast
from typing import Any, Dict, FrozenSet, List, Optional, Set, Tuple

from .core import AnalysisError
from .model import Repo, norm

MAXC = 0x10FFFF
EOF = -1


def _load_atn(repo: Repo, module: str):
    try:
        from antlr4.atn.ATNDeserializer import ATNDeserializer
    except Exception as e:  # pragma: no cover
        raise AnalysisError(f"antlr4 runtime not importable as a library: {e}")
    m = repo.module(module)
    fns = [n for n in m.tree.body if isinstance(n, ast.FunctionDef) and n.name == "serializedATN"]
    if not fns:
        raise AnalysisError(f"anchor vanished: {module}.serializedATN")
    parts: List[str] = []
    for n in ast.walk(fns[0]):
        if isinstance(n, ast.Call) and isinstance(n.func, ast.Attribute) and n.func.attr == "write" and n.args \
                and isinstance(n.args[0], ast.Constant) and isinstance(n.args[0].value, str):
            parts.append((n.lineno, n.col_offset, n.args[0].value))
    parts.sort()
    try:
        return ATNDeserializer().deserialize("".join(p[2] for p in parts))
    except Exception as e:
        raise AnalysisError(f"{module}: serialized ATN does not deserialise: {e}")


def class_tables(repo: Repo, module: str, cls: str) -> Dict[str, Any]:
    """ruleNames / symbolicNames / literalNames / token constants of the
    generated class, read with ast."""
    m = repo.module(module)
    node = [n for n in m.tree.body if isinstance(n, ast.ClassDef) and n.name == cls]
    if not node:
        raise AnalysisError(f"anchor vanished: class {cls} in {module}")
    out: Dict[str, Any] = {"consts": {}}
    for st in node[0].body:
        if isinstance(st, ast.Assign) and len(st.targets) == 1 and isinstance(st.targets[0], ast.Name):
            name = st.targets[0].id
            if name in ("ruleNames", "symbolicNames", "literalNames", "channelNames", "modeNames") \
                    and isinstance(st.value, ast.List):
                out[name] = [e.value for e in st.value.elts if isinstance(e, ast.Constant)]
            elif isinstance(st.value, ast.Constant) and isinstance(st.value.value, int):
                out["consts"][name] = st.value.value
    for k in ("ruleNames", "symbolicNames"):
        if k not in out:
            raise AnalysisError(f"anchor vanished: {cls}.{k}")
    # checkVersion("x")
    out["version"] = None
    for n in ast.walk(node[0]):
        if isinstance(n, ast.Call) and isinstance(n.func, ast.Attribute) and n.func.attr == "checkVersion" and n.args:
            out["version"] = n.args[0].value
    return out


# ----------------------------------------------------------------------
# lexer

class LexerModel:
    def __init__(self, repo: Repo):
        from antlr4.atn import Transition as T
        from antlr4.atn import ATNState as S
        self.T, self.S = T, S
        self.atn = _load_atn(repo, "cminx.parser.CMakeLexer")
        self.tables = class_tables(repo, "cminx.parser.CMakeLexer", "CMakeLexer")
        self.names: List[str] = self.tables["ruleNames"]
        if len(self.names) != len(self.atn.ruleToStartState):
            raise AnalysisError("lexer ruleNames and ATN disagree on the number of rules")
        self._alphabet()

    # -- alphabet ------------------------------------------------------
    def label_intervals(self, t) -> Optional[List[Tuple[int, int]]]:
        T = self.T
        if isinstance(t, T.WildcardTransition):
            return [(0, MAXC)]
        if isinstance(t, T.NotSetTransition):
            ivs = sorted((r.start, r.stop - 1) for r in t.label.intervals)   # python runtime: half-open ranges
            out, cur = [], 0
            for lo, hi in ivs:
                if lo > cur:
                    out.append((cur, lo - 1))
                cur = max(cur, hi + 1)
            if cur <= MAXC:
                out.append((cur, MAXC))
            return out
        if isinstance(t, T.AtomTransition):
            return [(t.label_, t.label_)]
        if isinstance(t, T.RangeTransition):
            return [(t.start, t.stop)]
        if isinstance(t, T.SetTransition):
            return [(r.start, r.stop - 1) for r in t.label.intervals]
        return None

    def _alphabet(self) -> None:
        bounds = {0, MAXC + 1}
        for s in self.atn.states:
            if s is None:
                continue
            for t in s.transitions:
                iv = self.label_intervals(t)
                if iv:
                    for lo, hi in iv:
                        if lo >= 0:
                            bounds.add(lo)
                            bounds.add(hi + 1)
        for c in "\t\n\r \"#$()-;<=>@[\\]_09AZaznrtmodule":
            bounds.add(ord(c))
            bounds.add(ord(c) + 1)
        bl = sorted(bounds)
        self.atoms = [(bl[i], bl[i + 1] - 1) for i in range(len(bl) - 1)]
        self.reps = [lo for lo, _hi in self.atoms] + [EOF]

    def symbols_of(self, ivs) -> Set[int]:
        out = set()
        for lo, hi in ivs:
            if lo == EOF:
                out.add(EOF)
                continue
            for a, b in self.atoms:
                if a >= lo and b <= hi:
                    out.add(a)
        return out

    # -- NFA of one rule -------------------------------------------------
    def rule_nfa(self, rule_index: int, maxdepth: int = 6):
        T, S = self.T, self.S
        atn = self.atn
        start = (atn.ruleToStartState[rule_index].stateNumber, ())
        trans: Dict[Any, List] = {}
        accept = set()
        todo, seen = [start], {start}
        truncated = False
        while todo:
            cfg = todo.pop()
            sn, stack = cfg
            s = atn.states[sn]
            outs = []
            if isinstance(s, S.RuleStopState):
                if stack:
                    outs.append((None, (stack[-1], stack[:-1])))
                else:
                    accept.add(cfg)
            else:
                for t in s.transitions:
                    if isinstance(t, T.RuleTransition):
                        if len(stack) >= maxdepth:
                            truncated = True
                            continue
                        outs.append((None, (t.target.stateNumber, stack + (t.followState.stateNumber,))))
                    elif isinstance(t, T.ActionTransition):
                        outs.append((("ACT", t.actionIndex), (t.target.stateNumber, stack)))
                    elif t.isEpsilon:
                        outs.append((None, (t.target.stateNumber, stack)))
                    else:
                        outs.append((frozenset(self.symbols_of(self.label_intervals(t))), (t.target.stateNumber, stack)))
            trans[cfg] = outs
            for _lab, c2 in outs:
                if c2 not in seen:
                    seen.add(c2)
                    todo.append(c2)
        return start, trans, accept, truncated

    def rule_dfa(self, name: str, maxdepth: int = 6):
        if name not in self.names:
            raise AnalysisError(f"anchor vanished: lexer rule {name}")
        st, tr, acc, trunc = self.rule_nfa(self.names.index(name), maxdepth)
        return to_dfa(st, tr, acc, self.reps), trunc

    # -- facts -----------------------------------------------------------
    def actions_per_rule(self) -> Dict[str, List[str]]:
        """Rule -> lexer action class names reachable inside the rule (without
        entering fragment rules), and whether every accepting path passes one."""
        T, S = self.T, self.S
        out: Dict[str, List[str]] = {}
        for ri, name in enumerate(self.names):
            start = self.atn.ruleToStartState[ri]
            seen, todo, acts = set(), [start], []
            while todo:
                s = todo.pop()
                if s.stateNumber in seen:
                    continue
                seen.add(s.stateNumber)
                if isinstance(s, S.RuleStopState):
                    continue
                for t in s.transitions:
                    if isinstance(t, T.ActionTransition):
                        a = self.atn.lexerActions[t.actionIndex]
                        acts.append(type(a).__name__)
                        todo.append(t.target)
                    elif isinstance(t, T.RuleTransition):
                        todo.append(t.followState)
                    else:
                        todo.append(t.target)
            out[name] = acts
        return out

    def action_on_every_accepting_path(self, name: str) -> bool:
        """True if the rule stop state is only reachable through an action
        transition (the `-> skip` sits at the end of the rule)."""
        T, S = self.T, self.S
        ri = self.names.index(name)
        start = self.atn.ruleToStartState[ri]
        # search for a path start -> stop that avoids every action transition
        seen, todo = set(), [start]
        while todo:
            s = todo.pop()
            if s.stateNumber in seen:
                continue
            seen.add(s.stateNumber)
            if isinstance(s, S.RuleStopState):
                if s.ruleIndex == ri:
                    return False
                continue
            for t in s.transitions:
                if isinstance(t, T.ActionTransition):
                    continue
                todo.append(t.followState if isinstance(t, T.RuleTransition) else t.target)
        return True

    def nongreedy_decisions(self) -> Dict[str, List[bool]]:
        out: Dict[str, List[bool]] = {}
        for d in self.atn.decisionToState:
            if 0 <= d.ruleIndex < len(self.names):
                out.setdefault(self.names[d.ruleIndex], []).append(bool(getattr(d, "nonGreedy", False)))
        return out

    def token_type_of_rule(self) -> Dict[str, int]:
        return {n: self.atn.ruleToTokenType[i] for i, n in enumerate(self.names)}


def eclose(trans, S):
    S = set(S)
    todo = list(S)
    while todo:
        c = todo.pop()
        for lab, c2 in trans.get(c, []):
            if (lab is None or (isinstance(lab, tuple) and lab and lab[0] == "ACT")) and c2 not in S:
                S.add(c2)
                todo.append(c2)
    return frozenset(S)


def to_dfa(start, trans, accept, reps):
    d0 = eclose(trans, [start])
    dstates = {d0: 0}
    dtrans: Dict[Tuple[int, Any], int] = {}
    todo = [d0]
    dacc = set()
    while todo:
        D = todo.pop()
        if D & accept:
            dacc.add(dstates[D])
        by_sym: Dict[Any, Set] = {}
        for c in D:
            for lab, c2 in trans.get(c, []):
                if isinstance(lab, frozenset):
                    for a in lab:
                        by_sym.setdefault(a, set()).add(c2)
        for a, Tset in by_sym.items():
            E = eclose(trans, Tset)
            if E not in dstates:
                dstates[E] = len(dstates)
                todo.append(E)
            dtrans[(dstates[D], a)] = dstates[E]
    return 0, dtrans, dacc, len(dstates)


def equiv(d1, d2, reps, show=None):
    """Language equality of two DFAs; returns (True, None, None) or
    (False, shortest distinguishing word, accepted_by_first)."""
    (s1, t1, a1, _n1), (s2, t2, a2, _n2) = d1, d2
    seen = {(s1, s2): None}
    todo = [(s1, s2)]
    while todo:
        p = todo.pop(0)
        x, y = p
        if ((x in a1) if x != "dead" else False) != ((y in a2) if y != "dead" else False):
            w = []
            q = p
            while seen[q] is not None:
                q, a = seen[q]
                w.append(a)
            w.reverse()
            if show:
                word = show(w)
            else:
                word = "".join("<EOF>" if c == EOF else chr(c) for c in w)
            return False, word, (x in a1) if x != "dead" else False
        for a in reps:
            nx = t1.get((x, a), "dead") if x != "dead" else "dead"
            ny = t2.get((y, a), "dead") if y != "dead" else "dead"
            if nx == "dead" and ny == "dead":
                continue
            q = (nx, ny)
            if q not in seen:
                seen[q] = (p, a)
                todo.append(q)
    return True, None, None


def included(d1, d2, reps):
    """L(d1) subset of L(d2)?  (False, word) with a word in L(d1)-L(d2)."""
    (s1, t1, a1, _), (s2, t2, a2, _) = d1, d2
    seen = {(s1, s2): None}
    todo = [(s1, s2)]
    while todo:
        p = todo.pop(0)
        x, y = p
        if x in a1 and not (y != "dead" and y in a2):
            w = []
            q = p
            while seen[q] is not None:
                q, a = seen[q]
                w.append(a)
            w.reverse()
            return False, "".join("<EOF>" if c == EOF else chr(c) for c in w)
        for a in reps:
            nx = t1.get((x, a))
            if nx is None:
                continue
            ny = t2.get((y, a), "dead") if y != "dead" else "dead"
            q = (nx, ny)
            if q not in seen:
                seen[q] = (p, a)
                todo.append(q)
    return True, None


# ----------------------------------------------------------------------
# reference regular expressions (combinators -> NFA in the same format)

class RefBuilder:
    def __init__(self, lex: LexerModel):
        self.lex = lex
        self.cnt = 0

    def cls(self, *parts, neg=False):
        S: Set[int] = set()
        for p in parts:
            if isinstance(p, tuple):
                S |= self.lex.symbols_of([(ord(p[0]), ord(p[1]))])
            elif p == "EOF":
                S.add(EOF)
            else:
                for ch in p:
                    S |= self.lex.symbols_of([(ord(ch), ord(ch))])
        if neg:
            S = set(self.lex.reps) - S - {EOF}
        return ("set", frozenset(S))

    def lit(self, s):
        return ("cat", [self.cls(c) for c in s])

    @staticmethod
    def cat(*xs):
        return ("cat", list(xs))

    @staticmethod
    def alt(*xs):
        return ("alt", list(xs))

    @staticmethod
    def star(x):
        return ("star", x)

    def plus(self, x):
        return self.cat(x, self.star(x))

    def opt(self, x):
        return self.alt(x, ("cat", []))

    def dfa(self, r):
        trans: Dict[Any, List] = {}
        counter = [0]

        def new():
            counter[0] += 1
            k = ("r", counter[0])
            trans.setdefault(k, [])
            return k

        def build(r, a, b):
            k = r[0]
            if k == "set":
                trans[a].append((r[1], b))
            elif k == "cat":
                if not r[1]:
                    trans[a].append((None, b))
                cur = a
                for i, x in enumerate(r[1]):
                    nxt = b if i == len(r[1]) - 1 else new()
                    build(x, cur, nxt)
                    cur = nxt
            elif k == "alt":
                for x in r[1]:
                    build(x, a, b)
            elif k == "star":
                m = new()
                trans[a].append((None, m))
                trans[m].append((None, b))
                m2 = new()
                build(r[1], m, m2)
                trans[m2].append((None, m))

        a, b = new(), new()
        build(r, a, b)
        return to_dfa(a, trans, {b}, self.lex.reps)


def reference_languages(lex: LexerModel, max_level: int = 3) -> Dict[str, Any]:
    """Token languages of cmake-language(7) (CMake 3.25 manual), plus the two
    CMinx doccomment tokens as DESIGN appendix A.3 states them."""
    R = RefBuilder(lex)
    cls, lit, cat, alt, star, plus, opt = R.cls, R.lit, R.cat, R.alt, R.star, R.plus, R.opt
    NL = alt(cat(cls("\r"), opt(cls("\n"))), cls("\n"))
    esc = alt(cat(cls("\\"), cls(("A", "Z"), ("a", "z"), ("0", "9"), ";", neg=True)),
              lit("\\t"), lit("\\r"), lit("\\n"), lit("\\;"))
    any_ = cls("", neg=True)
    unq_elem = alt(cls(" \t\r\n()#\"\\", neg=True), esc)

    def brk(n):
        return cat(cls("["), lit("=" * n), cls("["), star(any_), cls("]"), lit("=" * n), cls("]"))

    not_nl = cls("\r\n", neg=True)
    refs = {
        "Identifier": cat(cls(("A", "Z"), ("a", "z"), "_"), star(cls(("A", "Z"), ("a", "z"), ("0", "9"), "_"))),
        "Unquoted_argument": plus(unq_elem),
        "Quoted_argument": cat(cls('"'), star(alt(cls('\\"', neg=True), esc, cat(cls("\\"), NL))), cls('"')),
        "Space": plus(cls(" \t")),
        "Newline": plus(NL),
        "Line_comment": cat(cls("#"),
                            alt(cat(),
                                cat(cls("["), star(cls("="))),
                                cat(cls("["), star(cls("=")), cls("=[\r\n", neg=True), star(not_nl)),
                                cat(cls("[\r\n", neg=True), star(not_nl))),
                            alt(NL, cls("EOF"))),
        "Bracket_argument": alt(*[brk(n) for n in range(0, max_level + 1)]),
        "Bracket_comment": cat(cls("#"), alt(*[brk(n) for n in range(0, max_level + 1)])),
        "Escape_sequence": esc,
        "Docstring": cat(lit("#[[["), star(any_), lit("#]]")),
        "Module_docstring": cat(lit("#[[["), opt(plus(cls(" \t"))), lit("@module"),
                                opt(cat(plus(cls(" \t")), plus(unq_elem))), star(any_), lit("#]]")),
    }
    return {"R": R, "refs": refs, "level_filter": lambda extra="": alt(*[cat(lit(extra), cls("["), lit("=" * n), cls("["), star(any_)) for n in range(0, max_level + 1)])}


def intersect_dfa(d1, d2, reps):
    """Product DFA accepting L(d1) & L(d2)."""
    (s1, t1, a1, _), (s2, t2, a2, _) = d1, d2
    ids = {(s1, s2): 0}
    todo = [(s1, s2)]
    tr = {}
    acc = set()
    while todo:
        p = todo.pop()
        x, y = p
        if x in a1 and y in a2:
            acc.add(ids[p])
        for a in reps:
            nx, ny = t1.get((x, a)), t2.get((y, a))
            if nx is None or ny is None:
                continue
            q = (nx, ny)
            if q not in ids:
                ids[q] = len(ids)
                todo.append(q)
            tr[(ids[p], a)] = ids[q]
    return 0, tr, acc, len(ids)


# ----------------------------------------------------------------------
# parser

class ParserModel:
    def __init__(self, repo: Repo):
        from antlr4.atn import Transition as T
        from antlr4.atn import ATNState as S
        self.T, self.S = T, S
        self.atn = _load_atn(repo, "cminx.parser.CMakeParser")
        self.tables = class_tables(repo, "cminx.parser.CMakeParser", "CMakeParser")
        self.rules: List[str] = self.tables["ruleNames"]
        self.sym: List[str] = self.tables["symbolicNames"]
        self.lit: List[str] = self.tables.get("literalNames", [])
        if len(self.rules) != len(self.atn.ruleToStartState):
            raise AnalysisError("parser ruleNames and ATN disagree on the number of rules")

    def tok_name(self, t: int) -> str:
        if t == EOF:
            return "EOF"
        if 0 <= t < len(self.sym) and self.sym[t] != "<INVALID>":
            return self.sym[t]
        if 0 <= t < len(self.lit) and self.lit[t] != "<INVALID>":
            return self.lit[t]
        return f"T{t}"

    def _labels(self, t) -> Optional[List[int]]:
        T = self.T
        if isinstance(t, T.AtomTransition):
            return [t.label_]
        if isinstance(t, T.SetTransition):
            return [i for iv in t.label.intervals for i in range(iv.start, iv.stop)]
        if isinstance(t, T.RangeTransition):
            return list(range(t.start, t.stop + 1))
        if isinstance(t, T.NotSetTransition):
            excl = {i for iv in t.label.intervals for i in range(iv.start, iv.stop)}
            return [i for i in range(1, self.atn.maxTokenType + 1) if i not in excl]
        if isinstance(t, T.WildcardTransition):
            return list(range(1, self.atn.maxTokenType + 1))
        return None

    def rule_nfa(self, ri: int):
        """NFA of one rule over symbols 'tok:<name>' and 'rule:<name>'."""
        T, S = self.T, self.S
        start = self.atn.ruleToStartState[ri]
        trans: Dict[int, List] = {}
        accept = set()
        todo, seen = [start], set()
        while todo:
            s = todo.pop()
            if s.stateNumber in seen:
                continue
            seen.add(s.stateNumber)
            outs = []
            if isinstance(s, S.RuleStopState):
                accept.add(s.stateNumber)
            else:
                for t in s.transitions:
                    if isinstance(t, T.RuleTransition):
                        outs.append((frozenset(["rule:" + self.rules[t.ruleIndex]]), t.followState.stateNumber))
                        todo.append(t.followState)
                    elif t.isEpsilon:
                        outs.append((None, t.target.stateNumber))
                        todo.append(t.target)
                    else:
                        outs.append((frozenset("tok:" + self.tok_name(x) for x in self._labels(t)), t.target.stateNumber))
                        todo.append(t.target)
            trans[s.stateNumber] = outs
        return start.stateNumber, trans, accept

    def alphabet(self) -> List[str]:
        toks = ["tok:" + self.tok_name(i) for i in range(1, self.atn.maxTokenType + 1)] + ["tok:EOF"]
        return toks + ["rule:" + r for r in self.rules]

    def rule_dfa(self, name: str):
        if name not in self.rules:
            raise AnalysisError(f"anchor vanished: parser rule {name}")
        st, tr, acc = self.rule_nfa(self.rules.index(name))
        return to_dfa(st, tr, acc, self.alphabet())

    def ref_dfa(self, r):
        """Reference regex over parser symbols: ('sym', name) | cat | alt | star."""
        trans: Dict[Any, List] = {}
        counter = [0]

        def new():
            counter[0] += 1
            k = ("r", counter[0])
            trans.setdefault(k, [])
            return k

        def build(r, a, b):
            k = r[0]
            if k == "sym":
                trans[a].append((frozenset([r[1]]), b))
            elif k == "cat":
                if not r[1]:
                    trans[a].append((None, b))
                cur = a
                for i, x in enumerate(r[1]):
                    nxt = b if i == len(r[1]) - 1 else new()
                    build(x, cur, nxt)
                    cur = nxt
            elif k == "alt":
                for x in r[1]:
                    build(x, a, b)
            elif k == "star":
                m = new()
                trans[a].append((None, m))
                trans[m].append((None, b))
                m2 = new()
                build(r[1], m, m2)
                trans[m2].append((None, m))
        a, b = new(), new()
        build(r, a, b)
        return to_dfa(a, trans, {b}, self.alphabet())

    def word(self, w) -> str:
        return " ".join(x.split(":", 1)[1] for x in w)

    # -- decisions -------------------------------------------------------
    def first_of_state(self, state, seen=None) -> Set[int]:
        """Token types that can start a derivation from `state` staying
        within the rule (ε-closure through rule calls; if a called rule can be
        empty its follow is included)."""
        T, S = self.T, self.S
        out: Set[int] = set()
        seen = seen if seen is not None else set()
        todo = [(state, ())]
        while todo:
            s, stack = todo.pop()
            key = (s.stateNumber, stack)
            if key in seen:
                continue
            seen.add(key)
            if isinstance(s, S.RuleStopState):
                if stack:
                    todo.append((self.atn.states[stack[-1]], stack[:-1]))
                else:
                    out.add(-2)    # can reach the end of the rule: epsilon
                continue
            for t in s.transitions:
                if isinstance(t, T.RuleTransition):
                    if len(stack) < 8:
                        todo.append((t.target, stack + (t.followState.stateNumber,)))
                elif t.isEpsilon:
                    todo.append((t.target, stack))
                else:
                    out.update(self._labels(t))
        return out

    def decisions(self) -> List[Dict[str, Any]]:
        out = []
        for d in self.atn.decisionToState:
            alts = []
            for t in d.transitions:
                alts.append(sorted(self.tok_name(x) if x != -2 else "<eps>" for x in self.first_of_state(t.target)))
            out.append({"decision": d.decision, "rule": self.rules[d.ruleIndex], "kind": type(d).__name__,
                        "state": d.stateNumber, "alts": alts})
        return out

    def entry_ends_in_eof(self) -> bool:
        """Every transition into the stop state of rule 0 comes (through
        epsilons) from an EOF atom transition."""
        T, S = self.T, self.S
        stop = self.atn.ruleToStopState[0]
        # backward: states that reach stop via epsilon only
        eps_pred: Dict[int, List] = {}
        tok_into: Dict[int, List] = {}
        for s in self.atn.states:
            if s is None or s.ruleIndex != 0:
                continue
            for t in s.transitions:
                tgt = t.followState if isinstance(t, T.RuleTransition) else t.target
                if isinstance(t, T.RuleTransition) or not t.isEpsilon:
                    tok_into.setdefault(tgt.stateNumber, []).append(t)
                else:
                    eps_pred.setdefault(tgt.stateNumber, []).append(s.stateNumber)
        todo, seen = [stop.stateNumber], set()
        ok, found = True, False
        start = self.atn.ruleToStartState[0].stateNumber
        while todo:
            n = todo.pop()
            if n in seen:
                continue
            seen.add(n)
            if n == start:
                ok = False     # stop reachable from start by epsilons only
            for t in tok_into.get(n, []):
                found = True
                if isinstance(t, T.RuleTransition) or self._labels(t) != [EOF]:
                    ok = False
            todo.extend(eps_pred.get(n, []))
        return ok and found


_cache: Dict[str, Any] = {}


def lexer(repo: Repo) -> LexerModel:
    k = "lex:" + repo.root
    if k not in _cache:
        _cache[k] = LexerModel(repo)
    return _cache[k]


def parser(repo: Repo) -> ParserModel:
    k = "par:" + repo.root
    if k not in _cache:
        _cache[k] = ParserModel(repo)
    return _cache[k]


def parser_facts(repo: Repo) -> Dict[str, Any]:
    p = parser(repo)
    return {"entry_ends_in_eof": p.entry_ends_in_eof(), "rules": p.rules}

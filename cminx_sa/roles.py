"""Anchors found by role first and by name second (DESIGN §1): the rules keep
working when a class, attribute or local is renamed, and fail as
ANALYSIS-ERROR (exit 2), never silently, when the role has no bearer."""
from __future__ import annotations

import ast
from typing import Dict, List, Optional, Tuple

from .core import AnalysisError
from .model import Repo, calls_in, call_name, norm, walk_no_nested


def recognizer_names(repo: Repo, base: str) -> Tuple[str, ...]:
    """The generated recognizer class `base` and every hand-written subclass of it (a subclass is still that recognizer)."""
    out = [base]
    for ci in repo.classes.values():
        if ci.name != base:
            try:
                if any(k.name == base for k in repo.mro(ci.name)) or base in ci.bases:
                    out.append(ci.name)
            except Exception:
                if base in ci.bases:
                    out.append(ci.name)
    return tuple(dict.fromkeys(out))


def documenter_class(repo: Repo) -> str:
    """The class of cminx.documenter that builds the lexer and the parser."""
    m = repo.module("cminx.documenter")
    lex, par = recognizer_names(repo, "CMakeLexer"), recognizer_names(repo, "CMakeParser")
    for node in m.tree.body:
        if isinstance(node, ast.ClassDef):
            txt = [call_name(c).split(".")[-1] for c in ast.walk(node) if isinstance(c, ast.Call)]
            if any(x in txt for x in lex) and any(x in txt for x in par):
                return node.name
    raise AnalysisError("anchor vanished: no class in cminx.documenter constructs CMakeLexer and CMakeParser")


def aggregator_class(repo: Repo) -> str:
    """The listener: the subclass of CMakeListener in cminx.aggregator."""
    cands = []
    for ci in repo.classes.values():
        if ci.module != "cminx.aggregator":
            continue
        try:
            is_listener = "CMakeListener" in ci.bases or any(k.name == "CMakeListener" or "CMakeListener" in k.bases
                                                             for k in repo.mro(ci.name))
        except Exception:
            is_listener = "CMakeListener" in ci.bases
        if is_listener:
            cands.append(ci)
    # the listener that is instantiated is the most derived one (a private base class may carry part of the state)
    leaves = [c for c in cands if not any(c.name in o.bases for o in cands if o is not c)]
    if leaves:
        return leaves[0].name
    raise AnalysisError("anchor vanished: no CMakeListener subclass in cminx.aggregator")


def self_attr_assigned_from(cls_node: ast.ClassDef, ctor_names: Tuple[str, ...]) -> Dict[str, ast.Call]:
    """self.<attr> = <Ctor>(...) assignments anywhere in the class: attr -> call."""
    out = {}
    for n in ast.walk(cls_node):
        tgt, val = None, None
        if isinstance(n, ast.Assign) and len(n.targets) == 1:
            tgt, val = n.targets[0], n.value
        elif isinstance(n, ast.AnnAssign) and n.value is not None:
            tgt, val = n.target, n.value
        if tgt is None or not isinstance(val, ast.Call):
            continue
        if call_name(val).split(".")[-1] in ctor_names and isinstance(tgt, ast.Attribute) \
                and isinstance(tgt.value, ast.Name) and tgt.value.id == "self":
            out[tgt.attr] = val
    return out


def listener_lists(repo: Repo, cls: str) -> Dict[str, str]:
    """Roles of the list attributes of the aggregator, inferred from what is
    pushed on them / from their annotation:
      entries   - receives DocumentationType objects, read by the Documenter
      defstack  - receives DefinitionCommand objects
      classstack- receives ClassDocumentation objects or None
      consumed  - receives parse contexts (ctx.xxx())
      awaiting  - the slot (not a list) assigned a Test/Method documentation
    """
    ci = repo.cls(cls)
    init = ci.methods.get("__init__")
    if init is None:
        raise AnalysisError(f"{cls} has no __init__")
    roles: Dict[str, str] = {}
    pushes: Dict[str, List[str]] = {}
    # the class and its hand-written base classes (part of the state may live in a private base)
    try:
        family = [k for k in repo.mro(cls) if k.module == ci.module]
    except Exception:
        family = [ci]
    all_fns = [fn for k in family for fn in k.methods.values()]
    inits = [k.methods["__init__"] for k in family if "__init__" in k.methods]
    for fn in all_fns:
        for c in calls_in(fn):
            if isinstance(c.func, ast.Attribute) and c.func.attr == "append" and c.args:
                recv = c.func.value
                if isinstance(recv, ast.Attribute) and isinstance(recv.value, ast.Name) and recv.value.id == "self":
                    pushes.setdefault(recv.attr, []).append(norm(c.args[0]))
    ann: Dict[str, str] = {}
    for init_ in inits:
        for n in ast.walk(init_):
            if isinstance(n, ast.AnnAssign) and isinstance(n.target, ast.Attribute):
                ann[n.target.attr] = norm(n.annotation)
    for attr_name, vals in pushes.items():
        joined = " ".join(vals)
        a = ann.get(attr_name, "")
        if "DefinitionCommand" in joined or "DefinitionCommand" in a:
            roles["defstack"] = attr_name
        elif "ParserRuleContext" in a or all(v.startswith("ctx") or v in ("context", "node") for v in vals):
            roles["consumed"] = attr_name
        elif "ClassDocumentation" in a and "None" in a or "None" in vals:
            roles["classstack"] = attr_name
        elif "DocumentationType" in a or any("Documentation(" in v or "_doc" in v or v in ("doc", "clazz") for v in vals):
            roles.setdefault("entries", attr_name)
    # awaiting slot: attribute assigned None in __init__ and an entry elsewhere
    for n in ast.walk(init):
        if isinstance(n, (ast.Assign, ast.AnnAssign)):
            tgt = n.targets[0] if isinstance(n, ast.Assign) else n.target
            val = n.value
            if isinstance(tgt, ast.Attribute) and isinstance(val, ast.Constant) and val.value is None:
                roles.setdefault("awaiting", tgt.attr)
    for r in ("entries", "defstack", "classstack", "awaiting"):
        if r not in roles:
            raise AnalysisError(f"anchor vanished: cannot identify the '{r}' attribute of {cls}")
    # the consumed set is optional: a listener may track handled commands differently (the protocol rules then see whatever
    # it uses as an extra state atom)
    roles.setdefault("consumed", "__no_consumed_list__")
    return roles

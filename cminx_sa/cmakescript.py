"""E8 - a small reader for CMake scripts (cmake/cminx.cmake): command
invocations with quoted / unquoted / bracket arguments, comments skipped,
block structure for function/if."""
from __future__ import annotations

import re
from dataclasses import dataclass, field
from typing import List, Optional, Tuple

from .core import AnalysisError


@dataclass
class Arg:
    kind: str      # 'quoted' | 'unquoted' | 'bracket' | 'paren'
    text: str      # content without quotes


@dataclass
class Command:
    name: str
    args: List[Arg]
    line: int
    depth_if: int = 0

    def words(self) -> List[str]:
        return [a.text for a in self.args]

    def text(self) -> str:
        def s(a):
            return f'"{a.text}"' if a.kind == "quoted" else a.text
        return f"{self.name}({' '.join(s(a) for a in self.args)})"


def parse(src: str) -> List[Command]:
    i, n, line = 0, len(src), 1
    cmds: List[Command] = []

    def skip_ws_comments():
        nonlocal i, line
        while i < n:
            c = src[i]
            if c in " \t\r":
                i += 1
            elif c == "\n":
                i += 1
                line += 1
            elif c == "#":
                m = re.match(r"#\[(=*)\[", src[i:])
                if m:
                    close = "]" + m.group(1) + "]"
                    j = src.find(close, i + len(m.group(0)))
                    if j < 0:
                        raise AnalysisError("unterminated bracket comment in CMake script")
                    line += src.count("\n", i, j)
                    i = j + len(close)
                else:
                    while i < n and src[i] != "\n":
                        i += 1
            else:
                break

    while True:
        skip_ws_comments()
        if i >= n:
            break
        m = re.match(r"[A-Za-z_][A-Za-z0-9_]*", src[i:])
        if not m:
            raise AnalysisError(f"CMake script: expected a command name at line {line}: {src[i:i + 20]!r}")
        name = m.group(0)
        i += len(name)
        while i < n and src[i] in " \t":
            i += 1
        if i >= n or src[i] != "(":
            raise AnalysisError(f"CMake script: expected '(' after {name} at line {line}")
        i += 1
        start_line = line
        args: List[Arg] = []
        depth = 1
        while True:
            skip_ws_comments()
            if i >= n:
                raise AnalysisError(f"CMake script: unterminated argument list of {name}")
            c = src[i]
            if c == ")":
                i += 1
                depth -= 1
                if depth == 0:
                    break
                args.append(Arg("paren", ")"))
            elif c == "(":
                i += 1
                depth += 1
                args.append(Arg("paren", "("))
            elif c == '"':
                j = i + 1
                buf = []
                while j < n and src[j] != '"':
                    if src[j] == "\\" and j + 1 < n:
                        buf.append(src[j:j + 2])
                        j += 2
                    else:
                        if src[j] == "\n":
                            line += 1
                        buf.append(src[j])
                        j += 1
                if j >= n:
                    raise AnalysisError("CMake script: unterminated string")
                args.append(Arg("quoted", "".join(buf)))
                i = j + 1
            elif c == "[" and re.match(r"\[(=*)\[", src[i:]):
                m2 = re.match(r"\[(=*)\[", src[i:])
                close = "]" + m2.group(1) + "]"
                j = src.find(close, i)
                if j < 0:
                    raise AnalysisError("CMake script: unterminated bracket argument")
                args.append(Arg("bracket", src[i + len(m2.group(0)):j]))
                line += src.count("\n", i, j)
                i = j + len(close)
            else:
                m3 = re.match(r'(?:[^\s()#"\\]|\\.)+', src[i:])
                if not m3:
                    raise AnalysisError(f"CMake script: cannot tokenize at line {line}: {src[i:i + 20]!r}")
                args.append(Arg("unquoted", m3.group(0)))
                i += len(m3.group(0))
        cmds.append(Command(name.lower(), args, start_line))
    return cmds


@dataclass
class Block:
    kind: str                       # 'function' | 'if' | 'foreach' | 'while' | 'macro'
    head: Command
    body: List[object] = field(default_factory=list)       # Commands and Blocks (true branch for if)
    branches: List[Tuple[Command, List[object]]] = field(default_factory=list)  # elseif/else


OPEN = {"function": "endfunction", "macro": "endmacro", "if": "endif", "foreach": "endforeach", "while": "endwhile"}


def structure(cmds: List[Command]) -> List[object]:
    pos = 0

    def parse_block(end_names) -> Tuple[List[object], Optional[Command]]:
        nonlocal pos
        items: List[object] = []
        while pos < len(cmds):
            c = cmds[pos]
            if c.name in end_names:
                return items, c
            pos += 1
            if c.name in OPEN:
                b = Block(c.name, c)
                if c.name == "if":
                    body, stop = parse_block({"elseif", "else", "endif"})
                    b.body = body
                    while stop is not None and stop.name in ("elseif", "else"):
                        pos += 1
                        br_body, nxt = parse_block({"elseif", "else", "endif"})
                        b.branches.append((stop, br_body))
                        stop = nxt
                    if stop is None:
                        raise AnalysisError("CMake script: if() without endif()")
                    pos += 1
                else:
                    body, stop = parse_block({OPEN[c.name]})
                    if stop is None:
                        raise AnalysisError(f"CMake script: {c.name}() without {OPEN[c.name]}()")
                    b.body = body
                    pos += 1
                items.append(b)
            else:
                items.append(c)
        return items, None

    items, stop = parse_block(set())
    return items


def walk(items, ancestors=()):
    """Yield (command, ancestors) for every command; ancestors is a tuple of
    (Block, branch) where branch is 'body' or the elseif/else Command."""
    for it in items:
        if isinstance(it, Command):
            yield it, ancestors
        else:
            yield it.head, ancestors
            yield from walk(it.body, ancestors + ((it, "body"),))
            for head, body in it.branches:
                yield head, ancestors
                yield from walk(body, ancestors + ((it, head),))

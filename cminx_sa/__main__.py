"""CLI:  python -m cminx_sa <Cxx> [quick|thorough] [--repo PATH]"""
from __future__ import annotations

import importlib
import os
import sys
import traceback

from .core import AnalysisError, Report, finish
from .model import Repo

PROPS = [f"C{n:02d}" for n in range(1, 21)]


def main(argv) -> int:
    args = [a for a in argv if not a.startswith("--")]
    repo_path = os.environ.get("CMINX_SA_REPO", "/repo")
    for i, a in enumerate(argv):
        if a == "--repo" and i + 1 < len(argv):
            repo_path = argv[i + 1]
            args = [x for x in args if x != repo_path]
        elif a.startswith("--repo="):
            repo_path = a.split("=", 1)[1]
    if args and args[0] == "explain":
        return explain(args[1:] if len(args) > 1 else [])
    if not args or args[0] not in PROPS:
        print("usage: python -m cminx_sa <C01..C20> [quick|thorough] [--repo PATH]", file=sys.stderr)
        return 2
    prop = args[0]
    tier = args[1] if len(args) > 1 else os.environ.get("VERIF_TIER", "quick")
    if tier not in ("quick", "thorough"):
        tier = "quick"
    try:
        seed = int(os.environ.get("VERIF_SEED", "0"))
    except ValueError:
        seed = 0
    rep = Report(prop, tier, repo_path)
    error = None
    try:
        repo = Repo(repo_path)
        mod = importlib.import_module(f"cminx_sa.rules.{prop.lower()}")
        mod.run(rep, repo, tier)
    except AnalysisError as e:
        error = str(e)
    except Exception as e:  # a crash of the analysis is not a violation
        error = f"internal error: {type(e).__name__}: {e} @ " + \
                traceback.format_exc().strip().splitlines()[-3].strip()
        if os.environ.get("CMINX_SA_DEBUG"):
            traceback.print_exc()
    if error is None and tier == "thorough" and not os.environ.get("CMINX_SA_NO_CONTROLS") \
            and not any(i.verdict == "violation" for i in rep.instances):
        try:
            error = run_controls(rep, prop, repo_path)
        except Exception as e:  # the controls must never turn into a false alarm
            rep.extra_cov["controls"] = {"error": f"{type(e).__name__}: {e}"}
    return finish(rep, seed, error)


def run_controls(rep: Report, prop: str, repo_path: str):
    """Thorough tier: positive and negative controls of the checker itself.  Every breaking variant registered for this
    property (hand-written edits and the regressions seeded by independent agents) is applied to a scratch copy of the
    *current* tree and must make the quick check fire; every behaviour-preserving refactoring must leave it silent.
    Variants whose edit no longer applies to the current tree are skipped.  A failing control means the checker is broken
    (exit 2), never that the property is violated."""
    import concurrent.futures as cf
    here = os.path.dirname(os.path.dirname(os.path.abspath(__file__)))
    sys.path.insert(0, os.path.join(here, "selftest"))
    os.environ["CMINX_SA_REPO"] = repo_path
    os.environ["CMINX_SA_NO_CONTROLS"] = "1"
    import run as st_run          # selftest/run.py
    st_run.REPO = repo_path
    mine = []
    for v in st_run.VARIANTS:
        if prop in v["props"]:
            w = dict(v)
            w["props"] = [prop]
            w["tier"] = "quick"
            if v["kind"] == "break" and len(v["props"]) > 1:
                # rules listed for other properties do not apply here
                w["rules"] = [r for r in (v.get("rules") or []) if r.startswith(prop + "-")] or None
            mine.append(w)
    stats = {"breaking": 0, "detected": 0, "benign": 0, "silent": 0, "skipped": 0, "failed": []}
    with cf.ThreadPoolExecutor(max_workers=int(os.environ.get("CMINX_SA_JOBS", "16"))) as ex:
        for v, status, msg, dt in ex.map(st_run.run_variant, mine):
            if status == "EDIT-FAILED":
                stats["skipped"] += 1
                continue
            if v["kind"] == "break":
                stats["breaking"] += 1
                if status == "ok":
                    stats["detected"] += 1
                else:
                    stats["failed"].append(f"{v['id']}: {status} {msg[:120]}")
            else:
                stats["benign"] += 1
                if status == "ok":
                    stats["silent"] += 1
                else:
                    stats["failed"].append(f"{v['id']}: {status} {msg[:120]}")
    rep.extra_cov["controls"] = stats
    rep.ok(f"{prop}-CTL", "selftest", f"checker controls: {stats['detected']}/{stats['breaking']} seeded/edited regressions detected, "
                                       f"{stats['silent']}/{stats['benign']} behaviour-preserving refactorings silent, {stats['skipped']} skipped")
    rep.rule(f"{prop}-CTL", "controls of the checker on scratch copies of the current tree (thorough tier only)")
    if stats["failed"]:
        # The controls were validated (selftest: 0 problems) against one particular tree, recorded by its digest.  On any
        # other tree an edit may apply and yet mean something else (a seeded change on top of a refactoring can be vacuous,
        # or undone by it): there a disagreement says nothing about the checker, it is recorded and the verdict of the
        # rules stands.  On the validated tree it is a defect of the checker: exit 2.
        validated = _validated_digest(here)
        current = tree_digest(repo_path)
        stats["tree_digest"] = current
        stats["validated_digest"] = validated
        if validated is not None and current != validated:
            rep.note(f"{prop}-CTL", "selftest", "controls on a tree other than the validated one",
                     "checker controls are inconclusive on this tree (it differs from the tree they were validated on): "
                     + " ; ".join(stats["failed"][:3]))
            return None
        return "checker control failed (the checker, not the property): " + " ; ".join(stats["failed"][:3])
    return None


def tree_digest(repo_path: str) -> str:
    """sha256 over the files the checks read: src/cminx/**, cmake/**, pyproject.toml (paths and contents)."""
    import hashlib
    h = hashlib.sha256()
    files = []
    for top in ("src/cminx", "cmake"):
        for root, dirs, names in os.walk(os.path.join(repo_path, top)):
            dirs[:] = sorted(d for d in dirs if d != "__pycache__")
            for n in sorted(names):
                if not n.endswith((".pyc", ".pyo")):
                    files.append(os.path.join(root, n))
    files.append(os.path.join(repo_path, "pyproject.toml"))
    for f in files:
        try:
            data = open(f, "rb").read()
        except OSError:
            continue
        h.update(os.path.relpath(f, repo_path).encode() + b"\0" + data + b"\0")
    return h.hexdigest()


def _validated_digest(here: str):
    import json
    try:
        return json.load(open(os.path.join(here, "selftest", "validated_tree.json")))["digest"]
    except Exception:
        return None


def explain(paths) -> int:
    """./check explain <replay.json>: print the recorded construct and re-run the property's check."""
    import json
    import subprocess
    if not paths:
        print("usage: ./check explain <evidence/replay/Cxx-n.json>", file=sys.stderr)
        return 2
    rc = 0
    for p in paths:
        try:
            d = json.load(open(p))
        except Exception as e:
            print(f"cannot read {p}: {e}", file=sys.stderr)
            return 2
        print(json.dumps(d, indent=1))
        here = os.path.dirname(os.path.dirname(os.path.abspath(__file__)))
        r = subprocess.run([sys.executable, "-B", "-m", "cminx_sa", d.get("property", ""), d.get("tier", "quick"), "--repo",
                            d.get("repo", "/repo")], cwd=here, env=dict(os.environ, CMINX_SA_NO_CONTROLS="1"))
        rc = max(rc, r.returncode)
    return rc


if __name__ == "__main__":
    sys.exit(main(sys.argv[1:]))

"""CLI:  python -m cminx_sa <Cxx> [quick|thorough] [--repo PATH]"""
from __future__ import annotations

import importlib
import os
import sys
import traceback

from .core import AnalysisError, Report, finish
from .model import Repo

PROPS = [f"C{n:02d}" for n in range(1, 21)]


def main(argv) -> int:
    args = [a for a in argv if not a.startswith("--")]
    repo_path = os.environ.get("CMINX_SA_REPO", "/repo")
    for i, a in enumerate(argv):
        if a == "--repo" and i + 1 < len(argv):
            repo_path = argv[i + 1]
            args = [x for x in args if x != repo_path]
        elif a.startswith("--repo="):
            repo_path = a.split("=", 1)[1]
    if not args or args[0] not in PROPS:
        print("usage: python -m cminx_sa <C01..C20> [quick|thorough] [--repo PATH]", file=sys.stderr)
        return 2
    prop = args[0]
    tier = args[1] if len(args) > 1 else os.environ.get("VERIF_TIER", "quick")
    if tier not in ("quick", "thorough"):
        tier = "quick"
    try:
        seed = int(os.environ.get("VERIF_SEED", "0"))
    except ValueError:
        seed = 0
    rep = Report(prop, tier, repo_path)
    error = None
    try:
        repo = Repo(repo_path)
        mod = importlib.import_module(f"cminx_sa.rules.{prop.lower()}")
        mod.run(rep, repo, tier)
    except AnalysisError as e:
        error = str(e)
    except Exception as e:  # a crash of the analysis is not a violation
        error = f"internal error: {type(e).__name__}: {e} @ " + \
                traceback.format_exc().strip().splitlines()[-3].strip()
        if os.environ.get("CMINX_SA_DEBUG"):
            traceback.print_exc()
    return finish(rep, seed, error)


if __name__ == "__main__":
    sys.exit(main(sys.argv[1:]))

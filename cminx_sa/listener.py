"""E2 - effect summaries of the parse-tree listener over a finite predicate
abstraction.

For every command kind k and both event shapes

  DOC(k)   = enterDocumented_command ; enterBracket_doccomment ; enterCommand_invocation   (same command context)
  UNDOC(k) = enterCommand_invocation                                                   (context not consumed)

the callbacks are evaluated abstractly (absint) with the command name pinned
to the constant k.  Each resulting path carries the valuation of the atoms it
consulted (flags, awaiting slot, stack emptiness/top) and an ordered effect
list, which is condensed into a Row.  The rows are the "table" that the
protocol rules of C02/C03/C08/C09 compare with the behaviour the properties
prescribe, and the transition function of the abstract machine explored by
E2T (trace.py).
"""
from __future__ import annotations

import ast
from dataclasses import dataclass, field
from typing import Any, Dict, List, Optional, Tuple

from . import roles
from .absint import (Evaluator, Outcome, State, SELF, NONE, attr, const, glob, is_const, show, is_error_log,
                     all_effects, contains)
from .core import AnalysisError
from .model import Repo, func_params

AGG_MOD = "cminx.aggregator"
CTRL_KINDS = ["endfunction", "endmacro", "cpp_end_class", "cmake_parse_arguments"]
OTHER = "message"            # one arbitrary command without processor


@dataclass
class Row:
    event: str                 # DOC | UNDOC
    kind: str
    val: Dict[str, Any]        # atom valuation consulted on the path
    entries: List[str] = field(default_factory=list)         # classes appended to the entry list, in order
    defpush: List[Tuple[str, Any, str]] = field(default_factory=list)   # ('entry'|'placeholder', should_document, what)
    defpop: int = 0
    clspush: List[str] = field(default_factory=list)          # 'class' | 'None'
    clspop: int = 0
    awaiting: Optional[str] = None                            # None=unchanged | 'clear' | 'set:<Class>'
    attach: List[Tuple[str, str]] = field(default_factory=list)   # (field of top class, class of object)
    mark: List[str] = field(default_factory=list)             # 'top' / other address for has_kwargs := True
    claim: Dict[str, Any] = field(default_factory=dict)       # stores on the awaiting entry
    consumed_push: int = 0
    other: List[str] = field(default_factory=list)            # effects the condenser does not know
    crash: List[str] = field(default_factory=list)
    error: bool = False
    warned: bool = False
    outcome: Optional[Outcome] = None
    order: List[str] = field(default_factory=list)            # order of stack-relevant effects

    def cond(self) -> str:
        return ", ".join(f"{k}={v}" for k, v in sorted(self.val.items()))

    def summary(self) -> str:
        bits = []
        if self.entries:
            bits.append("entries+" + "+".join(self.entries))
        for kind, sd, what in self.defpush:
            bits.append(f"defpush({kind},should_document={sd})")
        if self.defpop:
            bits.append(f"defpop x{self.defpop}")
        for c in self.clspush:
            bits.append(f"clspush({c})")
        if self.clspop:
            bits.append(f"clspop x{self.clspop}")
        if self.awaiting:
            bits.append("awaiting:" + self.awaiting)
        for f_, c in self.attach:
            bits.append(f"attach({f_}<-{c})")
        for m in self.mark:
            bits.append(f"mark({m})")
        if self.claim:
            bits.append("claim(" + ",".join(sorted(self.claim)) + ")")
        for o in self.other:
            bits.append("other:" + o)
        for c in self.crash:
            bits.append("CRASH:" + c)
        if self.error:
            bits.append("error-path")
        return " ".join(bits) or "no effect"


class ListenerModel:
    def __init__(self, repo: Repo, upper: bool = False):
        self.repo = repo
        self.upper = upper
        self.cls = roles.aggregator_class(repo)
        self.roles = roles.listener_lists(repo, self.cls)
        ci = repo.cls(self.cls)
        self.methods = repo.all_methods(self.cls)
        self.process_kinds = sorted(n[len("process_"):] for n in self.methods if n.startswith("process_"))
        for cb in ("enterDocumented_command", "enterCommand_invocation", "enterBracket_doccomment", "enterDocumented_module"):
            if repo.find_method(self.cls, cb) is None or repo.find_method(self.cls, cb)[1] is None:
                raise AnalysisError(f"anchor vanished: {self.cls}.{cb}")
        self.entries = attr(SELF, self.roles["entries"])
        self.defstack = attr(SELF, self.roles["defstack"])
        self.clsstack = attr(SELF, self.roles["classstack"])
        self.consumed = attr(SELF, self.roles["consumed"])
        self.awaiting_attr = self.roles["awaiting"]
        self.awaiting = attr(SELF, self.awaiting_attr)
        self.flags = [f.name for f in repo.dataclass_fields("InputSettings") if f.name.startswith("include_undocumented_")]
        self._rows: Dict[Tuple[str, str], List[Row]] = {}

    # ------------------------------------------------------------------
    def kinds(self) -> List[str]:
        ks = [k for k in self.process_kinds if k not in ("generic_command",)]
        for k in CTRL_KINDS + [OTHER]:
            if k not in ks:
                ks.append(k)
        return ks

    def _evaluator(self, k: str) -> Evaluator:
        # the command as written: upper case in the case-sensitive model, so that a missing case fold is visible
        raw = k.upper() if self.upper else k

        def rewrite(t):
            # ctx.Identifier().getText()  ->  the command name as written
            if _is_ident_text(t):
                return const(raw)
            return None
        ev = Evaluator(self.repo, AGG_MOD, self.cls, rewrite=rewrite, opaque_methods=("clean_doc_lines",),
                       list_terms=(self.entries, self.defstack, self.clsstack, self.consumed))
        ev.fork_ifexp = True
        return ev

    def rows(self, event: str, k: str) -> List[Row]:
        key = (event, k)
        if key in self._rows:
            return self._rows[key]
        ev = self._evaluator(k)
        ci = self.repo.cls(self.cls)
        if event == "UNDOC":
            st = State()
            ctx = ("sym", "ctx")
            st.facts[("in", ctx, self.consumed)] = False
            fn0 = self.repo.find_method(self.cls, "enterCommand_invocation")[1]
            outs = ev.run_function(fn0, {"self": SELF, func_params(fn0)[1]: ctx}, st)
        elif event == "DOC":
            dctx = ("sym", "dctx")
            fn1 = self.repo.find_method(self.cls, "enterDocumented_command")[1]
            p1 = func_params(fn1)[1]
            outs1 = ev.run_function(fn1, {"self": SELF, p1: dctx})
            outs = []
            cmd_ctx = ("call", ("attr", dctx, "command_invocation"), (), ())
            doc_ctx = ("call", ("attr", dctx, "bracket_doccomment"), (), ())
            for o1 in outs1:
                if o1.exit and o1.exit[0] == "raise":
                    outs.append(o1)
                    continue
                fn2 = self.repo.find_method(self.cls, "enterBracket_doccomment")[1]
                p2 = func_params(fn2)[1]
                for o2 in ev.run_function(fn2, {"self": SELF, p2: doc_ctx}, o1.state):
                    if o2.exit and o2.exit[0] == "raise":
                        outs.append(o2)
                        continue
                    fn3 = self.repo.find_method(self.cls, "enterCommand_invocation")[1]
                    p3 = func_params(fn3)[1]
                    outs.extend(ev.run_function(fn3, {"self": SELF, p3: cmd_ctx}, o2.state))
        elif event == "DANGLING":
            fn2 = self.repo.find_method(self.cls, "enterBracket_doccomment")[1]
            st = State()
            ctx = ("sym", "ctx")
            st.facts[("in", ctx, self.consumed)] = False
            outs = ev.run_function(fn2, {"self": SELF, func_params(fn2)[1]: ctx}, st)
        elif event == "MODULE":
            fn2 = self.repo.find_method(self.cls, "enterDocumented_module")[1]
            outs = ev.run_function(fn2, {"self": SELF, func_params(fn2)[1]: ("sym", "ctx")})
        else:
            raise ValueError(event)
        rows = [self.condense(event, k, o) for o in outs]
        self._rows[key] = rows
        return rows

    # ------------------------------------------------------------------
    def valuation(self, o: Outcome, k: str) -> Dict[str, Any]:
        val: Dict[str, Any] = {}
        for a, v in o.conds:
            if a[0] == "truthy" and a[1][0] == "attr" and a[1][2].startswith("include_undocumented_"):
                val["inc:" + a[1][2][len("include_undocumented_"):]] = v
            elif a[0] == "isnone" and a[1] == self.awaiting:
                val["awaiting"] = not v
            elif a[0] == "isinstance" and a[1] == self.awaiting:
                val["awaiting_is:" + a[2]] = v
            elif a[0] == "nonempty" and a[1] == self.clsstack:
                val["cls_nonempty"] = v
            elif a[0] == "isnone" and a[1] == ("top", self.clsstack):
                val["cls_top_none"] = v
            elif a[0] == "nonempty" and a[1] == self.defstack:
                val["def_nonempty"] = v
            elif a[0] == "truthy" and a[1] == attr(("top", self.defstack), "should_document"):
                val["def_top_should"] = v
            elif a[0] == "isinstance" and a[1] == attr(("top", self.defstack), "documentation"):
                val["def_top_isdoc"] = v
            elif a[0] == "isnone" and a[1] == attr(("top", self.defstack), "documentation"):
                val["def_top_isdoc"] = not v
            elif a[0] == "in" and a[2] == self.consumed:
                val["consumed"] = v
            elif a[0] == "in" and a[2][0] == "attr" and a[2][1] == SELF and contains(a[1], ("sym", "ctx")):
                # 'already handled' decided by a key derived from the context (line number, text, ...), not by the context itself
                val["handled_by_key"] = f"{show(a[1])[:40]} in self.{a[2][2]}={v}"
            elif a[0] == "lencmp":
                val.setdefault("arity", []).append(f"{'' if v else 'not '}len({_short(a[1])}){a[2]}{a[3]}")
            elif a[0] == "nonempty":
                val.setdefault("arity", []).append(f"{'' if v else 'not '}nonempty({_short(a[1])})")
            elif a[0] == "exc":
                val["exc"] = a[1]
            elif a[0] == "loopexit":
                val["loopexit"] = True
            else:
                val.setdefault("other", []).append(("" if v else "not ") + show(a)[:60])
        if "arity" in val:
            val["arity"] = "&".join(val["arity"])
        if "other" in val:
            val["other"] = "&".join(val["other"])
        return val

    def condense(self, event: str, k: str, o: Outcome) -> Row:
        r = Row(event, k, self.valuation(o, k), outcome=o)
        st = o.state
        r.error = o.is_error_path()
        for e in o.effects:
            kind = e[0]
            if kind == "push":
                tgt, v = e[1], e[2]
                if tgt == self.entries:
                    r.entries.append(self._cls_of(v, st))
                    r.order.append("entry")
                elif tgt == self.defstack:
                    ob = st.obj(v)
                    if ob is not None and ob.get("cls") == "DefinitionCommand":
                        d = ob["fields"].get("documentation", NONE)
                        sd = ob["fields"].get("should_document", const(True))
                        is_entry = st.obj(d) is not None
                        r.defpush.append(("entry" if is_entry else "placeholder",
                                          sd[1] if is_const(sd) else show(sd),
                                          self._cls_of(d, st) if is_entry else show(d)))
                    else:
                        r.defpush.append(("unknown", show(v), ""))
                    r.order.append("defpush")
                elif tgt == self.clsstack:
                    r.clspush.append("None" if v == NONE else ("class" if self._cls_of(v, st) == "ClassDocumentation" else show(v)))
                    r.order.append("clspush")
                elif tgt == self.consumed:
                    r.consumed_push += 1
                elif tgt[0] == "attr" and tgt[1] == ("top", self.clsstack):
                    r.attach.append((tgt[2], self._cls_of(v, st)))
                    r.order.append("attach:" + tgt[2])
                elif tgt[0] == "attr" and _addresses(tgt[1], self.clsstack):
                    r.attach.append((show(tgt[1]).replace(show(self.clsstack), "clsstack") + "." + tgt[2], self._cls_of(v, st)))
                else:
                    o_ = st.obj(tgt)
                    if o_ is not None and o_.get("kind") == "list":
                        continue            # building a local list
                    r.other.append(f"push {show(tgt)[:50]}")
            elif kind == "pop":
                if e[1] == self.defstack:
                    r.defpop += 1
                    r.order.append("defpop")
                elif e[1] == self.clsstack:
                    r.clspop += 1
                    r.order.append("clspop")
                else:
                    r.other.append(f"pop {show(e[1])[:50]}")
            elif kind in ("insert", "remove", "popidx", "delidx", "delslice", "mutcall", "storeidx", "storeslice"):
                tgt = e[1]
                o_ = st.obj(tgt)
                if o_ is not None and o_.get("kind") == "list":
                    continue
                r.other.append(f"{kind} {show(tgt)[:40]}")
            elif kind == "extend":
                tgt = e[1]
                if tgt == attr(self.awaiting, "params"):
                    r.claim["params"] = e[2]
                else:
                    o_ = st.obj(tgt)
                    if o_ is not None and o_.get("kind") == "list":
                        continue
                    r.other.append(f"extend {show(tgt)[:50]}")
            elif kind == "store":
                base, fld, v = e[1], e[2], e[3]
                if base == SELF and fld == self.awaiting_attr:
                    r.awaiting = "clear" if v == NONE else "set:" + self._cls_of(v, st)
                elif base == self.awaiting:
                    r.claim[fld] = v
                elif fld == "has_kwargs":
                    if base == attr(("top", self.defstack), "documentation"):
                        r.mark.append("top")
                    else:
                        r.mark.append(show(base).replace(show(self.defstack), "defstack"))
                elif base == SELF:
                    r.other.append(f"store self.{fld}")
                elif st.obj(base) is not None:
                    continue                 # field of an object created on this path
                else:
                    r.other.append(f"store {show(base)[:40]}.{fld}")
            elif kind == "crash":
                r.crash.append(f"{e[1]}({e[2]})")
            elif kind == "call":
                t = e[1]
                if t[0] == "call" and t[1][0] == "attr" and t[1][2] in ("warning", "warn"):
                    r.warned = True
        return r

    def _cls_of(self, v, st: State) -> str:
        ob = st.obj(v)
        if ob is not None and ob.get("kind") == "new":
            return ob["cls"]
        return show(v)[:40]


def _is_ident_text(t) -> bool:
    return t[0] == "call" and t[1][0] == "attr" and t[1][2] == "getText" and not t[2] and \
        t[1][1][0] == "call" and t[1][1][1][0] == "attr" and t[1][1][1][2] == "Identifier"


def _addresses(t, stack) -> bool:
    return (t[0] in ("sub",) and t[1] == stack) or (t[0] in ("top", "below") and t[1] == stack)


def _short(t) -> str:
    s = show(t)
    return s.replace("ctx.single_argument()", "args").replace("<listcomp param.getText() for param in args>", "texts(args)")[:40]


_models: Dict[Tuple[str, bool], ListenerModel] = {}


def model(repo: Repo, upper: bool = False) -> ListenerModel:
    """upper=True: command names are modelled as written in upper case (C02/C05: letter case must not matter);
    upper=False: already lower case (all other properties, which do not range over letter case)."""
    if (repo.root, upper) not in _models:
        _models[(repo.root, upper)] = ListenerModel(repo, upper)
    return _models[(repo.root, upper)]

"""E1 - program model: parsed modules, classes (with dataclass field order),
function lookup, parent links, structural guard / path helpers.

Nothing of CMinx is imported or executed; everything comes from ``ast``.
"""
from __future__ import annotations

import ast
import os
from dataclasses import dataclass, field
from typing import Set, Dict, Iterator, List, Optional, Tuple

from .core import AnalysisError

PY_MODULES = {
    "cminx": "src/cminx/__init__.py",
    "cminx.aggregator": "src/cminx/aggregator.py",
    "cminx.documenter": "src/cminx/documenter.py",
    "cminx.documentation_types": "src/cminx/documentation_types.py",
    "cminx.rstwriter": "src/cminx/rstwriter.py",
    "cminx.config": "src/cminx/config.py",
    "cminx.exceptions": "src/cminx/exceptions.py",
    "cminx.parser": "src/cminx/parser/__init__.py",
    "cminx.parser.CMakeLexer": "src/cminx/parser/CMakeLexer.py",
    "cminx.parser.CMakeParser": "src/cminx/parser/CMakeParser.py",
    "cminx.parser.CMakeListener": "src/cminx/parser/CMakeListener.py",
    "main": "src/main.py",
}
# modules whose private helpers are expanded in place before the structural rules read them (inline.py)
FLATTEN = {"cminx", "cminx.documenter", "cminx.config", "cminx.parser"}
# modules whose public methods are API: only underscore-named helpers are inlined there
FLATTEN_UNDERSCORE = {"cminx.rstwriter", "cminx.documentation_types"}
# the hand-written part of the package (generated parser files excluded)
HAND_WRITTEN = ["cminx", "cminx.aggregator", "cminx.documenter", "cminx.documentation_types",
                "cminx.rstwriter", "cminx.config", "cminx.exceptions", "cminx.parser"]


def norm(node: ast.AST) -> str:
    """Normalised source text of a node (position independent)."""
    try:
        return ast.unparse(node)
    except Exception:  # pragma: no cover
        return ast.dump(node)


@dataclass
class FieldInfo:
    name: str
    annotation: str
    default: Optional[ast.expr]
    owner: str


@dataclass
class ClassInfo:
    name: str
    module: str
    node: ast.ClassDef
    bases: List[str]
    methods: Dict[str, ast.FunctionDef] = field(default_factory=dict)
    is_dataclass: bool = False
    is_namedtuple: bool = False
    own_fields: List[FieldInfo] = field(default_factory=list)
    class_attrs: Dict[str, ast.expr] = field(default_factory=dict)


@dataclass
class Module:
    name: str
    path: str
    relpath: str
    source: str
    tree: ast.Module
    parents: Dict[ast.AST, ast.AST] = field(default_factory=dict)
    orig_tree: Optional[ast.Module] = None
    inlined_helpers: List[str] = field(default_factory=list)

    def parent(self, node):
        return self.parents.get(node)


class Repo:
    def __init__(self, root: str):
        self.root = root
        self.modules: Dict[str, Module] = {}
        self.classes: Dict[str, ClassInfo] = {}
        for name, rel in PY_MODULES.items():
            p = os.path.join(root, rel)
            if not os.path.exists(p):
                raise AnalysisError(f"anchor vanished: {rel} does not exist")
            src = open(p, encoding="utf-8").read()
            try:
                tree = ast.parse(src, filename=rel)
            except SyntaxError as e:
                raise AnalysisError(f"{rel} does not parse: {e}")
            inlined = []
            orig = tree
            if name in HAND_WRITTEN and not os.environ.get("CMINX_SA_NO_FLATTEN"):
                from .inline import desugar_dataclasses, expand_compiled_regexes, expand_decorators, expand_format_calls
                try:
                    tree = expand_compiled_regexes(tree)
                    tree = expand_format_calls(tree)
                    from .inline import expand_functional_idioms, hoist_walrus
                    tree = expand_functional_idioms(tree)
                    tree = hoist_walrus(tree)
                    tree, decs = expand_decorators(tree)
                    tree, dcs = desugar_dataclasses(tree)
                    from .inline import expand_contextmanagers
                    tree, cms = expand_contextmanagers(tree)
                except RecursionError:
                    decs, dcs, cms = [], [], []
                inlined = list(decs) + [f"@dataclass {c}" for c in dcs] + [f"@contextmanager {c}" for c in cms]
            if (name in FLATTEN or name in FLATTEN_UNDERSCORE) and not os.environ.get("CMINX_SA_NO_FLATTEN"):
                from .inline import flatten_module
                try:
                    tree, inl2 = flatten_module(tree, underscore_only=name in FLATTEN_UNDERSCORE,
                                                imported=self._imported_private_functions(name, tree, root))
                    inlined = inlined + inl2
                except RecursionError:
                    tree, inlined = orig, []
            m = Module(name, p, rel, src, tree)
            m.orig_tree = orig
            m.inlined_helpers = inlined
            for parent in ast.walk(tree):
                for child in ast.iter_child_nodes(parent):
                    m.parents[child] = parent
            self.modules[name] = m
            for node in tree.body:
                if isinstance(node, ast.ClassDef):
                    self._add_class(m, node)
                    # nested classes (generated parser contexts) are indexed with dotted names
                    for sub in node.body:
                        if isinstance(sub, ast.ClassDef):
                            self._add_class(m, sub, prefix=node.name + ".")

    # ------------------------------------------------------------------
    def _add_class(self, m: Module, node: ast.ClassDef, prefix: str = "") -> None:
        bases = []
        for b in node.bases:
            bases.append(norm(b).split(".")[-1])
        ci = ClassInfo(prefix + node.name, m.name, node, bases)
        for d in node.decorator_list:
            t = norm(d)
            if t.split("(")[0].split(".")[-1] == "dataclass":
                ci.is_dataclass = True
        if "NamedTuple" in bases:
            ci.is_dataclass = True       # positional record with declared field order
            ci.is_namedtuple = True
        for st in node.body:
            if isinstance(st, (ast.FunctionDef, ast.AsyncFunctionDef)):
                ci.methods[st.name] = st
            elif isinstance(st, ast.AnnAssign) and isinstance(st.target, ast.Name):
                ci.own_fields.append(FieldInfo(st.target.id, norm(st.annotation), st.value, ci.name))
                if st.value is not None:
                    ci.class_attrs[st.target.id] = st.value
            elif isinstance(st, ast.Assign):
                for t in st.targets:
                    if isinstance(t, ast.Name):
                        ci.class_attrs[t.id] = st.value
        # first definition wins for top-level names; dotted names are unique
        self.classes.setdefault(ci.name, ci)

    @staticmethod
    def _imported_private_functions(name: str, tree: ast.Module, root: str) -> Dict[str, ast.FunctionDef]:
        """`from .sibling import _helper`: underscore-named functions imported from another hand-written module of the
        package are helpers like local ones (their definition is read from the sibling's source)."""
        out: Dict[str, ast.FunctionDef] = {}
        pkg = name.split(".")
        for st in tree.body:
            if not isinstance(st, ast.ImportFrom):
                continue
            if st.level:
                package = pkg if PY_MODULES.get(name, "").endswith("__init__.py") else pkg[:-1]
                base = package[:len(package) - (st.level - 1)]
                target = ".".join(base + ([st.module] if st.module else []))
            else:
                target = st.module or ""
            rel = PY_MODULES.get(target)
            if rel is None or target not in HAND_WRITTEN:
                continue
            wanted = [a.name for a in st.names if a.name.startswith("_") and not a.name.startswith("__") and a.asname is None]
            if not wanted:
                continue
            try:
                other = ast.parse(open(os.path.join(root, rel), encoding="utf-8").read())
            except (OSError, SyntaxError):
                continue
            for n in other.body:
                if isinstance(n, ast.FunctionDef) and n.name in wanted:
                    out[n.name] = n
        return out

    # ------------------------------------------------------------------
    def module(self, name: str) -> Module:
        if name not in self.modules:
            raise AnalysisError(f"module {name} not loaded")
        return self.modules[name]

    def cls(self, name: str) -> ClassInfo:
        if name not in self.classes:
            raise AnalysisError(f"anchor vanished: class {name} not found")
        return self.classes[name]

    def has_class(self, name: str) -> bool:
        return name in self.classes

    def mro(self, name: str) -> List[ClassInfo]:
        """Linearised ancestors (repo-defined classes only), C3 not needed: the
        hierarchy is a tree plus ABC/Enum/object."""
        out, todo, seen = [], [name], set()
        while todo:
            n = todo.pop(0)
            if n in seen or n not in self.classes:
                continue
            seen.add(n)
            ci = self.classes[n]
            out.append(ci)
            todo.extend(ci.bases)
        return out

    def is_subclass(self, name: str, base: str) -> bool:
        if name == base:
            return True
        return any(c.name == base for c in self.mro(name)) or base in self._external_bases(name)

    def _external_bases(self, name: str) -> List[str]:
        out = []
        for c in self.mro(name):
            for b in c.bases:
                if b not in self.classes:
                    out.append(b)
        return out

    def external_bases(self, name: str) -> List[str]:
        return self._external_bases(name)

    def find_method(self, cls: str, meth: str) -> Optional[Tuple[ClassInfo, ast.FunctionDef]]:
        for c in self.mro(cls):
            if meth in c.methods:
                return c, c.methods[meth]
        return None

    def all_methods(self, cls: str) -> Dict[str, Tuple[ClassInfo, ast.FunctionDef]]:
        out: Dict[str, Tuple[ClassInfo, ast.FunctionDef]] = {}
        for c in reversed(self.mro(cls)):
            for n, f in c.methods.items():
                out[n] = (c, f)
        return out

    def dataclass_fields(self, cls: str) -> List[FieldInfo]:
        """Fields in constructor order (base class fields first, re-declared
        fields keep their original position), as dataclasses computes them."""
        order: List[FieldInfo] = []
        for c in reversed(self.mro(cls)):
            if not c.is_dataclass:
                continue
            for f in c.own_fields:
                if "ClassVar" in f.annotation:
                    continue
                for i, o in enumerate(order):
                    if o.name == f.name:
                        order[i] = f
                        break
                else:
                    order.append(f)
        return order

    def subclasses(self, base: str) -> List[ClassInfo]:
        return [c for c in self.classes.values() if c.name != base and self.is_subclass(c.name, base)]

    def func(self, module: str, qual: str) -> ast.FunctionDef:
        m = self.module(module)
        parts = qual.split(".")
        body = m.tree.body
        node = None
        for p in parts:
            node = None
            for st in body:
                if isinstance(st, (ast.FunctionDef, ast.ClassDef, ast.AsyncFunctionDef)) and st.name == p:
                    node = st
                    break
            if node is None:
                raise AnalysisError(f"anchor vanished: {module}:{qual} not found")
            body = node.body
        if not isinstance(node, (ast.FunctionDef, ast.AsyncFunctionDef)):
            raise AnalysisError(f"anchor {module}:{qual} is not a function")
        return node

    def has_func(self, module: str, qual: str) -> bool:
        try:
            self.func(module, qual)
            return True
        except AnalysisError:
            return False

    def functions(self, module: str) -> Iterator[Tuple[str, ast.FunctionDef]]:
        """All functions of a module with their qualified names."""
        m = self.module(module)

        def rec(body, prefix):
            for st in body:
                if isinstance(st, (ast.FunctionDef, ast.AsyncFunctionDef)):
                    yield prefix + st.name, st
                    yield from rec(st.body, prefix + st.name + ".")
                elif isinstance(st, ast.ClassDef):
                    yield from rec(st.body, prefix + st.name + ".")
        yield from rec(m.tree.body, "")

    def read(self, rel: str) -> str:
        p = os.path.join(self.root, rel)
        if not os.path.exists(p):
            raise AnalysisError(f"anchor vanished: {rel} does not exist")
        return open(p, encoding="utf-8").read()


# ----------------------------------------------------------------------
# structural helpers

def func_params(fn: ast.FunctionDef) -> List[str]:
    a = fn.args
    return [x.arg for x in a.posonlyargs + a.args] + ([a.vararg.arg] if a.vararg else []) + \
           [x.arg for x in a.kwonlyargs] + ([a.kwarg.arg] if a.kwarg else [])


def param_defaults(fn: ast.FunctionDef) -> Dict[str, ast.expr]:
    a = fn.args
    pos = a.posonlyargs + a.args
    out = {}
    for arg, d in zip(pos[len(pos) - len(a.defaults):], a.defaults):
        out[arg.arg] = d
    for arg, d in zip(a.kwonlyargs, a.kw_defaults):
        if d is not None:
            out[arg.arg] = d
    return out


def walk_no_nested(node: ast.AST) -> Iterator[ast.AST]:
    """ast.walk that does not descend into nested function/class definitions
    or lambdas (their bodies do not execute with the enclosing statement)."""
    todo = list(ast.iter_child_nodes(node))
    while todo:
        n = todo.pop(0)
        yield n
        if isinstance(n, (ast.FunctionDef, ast.AsyncFunctionDef, ast.ClassDef, ast.Lambda)):
            continue
        todo[0:0] = list(ast.iter_child_nodes(n))


def stmts_in(fn: ast.AST) -> Iterator[ast.stmt]:
    for n in walk_no_nested(fn):
        if isinstance(n, ast.stmt):
            yield n


def calls_in(node: ast.AST) -> Iterator[ast.Call]:
    if isinstance(node, ast.Call):
        yield node
    for n in walk_no_nested(node):
        if isinstance(n, ast.Call):
            yield n


def call_name(call: ast.Call) -> str:
    """Dotted text of the callee ('os.path.join', 'self.logger.error', 'open')."""
    return norm(call.func)


def is_exit_call(node: ast.AST) -> Optional[ast.Call]:
    """exit(...)/sys.exit(...)/os._exit(...)/quit(...) statement -> the call."""
    if isinstance(node, ast.Expr) and isinstance(node.value, ast.Call):
        if call_name(node.value) in ("exit", "sys.exit", "os._exit", "quit", "os.abort"):
            return node.value
    return None


def terminates(stmts: List[ast.stmt]) -> bool:
    """True if no path falls out of the end of the statement list (every path
    ends in return/raise/continue/break/exit())."""
    for st in stmts:
        if isinstance(st, (ast.Return, ast.Raise, ast.Continue, ast.Break)):
            return True
        if is_exit_call(st):
            return True
        if isinstance(st, ast.If):
            if st.orelse and terminates(st.body) and terminates(st.orelse):
                return True
        if isinstance(st, ast.Try):
            body_t = terminates(st.body) or (st.orelse and terminates(st.orelse))
            if st.finalbody and terminates(st.finalbody):
                return True
            if body_t and all(terminates(h.body) for h in st.handlers):
                return True
        if isinstance(st, ast.With):
            if terminates(st.body):
                return True
    return False


def all_paths_raise(stmts: List[ast.stmt]) -> bool:
    """Every path through the statement list ends in ``raise`` (a return,
    falling off the end, break/continue count as not raising)."""
    for st in stmts:
        if isinstance(st, ast.Raise):
            return True
        if isinstance(st, (ast.Return, ast.Continue, ast.Break)):
            return False
        if isinstance(st, ast.If):
            if st.orelse and all_paths_raise(st.body) and all_paths_raise(st.orelse):
                return True
            # a branch that returns makes the whole thing non-raising
            if _may_return(st.body) or _may_return(st.orelse):
                return False
        elif isinstance(st, ast.Try):
            if st.finalbody and all_paths_raise(st.finalbody):
                return True
            if _may_return(st.body) or any(_may_return(h.body) for h in st.handlers) or _may_return(st.orelse):
                return False
            if all_paths_raise(st.body + st.orelse) and all(all_paths_raise(h.body) for h in st.handlers):
                return True
        elif isinstance(st, ast.With):
            if all_paths_raise(st.body):
                return True
            if _may_return(st.body):
                return False
        elif isinstance(st, (ast.For, ast.While)):
            if _may_return(st.body) or _may_return(st.orelse):
                return False
    return False


def _may_return(stmts: List[ast.stmt]) -> bool:
    for st in stmts:
        for n in [st] + list(walk_no_nested(st)):
            if isinstance(n, ast.Return):
                return True
    return False


@dataclass
class Guard:
    test: ast.expr
    polarity: bool   # the test evaluated to this value when the statement runs
    kind: str        # 'enclosing' | 'early-exit'


def guards_of(fn: ast.FunctionDef, target: ast.AST, parents: Dict[ast.AST, ast.AST]) -> List[Guard]:
    """Conditions known to hold whenever `target` executes, derived
    structurally: tests of enclosing ``if``/``while`` statements (with
    polarity), and tests of preceding ``if`` statements in enclosing blocks
    whose taken branch cannot fall through (early return / raise / continue).
    Sound for structured code without goto; loops: an early-exit guard inside
    a loop body only protects later statements of the same iteration, which is
    what "preceding in the same block" gives."""
    out: List[Guard] = []
    node = target
    while node is not fn and node in parents:
        par = parents[node]
        # which block of the parent holds node?
        for fname in ("body", "orelse", "finalbody"):
            block = getattr(par, fname, None)
            if isinstance(block, list) and node in block:
                idx = block.index(node)
                if isinstance(par, ast.If):
                    out.append(Guard(par.test, fname == "body", "enclosing"))
                elif isinstance(par, ast.While) and fname == "body":
                    out.append(Guard(par.test, True, "enclosing"))
                for prev in block[:idx]:
                    if isinstance(prev, ast.If):
                        if terminates(prev.body) and not (prev.orelse and terminates(prev.orelse)):
                            out.append(Guard(prev.test, False, "early-exit"))
                        elif prev.orelse and terminates(prev.orelse) and not terminates(prev.body):
                            out.append(Guard(prev.test, True, "early-exit"))
                break
        else:
            if isinstance(par, ast.ExceptHandler) or isinstance(par, ast.Try):
                pass
        if isinstance(par, ast.IfExp):
            if node is par.body:
                out.append(Guard(par.test, True, "enclosing"))
            elif node is par.orelse:
                out.append(Guard(par.test, False, "enclosing"))
        node = par
    return out


def guard_atoms(guards: List[Guard]) -> Set[Tuple[str, bool]]:
    """Atomic facts (normalised test text, truth value) that follow from a list of guards: negations are unfolded, a true
    conjunction gives its conjuncts, a false disjunction its disjuncts."""
    out: Set[Tuple[str, bool]] = set()

    def add(t: ast.expr, pol: bool):
        while isinstance(t, ast.UnaryOp) and isinstance(t.op, ast.Not):
            t, pol = t.operand, not pol
        if isinstance(t, ast.BoolOp):
            if isinstance(t.op, ast.And) and pol:
                for v in t.values:
                    add(v, True)
                return
            if isinstance(t.op, ast.Or) and not pol:
                for v in t.values:
                    add(v, False)
                return
        out.add((norm(t), pol))
    for g in guards:
        add(g.test, g.polarity)
    return out


def enclosing_stmt(node: ast.AST, parents: Dict[ast.AST, ast.AST]) -> ast.stmt:
    while not isinstance(node, ast.stmt):
        node = parents[node]
    return node


def enclosing_function(node: ast.AST, parents: Dict[ast.AST, ast.AST]) -> Optional[ast.FunctionDef]:
    while node in parents:
        node = parents[node]
        if isinstance(node, (ast.FunctionDef, ast.AsyncFunctionDef)):
            return node
    return None


def enclosing_loops(node: ast.AST, parents: Dict[ast.AST, ast.AST], stop: ast.AST) -> List[ast.AST]:
    out = []
    while node in parents and node is not stop:
        par = parents[node]
        if isinstance(par, (ast.For, ast.While)) and node in par.body:
            out.append(par)
        node = par
    return out


def qualname_of(fn: ast.AST, parents: Dict[ast.AST, ast.AST]) -> str:
    names = [fn.name]
    node = fn
    while node in parents:
        node = parents[node]
        if isinstance(node, (ast.FunctionDef, ast.ClassDef, ast.AsyncFunctionDef)):
            names.append(node.name)
    return ".".join(reversed(names))

"""Normal forms for binding terms (E3).

`nf(term)` rewrites evaluator terms over a command context into a small
specification language, so that equivalent formulations compare equal:

  ('args',)                 ctx.single_argument()
  ('cargs',)                ctx.compound_argument()
  ('text', X)               X.getText()
  ('map', F, XS)            [F(it) for it in XS]        (F is a term over ('it',))
  ('index', XS, i) / ('slice', XS, lo, hi)
  ('doc',)                  the cleaned doccomment text
  ('setting', 'input.x')    self.settings.input.x
  ('resub', P, R, X)        re.sub(P, R, X)
  ('join', SEP, XS)
  ('len', XS), ('const', v), ('concat', A, B)

Laws applied: slice/index commute with map; map fusion; list(x)=x;
texts(args)[i] = text(args[i]).
"""
from __future__ import annotations

from typing import Any, Optional

from .absint import NONE, SELF, const, glob, is_const, show

IT = ("it",)


def subst(t, var, repl):
    if t == var:
        return repl
    if isinstance(t, tuple):
        return tuple(subst(x, var, repl) if isinstance(x, tuple) else x for x in t)
    return t


class NF:
    def __init__(self, ctx_term, doc_term=None, state=None):
        self.ctx = ctx_term
        self.doc = doc_term
        self.state = state

    def nf(self, t) -> Any:
        if not isinstance(t, tuple) or not t:
            return t
        if self.doc is not None and t == self.doc:
            return ("doc",)
        k = t[0]
        if k == "const":
            return t
        if k == "ref" and self.state is not None:
            o = self.state.obj(t)
            if o is not None and o.get("kind") == "list":
                return ("list",) + tuple(self.nf(x) for x in o["items"])
            return t
        if k == "call":
            fn, args, kws = t[1], t[2], t[3]
            if fn[0] == "attr":
                recv, name = fn[1], fn[2]
                if recv == self.ctx and name == "single_argument" and not args:
                    return ("args",)
                if recv == self.ctx and name == "compound_argument" and not args:
                    return ("cargs",)
                if recv == self.ctx and name == "single_argument" and len(args) == 1:
                    return self._index(("args",), self.nf(args[0]))
                if name == "getText" and not args:
                    return self._text(self.nf(recv))
                if name == "join" and len(args) == 1:
                    return ("join", self.nf(recv), self.nf(args[0]))
                if name == "clean_doc_lines":
                    return ("doc",)
                return ("call", ("attr", self.nf(recv), name), tuple(self.nf(a) for a in args),
                        tuple((n, self.nf(v)) for n, v in kws))
            if fn[0] == "global":
                g = fn[1]
                if g.endswith("clean_doc_lines"):
                    return ("doc",)
                if g == "re.sub" and len(args) >= 3:
                    return ("resub", self.nf(args[0]), self.nf(args[1]), self.nf(args[2])) + \
                        (tuple(self.nf(a) for a in args[3:]) + tuple((n, self.nf(v)) for n, v in kws) if len(args) > 3 or kws else ())
                if g in ("list", "tuple") and len(args) == 1:
                    return self.nf(args[0])
                if g == "len" and len(args) == 1:
                    return ("len", self.nf(args[0]))
                if g == "str" and len(args) == 1:
                    return ("str", self.nf(args[0]))
            return ("call", self.nf(fn), tuple(self.nf(a) for a in args), tuple((n, self.nf(v)) for n, v in kws))
        if k == "comp":
            kind, elt, gens = t[1], t[2], t[3]
            if len(gens) == 1 and isinstance(gens[0][0], str) and gens[0][0].isidentifier():
                var, it, conds = gens[0]
                if it[0] == "call" and it[1] in (("global", "itertools.chain"), ("global", "chain")) and len(it[2]) >= 2 and not it[3] \
                        and not conds:
                    # [f(x) for x in chain(A, B)] is [f(x) for x in A + B]
                    xs = self.nf(it[2][0])
                    for a in it[2][1:]:
                        xs = ("concat", xs, self.nf(a))
                    return self._map(self.nf(subst(elt, ("bv", var), IT)), xs)
                xs = self.nf(it)
                f = self.nf(subst(elt, ("bv", var), IT))
                if conds:
                    cs = tuple(self.nf(subst(c, ("bv", var), IT)) for c in conds)
                    return ("filter-map", f, xs, cs)
                return self._map(f, xs)
            return ("comp", kind, self.nf(elt), tuple((v, self.nf(i), tuple(self.nf(c) for c in cs)) for v, i, cs in gens))
        if k == "sub":
            return self._index(self.nf(t[1]), self.nf(t[2]))
        if k == "slice":
            return self._slice(self.nf(t[1]), self.nf(t[2]), self.nf(t[3]), self.nf(t[4]))
        if k == "attr":
            path = self._setting_path(t)
            if path is not None:
                return ("setting", path)
            return ("attr", self.nf(t[1]), t[2])
        if k == "binop" and t[1] == "+":
            return ("concat", self.nf(t[2]), self.nf(t[3]))
        if k in ("binop", "cmp"):
            return (k, t[1], self.nf(t[2]), self.nf(t[3]))
        if k in ("and", "or", "list", "tuple", "fstr", "set"):
            return (k,) + tuple(self.nf(x) for x in t[1:])
        if k == "not":
            return ("not", self.nf(t[1]))
        if k == "ifexp":
            return ("ifexp", self.nf(t[1]), self.nf(t[2]), self.nf(t[3]))
        if k == "loopitem":
            return ("loopitem", t[1], self.nf(t[2]))
        return t

    # ------------------------------------------------------------------
    def _setting_path(self, t) -> Optional[str]:
        parts = []
        while t[0] == "attr":
            parts.append(t[2])
            t = t[1]
        parts.reverse()
        if t == SELF and parts and parts[0] == "settings":
            return ".".join(parts[1:])
        if t == ("sym", "settings"):
            return ".".join(parts)
        return None

    def _text(self, x):
        return ("text", x)

    def _map(self, f, xs):
        if f == IT:
            return xs
        if xs[0] == "map":
            return self._map(subst(f, IT, xs[1]), xs[2])
        return ("map", f, xs)

    def _index(self, xs, i):
        if xs[0] == "map":
            return subst(xs[1], IT, self._index(xs[2], i))
        # xs[a:][i] == xs[a+i]  for i >= 0
        if xs[0] == "slice" and xs[3] == NONE and is_const(xs[2]) and is_const(i) and isinstance(i[1], int) and i[1] >= 0 \
                and isinstance(xs[2][1], int) and xs[2][1] >= 0:
            return self._index(xs[1], const(xs[2][1] + i[1]))
        if xs[0] == "list" and is_const(i) and isinstance(i[1], int) and -len(xs) + 1 <= i[1] < len(xs) - 1:
            return xs[1 + i[1]] if i[1] >= 0 else xs[len(xs) + i[1]]
        # xs[:n][k] == xs[k]  for 0 <= k < n
        if xs[0] == "slice" and xs[2] in (NONE, const(0)) and is_const(xs[3]) and isinstance(xs[3][1], int) and is_const(i) \
                and isinstance(i[1], int) and 0 <= i[1] < xs[3][1]:
            return self._index(xs[1], i)
        # (X + [a, b])[k]: decided by what the path knows about len(X); the padding idiom (X + [None])[k] with an open
        # question reads as  X[k] if len(X) > k else None
        if xs[0] == "concat" and xs[2][0] == "list" and is_const(i) and isinstance(i[1], int) and i[1] >= 0:
            k = i[1]
            lo, hi = self._len_bounds(xs[1])
            if k < lo:
                return self._index(xs[1], i)
            if hi is not None and lo == hi and k - hi < len(xs[2]) - 1:
                return xs[2][1 + k - hi]
            if hi is not None and hi == k + 1 and lo == k and len(xs[2]) == 2:
                return ("ifexp", ("cmp", ">", ("len", xs[1]), const(k)), self._index(xs[1], i), xs[2][1])
        return ("index", xs, i)

    def _len_bounds(self, xs):
        """(lo, hi) of len(xs) as far as the path state knows it"""
        st = getattr(self, "state", None)
        if st is None:
            return 0, None
        base = xs[2] if xs[0] == "map" else xs
        lo, hi = 0, None
        for key, iv in getattr(st, "len_iv", {}).items():
            try:
                n = self.nf(key)
            except RecursionError:
                continue
            nb = n[2] if n[0] == "map" else n
            if nb == base:
                lo = max(lo, iv[0])
                hi = iv[1] if hi is None else (hi if iv[1] is None else min(hi, iv[1]))
        return lo, hi

    def _slice(self, xs, lo, hi, step):
        if step != NONE:
            return ("slice3", xs, lo, hi, step)
        if xs[0] == "map":
            return self._map(xs[1], self._slice(xs[2], lo, hi, step))
        if lo in (NONE, const(0)) and hi == NONE:
            return xs
        # xs[a:][b:] == xs[a+b:]
        if xs[0] == "slice" and xs[3] == NONE and hi == NONE and is_const(xs[2]) and is_const(lo) \
                and isinstance(xs[2][1], int) and isinstance(lo[1], int) and xs[2][1] >= 0 and lo[1] >= 0:
            return ("slice", xs[1], const(xs[2][1] + lo[1]), NONE)
        return ("slice", xs, const(0) if lo == NONE else lo, hi)


def pretty(t) -> str:
    if not isinstance(t, tuple) or not t:
        return repr(t)
    k = t[0]
    if k == "args":
        return "args"
    if k == "cargs":
        return "compound_args"
    if k == "it":
        return "it"
    if k == "doc":
        return "DOC"
    if k == "text":
        return f"text({pretty(t[1])})"
    if k == "map":
        return f"[{pretty(t[1])} for it in {pretty(t[2])}]"
    if k == "filter-map":
        return f"[{pretty(t[1])} for it in {pretty(t[2])} if {' and '.join(pretty(c) for c in t[3])}]"
    if k == "index":
        return f"{pretty(t[1])}[{pretty(t[2])}]"
    if k == "slice":
        return f"{pretty(t[1])}[{pretty(t[2])}:{'' if t[3] == NONE else pretty(t[3])}]"
    if k == "setting":
        return f"setting:{t[1]}"
    if k == "resub":
        return "resub(" + ", ".join(pretty(x) for x in t[1:]) + ")"
    if k == "join":
        return f"{pretty(t[1])}.join({pretty(t[2])})"
    if k == "len":
        return f"len({pretty(t[1])})"
    if k == "concat":
        return f"({pretty(t[1])} + {pretty(t[2])})"
    if k == "const":
        return repr(t[1])
    if k == "ifexp":
        return f"({pretty(t[2])} if {pretty(t[1])} else {pretty(t[3])})"
    if k == "cmp":
        return f"({pretty(t[2])} {t[1]} {pretty(t[3])})"
    if k == "binop":
        return f"({pretty(t[2])} {t[1]} {pretty(t[3])})"
    if k == "list":
        return "[" + ", ".join(pretty(x) for x in t[1:]) + "]"
    if k == "loopitem":
        return f"loopitem#{t[1]}({pretty(t[2])})"
    if k == "call":
        return f"{pretty(t[1])}(" + ", ".join(pretty(a) for a in t[2]) + ")"
    if k == "attr":
        return f"{pretty(t[1])}.{t[2]}"
    try:
        return show(t)
    except Exception:
        return repr(t)

"""E5 - filesystem flow in cminx/__init__.py.

A forward label-propagation dataflow over one function (structured code, so a
syntax-directed walk with joins at if/loop heads is a fixpoint computation on
the CFG).  Labels:

  ABS    value depends on an absolute location (abspath, cwd, the walk root,
         the input path as given)
  OUT    value is / is rooted at the output directory
  ORDER  sequence whose order is the operating system's listing order
  ENV    time, randomness, ids, hashes, environment, set iteration order

Sanitizers: relpath(a, b) of two ABS values, basename, sorted (ORDER).
The engine records, for every call and every attribute store it passes, the
labels of the arguments / stored value and the ORDER context (labels of the
iterables of the enclosing loops), which is what the C12-C18 rules query.
"""
from __future__ import annotations

import ast
from typing import Callable, Dict, FrozenSet, List, Optional, Set, Tuple

from .model import call_name, norm

ABS, OUT, ORDER, ENV, RES = "ABS", "OUT", "ORDER", "ENV", "RES"
L = frozenset
EMPTY: FrozenSet[str] = frozenset()

ENV_CALLS = ("time.", "random.", "uuid.", "datetime.", "os.getpid", "os.urandom", "secrets.", "os.times",
             "socket.gethostname", "platform.", "getpass.", "tempfile.")
ENV_NAMES = {"id", "hash", "os.environ", "os.getenv", "os.environ.get", "sys.argv", "time", "object"}
LISTING = {"os.listdir", "os.scandir", "glob.glob", "glob.iglob", "os.walk", "pathlib.Path.iterdir",
           "os.path.expanduser"}
ABS_CALLS = {"os.path.abspath", "os.getcwd", "os.path.realpath", "os.path.expanduser", "os.getcwdb",
             "pathlib.Path.cwd", "Path.cwd", "os.path.expandvars"}
CLEAN_CALLS = {"os.path.basename", "len", "bool", "int", "isinstance", "os.path.isdir", "os.path.isfile",
               "os.path.exists", "os.path.islink", "os.path.isabs"}


class CallRecord:
    def __init__(self, node: ast.Call, name: str, args, kwargs, order_ctx, loops, env):
        self.node = node
        self.name = name
        self.args: List[FrozenSet[str]] = args
        self.kwargs: Dict[str, FrozenSet[str]] = kwargs
        self.order_ctx: FrozenSet[str] = order_ctx
        self.loops: List[ast.AST] = loops
        self.env: Dict[str, FrozenSet[str]] = env


class StoreRecord:
    def __init__(self, node, target: str, labels, order_ctx):
        self.node = node
        self.target = target
        self.labels = labels
        self.order_ctx = order_ctx


class LabelFlow:
    def __init__(self, fn: ast.FunctionDef, param_labels: Dict[str, FrozenSet[str]],
                 attr_labels: Optional[Callable[[str], Optional[FrozenSet[str]]]] = None,
                 call_result: Optional[Callable[[str, ast.Call, List[FrozenSet[str]]], Optional[FrozenSet[str]]]] = None,
                 walk_exempt: bool = True):
        self.fn = fn
        self.attr_labels = attr_labels or (lambda t: None)
        self.call_result = call_result or (lambda n, c, a: None)
        self.calls: List[CallRecord] = []
        self.stores: List[StoreRecord] = []
        self.returns: List[FrozenSet[str]] = []
        self.loop_stack: List[Tuple[ast.AST, FrozenSet[str]]] = []
        self.walk_exempt = walk_exempt
        self.obj_labels: Dict[str, FrozenSet[str]] = {}
        env: Dict[str, FrozenSet[str]] = {}
        for a in fn.args.posonlyargs + fn.args.args + fn.args.kwonlyargs:
            env[a.arg] = param_labels.get(a.arg, EMPTY)
        self.recording = False
        self._final_pass(fn.body, env)

    # ------------------------------------------------------------------
    def _final_pass(self, body, env):
        self.recording = True
        self.block(body, dict(env))

    def order_ctx(self) -> FrozenSet[str]:
        out: Set[str] = set()
        for node, labels in self.loop_stack:
            out |= (labels & {ORDER, ENV})
        return frozenset(out)

    # ------------------------------------------------------------------
    def block(self, stmts, env):
        for st in stmts:
            env = self.stmt(st, env)
        return env

    def join(self, a, b):
        out = dict(a)
        for k, v in b.items():
            out[k] = out.get(k, EMPTY) | v
        return out

    def stmt(self, st, env):
        if isinstance(st, (ast.Assign, ast.AnnAssign)):
            if st.value is None:
                return env
            lab = self.expr(st.value, env)
            targets = st.targets if isinstance(st, ast.Assign) else [st.target]
            for t in targets:
                self.assign(t, lab, env, st.value)
            return env
        if isinstance(st, ast.AugAssign):
            lab = self.expr(st.value, env) | self.expr(st.target, env)
            self.assign(st.target, lab, env, st.value)
            return env
        if isinstance(st, ast.Expr):
            self.expr(st.value, env)
            return env
        if isinstance(st, ast.Return):
            if st.value is not None:
                lab = self.expr(st.value, env)
                if self.recording:
                    self.returns.append(lab)
            return env
        if isinstance(st, ast.If):
            self.expr(st.test, env)
            a = self.block(st.body, dict(env))
            b = self.block(st.orelse, dict(env))
            return self.join(a, b)
        if isinstance(st, (ast.For, ast.AsyncFor)):
            it = self.expr(st.iter, env)
            is_walk = isinstance(st.iter, ast.Call) and call_name(st.iter) == "os.walk"
            ctx_labels = EMPTY if (is_walk and self.walk_exempt) else it
            rec = self.recording
            self.recording = False
            cur = dict(env)
            for _ in range(6):
                body_env = dict(cur)
                self.bind_target(st.target, it, body_env, st.iter)
                self.loop_stack.append((st, ctx_labels))
                out = self.block(st.body, body_env)
                self.loop_stack.pop()
                nxt = self.join(cur, out)
                if nxt == cur:
                    break
                cur = nxt
            self.recording = rec
            if rec:
                body_env = dict(cur)
                self.bind_target(st.target, it, body_env, st.iter)
                self.loop_stack.append((st, ctx_labels))
                self.block(st.body, body_env)
                self.loop_stack.pop()
            return self.block(st.orelse, cur)
        if isinstance(st, ast.While):
            self.expr(st.test, env)
            cur = dict(env)
            for _ in range(4):
                out = self.block(st.body, dict(cur))
                nxt = self.join(cur, out)
                if nxt == cur:
                    break
                cur = nxt
            return self.block(st.orelse, cur)
        if isinstance(st, ast.Try):
            a = self.block(st.body, dict(env))
            res = self.block(st.orelse, dict(a))
            for h in st.handlers:
                res = self.join(res, self.block(h.body, self.join(env, a)))
            return self.block(st.finalbody, res)
        if isinstance(st, (ast.With, ast.AsyncWith)):
            for it in st.items:
                lab = self.expr(it.context_expr, env)
                if it.optional_vars is not None:
                    self.assign(it.optional_vars, lab, env, it.context_expr)
            return self.block(st.body, env)
        if isinstance(st, (ast.Raise,)):
            if st.exc is not None:
                self.expr(st.exc, env)
            return env
        if isinstance(st, ast.Delete):
            return env
        if isinstance(st, ast.Assert):
            self.expr(st.test, env)
            return env
        return env

    def bind_target(self, target, it_labels, env, iter_node):
        elem = it_labels - {ORDER}
        if isinstance(iter_node, ast.Call) and call_name(iter_node) == "os.walk" and isinstance(target, ast.Tuple) \
                and len(target.elts) == 3:
            root_l = self.expr(iter_node.args[0], env) if iter_node.args else EMPTY
            names = [t.id if isinstance(t, ast.Name) else None for t in target.elts]
            if names[0]:
                env[names[0]] = root_l | {ABS} if ABS in root_l else root_l
            for n in names[1:]:
                if n:
                    env[n] = frozenset({ORDER})
            return
        if isinstance(iter_node, ast.Call) and call_name(iter_node) == "enumerate" and isinstance(target, ast.Tuple):
            for t in target.elts:
                self.assign(t, elem, env, None)
            return
        self.assign(target, elem, env, None)

    def assign(self, target, lab, env, value_node):
        if isinstance(target, ast.Name):
            env[target.id] = lab
        elif isinstance(target, (ast.Tuple, ast.List)):
            for t in target.elts:
                self.assign(t, lab, env, value_node)
        elif isinstance(target, ast.Attribute):
            text = norm(target)
            env["@" + text] = lab
            # writing a tainted value into an object taints the object
            base = target.value
            if isinstance(base, ast.Name):
                env[base.id] = env.get(base.id, EMPTY) | lab
            if self.recording:
                self.stores.append(StoreRecord(target, text, lab, self.order_ctx()))
        elif isinstance(target, ast.Subscript):
            base = target.value
            if isinstance(base, ast.Name):
                # slice assignment keeps ORDER only if the new value has it
                if isinstance(target.slice, ast.Slice):
                    env[base.id] = lab
                else:
                    env[base.id] = env.get(base.id, EMPTY) | lab
            if self.recording:
                self.stores.append(StoreRecord(target, norm(target), lab, self.order_ctx()))
        elif isinstance(target, ast.Starred):
            self.assign(target.value, lab, env, value_node)

    # ------------------------------------------------------------------
    def expr(self, e, env) -> FrozenSet[str]:
        if e is None:
            return EMPTY
        if isinstance(e, ast.Constant):
            return EMPTY
        if isinstance(e, ast.Name):
            if e.id in env:
                return env[e.id]
            if e.id == "__file__":
                return L({ABS})
            return EMPTY
        if isinstance(e, ast.Attribute):
            text = norm(e)
            if "@" + text in env:
                return env["@" + text]
            r = self.attr_labels(text)
            if r is not None:
                return r
            if text in ENV_NAMES or text.startswith("os.environ"):
                return L({ENV})
            if text in ("os.curdir", "os.sep", "os.pardir", "os.path.sep", "os.path.curdir", "os.linesep", "os.extsep"):
                return EMPTY
            return self.expr(e.value, env)
        if isinstance(e, ast.Call):
            return self.call(e, env)
        if isinstance(e, ast.JoinedStr):
            out = EMPTY
            for v in e.values:
                if isinstance(v, ast.FormattedValue):
                    out |= self.expr(v.value, env)
            return out
        if isinstance(e, ast.BinOp):
            return self.expr(e.left, env) | self.expr(e.right, env)
        if isinstance(e, ast.BoolOp):
            out = EMPTY
            for v in e.values:
                out |= self.expr(v, env)
            return out
        if isinstance(e, ast.UnaryOp):
            return self.expr(e.operand, env)
        if isinstance(e, ast.Compare):
            out = self.expr(e.left, env)
            for c in e.comparators:
                out |= self.expr(c, env)
            return out - {ORDER}
        if isinstance(e, ast.IfExp):
            self.expr(e.test, env)
            return self.expr(e.body, env) | self.expr(e.orelse, env)
        if isinstance(e, ast.Subscript):
            base = self.expr(e.value, env)
            if isinstance(e.slice, ast.Slice):
                for p in (e.slice.lower, e.slice.upper, e.slice.step):
                    self.expr(p, env)
                return base
            return (base - {ORDER}) | (self.expr(e.slice, env) - {ORDER}) if not isinstance(e.slice, ast.Slice) else base
        if isinstance(e, (ast.List, ast.Tuple)):
            out = EMPTY
            for v in e.elts:
                out |= self.expr(v, env)
            return out
        if isinstance(e, ast.Set):
            out = L({ENV}) if len(e.elts) > 1 else EMPTY
            for v in e.elts:
                out |= self.expr(v, env)
            return out
        if isinstance(e, ast.Dict):
            out = EMPTY
            for v in list(e.keys) + list(e.values):
                out |= self.expr(v, env)
            return out
        if isinstance(e, (ast.ListComp, ast.GeneratorExp, ast.SetComp, ast.DictComp)):
            sub = dict(env)
            out = EMPTY
            for g in e.generators:
                it = self.expr(g.iter, sub)
                out |= it & {ORDER, ENV}
                self.assign(g.target, it - {ORDER}, sub, None)
                for c in g.ifs:
                    self.expr(c, sub)
            if isinstance(e, ast.DictComp):
                out |= self.expr(e.key, sub) | self.expr(e.value, sub)
            else:
                out |= self.expr(e.elt, sub)
            if isinstance(e, ast.SetComp):
                out |= {ENV}
            return frozenset(out)
        if isinstance(e, ast.Starred):
            return self.expr(e.value, env)
        if isinstance(e, ast.Lambda):
            return EMPTY
        if isinstance(e, ast.NamedExpr):
            lab = self.expr(e.value, env)
            self.assign(e.target, lab, env, e.value)
            return lab
        return EMPTY

    def call(self, c: ast.Call, env) -> FrozenSet[str]:
        name = call_name(c)
        args = [self.expr(a, env) for a in c.args]
        kwargs = {k.arg or "**": self.expr(k.value, env) for k in c.keywords}
        recv = EMPTY
        if isinstance(c.func, ast.Attribute):
            recv = self.expr(c.func.value, env)
        if self.recording:
            self.calls.append(CallRecord(c, name, args, kwargs, self.order_ctx(),
                                         [n for n, _l in self.loop_stack], dict(env)))
        r = self.call_result(name, c, args)
        if r is not None:
            return r
        allargs = EMPTY
        for a in args:
            allargs |= a
        for a in kwargs.values():
            allargs |= a
        short = name.split(".")[-1]
        if name in ("os.getcwd", "os.getcwdb", "pathlib.Path.cwd", "Path.cwd"):
            # where the process happens to run: an absolute location *and* an environment value (its base name is not
            # "location independent" the way the base name of a path below the input directory is)
            return L({ABS, ENV})
        if name == "os.readlink":
            # the raw text of the link: usually *relative to the link's own directory*, neither absolute nor comparable
            return L({RES})
        if name == "os.path.realpath" or short == "resolve":
            # symlinks resolved: no longer comparable with the unresolved input path
            return L({ABS, RES})
        if name in ABS_CALLS:
            return L({ABS})
        if name == "os.path.relpath":
            if len(args) >= 2 and (RES in args[0]) != (RES in args[1]):
                # relpath of a resolved path against an unresolved one (or vice versa) can climb out with '..'
                return allargs | {ABS}
            if len(args) >= 2 and ABS in args[0] and ABS in args[1]:
                return (args[0] | args[1]) - {ABS, OUT, RES}
            if len(args) >= 2 and ABS not in args[0] and ABS not in args[1]:
                return args[0] | args[1]
            return allargs | {ABS}
        if name in CLEAN_CALLS:
            return allargs - {ABS, OUT, ORDER}
        if name == "os.path.join":
            # a later absolute component discards the earlier ones; labels simply union
            return allargs
        if name in ("sorted",):
            # a stable sort with a key that is not injective (str.lower, len, ...) leaves ties in listing order
            if any(k.arg == "key" for k in c.keywords):
                return allargs
            return allargs - {ORDER}
        if name in LISTING or short in ("listdir", "scandir", "iterdir", "glob", "rglob"):
            return allargs | {ORDER}
        if name in ("set", "frozenset"):
            return allargs | {ENV}
        if name in ENV_NAMES or any(name.startswith(p) for p in ENV_CALLS):
            return L({ENV})
        if short in ("sort",) and isinstance(c.func, ast.Attribute) and isinstance(c.func.value, ast.Name):
            n = c.func.value.id
            if not any(k.arg == "key" for k in c.keywords):
                env[n] = env.get(n, EMPTY) - {ORDER}
            return EMPTY
        if short in ("append", "extend", "insert", "add", "update") and isinstance(c.func, ast.Attribute):
            base = c.func.value
            if isinstance(base, ast.Name):
                env[base.id] = env.get(base.id, EMPTY) | allargs
            return EMPTY
        if short in ("remove", "pop", "discard", "clear"):
            return EMPTY
        if short in ("copy", "deepcopy", "list", "tuple", "reversed", "iter", "enumerate", "str", "repr", "format",
                     "join", "lower", "upper", "strip", "lstrip", "rstrip", "split", "rsplit", "replace", "sub",
                     "normpath", "dirname", "splitext", "normcase", "fspath", "encode", "decode", "zip", "map",
                     "filter", "next", "getattr", "dict", "max", "min", "sum", "any", "all"):
            return allargs | recv
        # method call on an object: result carries the labels of the receiver and arguments
        return allargs | recv

"""Abstract evaluator for the small Python subset CMinx is written in.

It turns a function body into a finite set of *outcomes*; each outcome is one
structural path (forked at every condition that cannot be decided from the
facts known on the path) with

* the path condition (canonical atoms with their truth value),
* an ordered list of *effects* (pushes/pops on list-valued attributes, field
  stores, constructor calls, opaque calls such as logging, raises),
* the exit kind (fall through / return value / raise).

Values are *terms* (nested tuples) over the function's symbolic inputs; no
CMinx code is imported or run and no solver is consulted: conditions are only
decided by constant folding, by an interval kept per ``len(x)`` term and by the
facts already assumed on the path.  Loops are not unrolled: the body is
evaluated once with a symbolic element and stored as a loop summary.

This is the common machinery behind E2 (listener effect table), E3 (binding /
render terms) and parts of E4.
"""
from __future__ import annotations

import ast
import copy
from typing import Any, Callable, Dict, List, Optional, Tuple

from .core import AnalysisError
from .model import Repo, func_params, param_defaults, norm

Term = tuple

NONE = ("const", None)
TRUE = ("const", True)
FALSE = ("const", False)
SELF = ("sym", "self")

MUTATORS = {"append", "pop", "insert", "remove", "extend", "clear", "sort", "reverse", "add", "update",
            "discard", "setdefault", "popitem", "write", "writelines", "appendleft", "popleft"}
PURE_STR = {"lower", "upper", "strip", "lstrip", "rstrip", "split", "join", "replace", "startswith", "endswith",
            "casefold", "format", "title", "capitalize", "splitlines", "rsplit", "partition", "find", "count",
            "isspace", "zfill", "removeprefix", "removesuffix", "expandtabs"}
LOG_LEVELS = {"debug", "info", "warning", "warn", "error", "critical", "exception", "log"}


def const(v) -> Term:
    return ("const", v)


def is_const(t: Term) -> bool:
    return isinstance(t, tuple) and len(t) == 2 and t[0] == "const"


def attr(base: Term, name: str) -> Term:
    return ("attr", base, name)


def call(fn: Term, *args: Term, **kw: Term) -> Term:
    return ("call", fn, tuple(args), tuple(sorted(kw.items())))


def glob(name: str) -> Term:
    return ("global", name)


def show(t: Any) -> str:
    """Readable, stable rendering of a term."""
    if not isinstance(t, tuple) or not t:
        return repr(t)
    k = t[0]
    if k == "const":
        return repr(t[1])
    if k == "sym":
        return t[1]
    if k == "global":
        return t[1]
    if k == "attr":
        return f"{show(t[1])}.{t[2]}"
    if k == "call":
        a = [show(x) for x in t[2]] + [f"{n}={show(v)}" for n, v in t[3]]
        return f"{show(t[1])}({', '.join(a)})"
    if k == "sub":
        return f"{show(t[1])}[{show(t[2])}]"
    if k == "slice":
        def s(x):
            return "" if x == NONE else show(x)
        r = f"{show(t[1])}[{s(t[2])}:{s(t[3])}"
        if t[4] != NONE:
            r += ":" + s(t[4])
        return r + "]"
    if k == "binop":
        return f"({show(t[2])} {t[1]} {show(t[3])})"
    if k == "unop":
        return f"({t[1]}{show(t[2])})"
    if k == "cmp":
        return f"({show(t[2])} {t[1]} {show(t[3])})"
    if k in ("and", "or"):
        return "(" + f" {k} ".join(show(x) for x in t[1:]) + ")"
    if k == "not":
        return f"(not {show(t[1])})"
    if k == "ifexp":
        return f"({show(t[2])} if {show(t[1])} else {show(t[3])})"
    if k == "fstr":
        return "f'" + "".join(x[1] if is_const(x) and isinstance(x[1], str) else "{" + show(x) + "}" for x in t[1:]) + "'"
    if k in ("list", "tuple", "set"):
        o, c = {"list": "[]", "tuple": "()", "set": "{}"}[k]
        return o + ", ".join(show(x) for x in t[1:]) + c
    if k == "dict":
        return "{" + ", ".join(f"{show(a)}: {show(b)}" for a, b in t[1:]) + "}"
    if k == "comp":
        gens = " ".join(f"for {v} in {show(it)}" + "".join(f" if {show(c)}" for c in cs) for v, it, cs in t[3])
        return f"<{t[1]}comp {show(t[2])} {gens}>"
    if k == "bv":
        return t[1]
    if k == "ref":
        return f"@{t[1]}"
    if k == "top":
        return f"top({show(t[1])})"
    if k == "elem":
        return f"elem#{t[1]}" + (f".{t[2]}" if len(t) > 2 and t[2] is not None else "")
    if k == "loopval":
        return f"loopval#{t[1]}({t[2]})"
    if k == "emit":
        a = [show(x) for x in t[3]] + [f"{n}={show(v)}" for n, v in t[4]]
        return f"{show(t[2])}#{t[1]}({', '.join(a)})"
    if k == "carried":
        return f"{t[2]}'"
    if k == "foreach":
        return f"foreach#{t[1]}({show(t[2])})"
    if k == "loopitem":
        return f"loopitem#{t[1]}({show(t[2])})"
    if k == "unknown":
        return f"?{t[1]}"
    if k == "lambda":
        return f"<lambda {t[1]}>"
    return repr(t)


def subterms(t: Any):
    """All subterms (pre-order)."""
    if isinstance(t, tuple):
        yield t
        for x in t:
            if isinstance(x, tuple):
                yield from subterms(x)


def contains(t: Term, sub: Term) -> bool:
    return any(x == sub for x in subterms(t))


class State:
    """One abstract path."""

    def __init__(self):
        self.frames: List[Dict[str, Term]] = [{}]
        self.fields: Dict[Tuple[Term, str], Term] = {}
        self.heap: Dict[int, Dict[str, Any]] = {}
        self.suffix: Dict[Term, List[Term]] = {}      # values pushed on an abstract list on this path
        self.popped: Dict[Term, int] = {}             # pops that went below the pushed suffix
        self.effects: List[tuple] = []
        self.conds: List[Tuple[Any, bool]] = []
        self.facts: Dict[Any, bool] = {}
        self.len_iv: Dict[Term, Tuple[int, Optional[int]]] = {}
        self.loops: Dict[int, Dict[str, Any]] = {}
        self.next_id = 1
        self.notes: List[str] = []

    def copy(self) -> "State":
        s = State.__new__(State)
        s.frames = [dict(f) for f in self.frames]
        s.fields = dict(self.fields)
        s.heap = {k: _copy_obj(v) for k, v in self.heap.items()}
        s.suffix = {k: list(v) for k, v in self.suffix.items()}
        s.popped = dict(self.popped)
        s.effects = list(self.effects)
        s.conds = list(self.conds)
        s.facts = dict(self.facts)
        s.len_iv = dict(self.len_iv)
        s.loops = self.loops  # summaries are immutable once stored; shared
        s.loops = dict(self.loops)
        s.next_id = self.next_id
        s.notes = list(self.notes)
        return s

    @property
    def env(self) -> Dict[str, Term]:
        return self.frames[-1]

    def new_id(self) -> int:
        n = self.next_id
        self.next_id += 1
        return n

    def alloc(self, obj: Dict[str, Any]) -> Term:
        n = self.new_id()
        obj["id"] = n
        self.heap[n] = obj
        return ("ref", n)

    def obj(self, t: Term) -> Optional[Dict[str, Any]]:
        if isinstance(t, tuple) and t and t[0] == "ref":
            return self.heap.get(t[1])
        return None


def _copy_obj(o: Dict[str, Any]) -> Dict[str, Any]:
    c = dict(o)
    if "fields" in c:
        c["fields"] = dict(c["fields"])
    if "items" in c:
        c["items"] = list(c["items"])
    return c


class Outcome:
    def __init__(self, state: State, exit_: Optional[tuple]):
        self.state = state
        self.exit = exit_          # None | ('return', term) | ('raise', term) | ('break',) | ('continue',)

    @property
    def kind(self) -> str:
        return "fall" if self.exit is None else self.exit[0]

    @property
    def effects(self) -> List[tuple]:
        return self.state.effects

    @property
    def conds(self):
        return self.state.conds

    def value(self) -> Term:
        if self.exit and self.exit[0] == "return":
            return self.exit[1]
        return NONE

    def is_error_path(self) -> bool:
        """Ends in raise, or logged at error level / called exit()."""
        if self.exit and self.exit[0] == "raise":
            return True
        for e in self.state.effects:
            while e[0] == "inloop":
                e = e[2]
            if e[0] == "call" and is_error_log(e[1]):
                return True
            if e[0] == "exit":
                return True
        return False

    def cond_text(self) -> str:
        return " & ".join(("" if v else "not ") + show_atom(a) for a, v in self.conds) or "true"


def all_effects(st: State, effects: List[tuple]):
    """Effects including those inside loop summaries (flattened, loop effects
    are yielded as ('inloop', loop_id, effect))."""
    for e in effects:
        yield e
        if e[0] == "loop":
            lp = st.loops.get(e[1])
            if lp:
                for oc in lp["outcomes"]:
                    for e2 in all_effects(st, oc["effects"]):
                        yield ("inloop", e[1], e2) if e2[0] != "inloop" else e2


def is_error_log(t: Term) -> bool:
    if t[0] == "call" and t[1][0] == "attr" and t[1][2] in ("error", "critical", "exception"):
        return "logger" in show(t[1][1]).lower() or "logging" in show(t[1][1]).lower()
    return False


def is_log_call(t: Term) -> bool:
    if t[0] == "call" and t[1][0] == "attr" and t[1][2] in LOG_LEVELS:
        return "logger" in show(t[1][1]).lower() or "logging" in show(t[1][1]).lower()
    return False


def show_atom(a) -> str:
    if isinstance(a, tuple) and a and a[0] in ("nonempty", "isnone", "truthy", "in", "isinstance", "exc", "loopexit",
                                                "loopbreak", "lencmp"):
        return a[0] + "(" + ", ".join(show(x) if isinstance(x, tuple) else str(x) for x in a[1:]) + ")"
    return show(a)


class Evaluator:
    """Evaluates functions of one Repo.  `rewrite` is an optional hook
    term -> term|None applied to every freshly built term (used by E2 to pin
    the command name to a constant)."""

    fork_ifexp = False     # fork a conditional expression whose value is stored (listener model: path-wise stack facts)

    def __init__(self, repo: Repo, module: str, cls: Optional[str] = None,
                 rewrite: Optional[Callable[[Term], Optional[Term]]] = None,
                 max_depth: int = 4, inline_static: bool = False,
                 opaque_methods: Tuple[str, ...] = (), inline_ctors: Tuple[str, ...] = (),
                 effect_methods: Tuple[str, ...] = (), list_terms: Tuple[Term, ...] = ()):
        self.repo = repo
        self.module = module
        self.cls = cls
        self.rewrite = rewrite
        self.max_depth = max_depth
        self.inline_static = inline_static
        self.opaque_methods = set(opaque_methods)
        self.inline_ctors = set(inline_ctors)
        self.effect_methods = set(effect_methods)
        self.list_terms = set(list_terms)
        self.depth = 0
        self.max_outcomes = 4000
        self.imports = self._imports(module)

    # ------------------------------------------------------------------
    def _imports(self, module: str) -> Dict[str, str]:
        out = {}
        for st in self.repo.module(module).tree.body:
            if isinstance(st, ast.Import):
                for a in st.names:
                    out[(a.asname or a.name).split(".")[0]] = a.name if a.asname else a.name.split(".")[0]
            elif isinstance(st, ast.ImportFrom):
                for a in st.names:
                    out[a.asname or a.name] = a.name
        return out

    def _module_constant(self, name: str, st: "State") -> Optional[Term]:
        """Module-level `NAME = <literal>` (tuple/dict/str/number displays of literals, enum members): its value.  Only names
        assigned exactly once at module level and never rebound inside functions (`global NAME`) are treated as constants."""
        cache = self.__dict__.setdefault("_mc_cache", {})
        key = (self.module, name)
        if key in cache:
            return cache[key]
        val = None
        tree = self.repo.module(self.module).tree
        defs = [s_ for s_ in tree.body if isinstance(s_, (ast.Assign, ast.AnnAssign))
                and any(isinstance(t, ast.Name) and t.id == name for t in (s_.targets if isinstance(s_, ast.Assign) else [s_.target]))]
        rebound = any(isinstance(n, ast.Global) and name in n.names for n in ast.walk(tree))
        if len(defs) == 1 and not rebound and defs[0].value is not None and _is_literal(defs[0].value):
            tmp = State()
            v = self.eval(defs[0].value, tmp)
            # literal lists become immutable tuples of items for reading purposes
            ob = tmp.obj(v)
            if ob is not None and ob.get("kind") == "list":
                v = ("tuple",) + tuple(ob["items"])
            val = v
        cache[key] = val
        return val

    def _module_function(self, name: str):
        for st_ in self.repo.module(self.module).tree.body:
            if isinstance(st_, ast.FunctionDef) and st_.name == name:
                return st_
        # `from .sibling import name`: a pure-looking helper of another hand-written module (no nested defs, no yield)
        for st_ in self.repo.module(self.module).tree.body:
            if isinstance(st_, ast.ImportFrom) and st_.level and any((a.asname or a.name) == name for a in st_.names):
                real = next(a.name for a in st_.names if (a.asname or a.name) == name)
                pkg = self.module.split(".")
                base = pkg if self.repo.module(self.module).relpath.endswith("__init__.py") else pkg[:-1]
                base = base[:len(base) - (st_.level - 1)]
                target = ".".join(base + ([st_.module] if st_.module else []))
                if target in self.repo.modules and target in ("cminx.rstwriter", "cminx.config", "cminx.documentation_types", "cminx",
                                                              "cminx.parser", "cminx.exceptions", "cminx.aggregator"):
                    for f in self.repo.module(target).tree.body:
                        if isinstance(f, ast.FunctionDef) and f.name == real and not any(
                                isinstance(x, (ast.Yield, ast.YieldFrom, ast.Global)) for x in ast.walk(f)):
                            return f
        return None

    # ------------------------------------------------------------------
    # public entry points
    def run_function(self, fn: ast.FunctionDef, args: Dict[str, Term], state: Optional[State] = None,
                     cls: Optional[str] = None, closure: bool = False) -> List[Outcome]:
        st = state.copy() if state is not None else State()
        st.frames.append({k: v for k, v in st.frames[-1].items() if not k.startswith("__")} if closure else {})
        fn = self._with_generator_joins_as_loops(fn)
        old_cls = self.cls
        if cls is not None:
            self.cls = cls
        try:
            self._bind_params(fn, args, st)
            outs = self.exec_block(fn.body, st)
        finally:
            self.cls = old_cls
        res = []
        for o in outs:
            o.state.frames.pop()
            if o.exit and o.exit[0] in ("break", "continue"):
                raise AnalysisError(f"break/continue escaped function {fn.name}")
            res.append(o)
        return res

    def _with_generator_joins_as_loops(self, fn: ast.FunctionDef) -> ast.FunctionDef:
        if not any(isinstance(n, (ast.GeneratorExp, ast.ListComp)) for n in ast.walk(fn)):
            return fn
        cache = self.__dict__.setdefault("_join_cache", {})
        if id(fn) in cache:
            return cache[id(fn)]

        def is_gen_call(c: ast.Call) -> bool:
            f = c.func
            name = f.attr if isinstance(f, ast.Attribute) and isinstance(f.value, ast.Name) and f.value.id == "self" else \
                f.id if isinstance(f, ast.Name) else None
            if name is None:
                return False
            cands = [m for ci in self.repo.classes.values() if ci.module == self.module for n_, m in ci.methods.items() if n_ == name]
            mf = self._module_function(name) if isinstance(f, ast.Name) else None
            if mf is not None:
                cands.append(mf)
            return bool(cands) and all(any(isinstance(x, (ast.Yield, ast.YieldFrom)) for x in ast.walk(m)) for m in cands)
        from .inline import joins_to_loops
        cache[id(fn)] = joins_to_loops(fn, is_gen_call)
        return cache[id(fn)]

    def _bind_params(self, fn: ast.FunctionDef, args: Dict[str, Term], st: State) -> None:
        defaults = param_defaults(fn)
        for p in func_params(fn):
            if p in args:
                st.env[p] = args[p]
            elif p in defaults:
                st.env[p] = self.eval(defaults[p], st)
            else:
                st.env[p] = ("sym", p)
        if fn.args.vararg and fn.args.vararg.arg not in args:
            st.env[fn.args.vararg.arg] = ("sym", "*" + fn.args.vararg.arg)

    # ------------------------------------------------------------------
    # statements
    def exec_block(self, stmts: List[ast.stmt], st: State) -> List[Outcome]:
        live = [st]
        done: List[Outcome] = []
        for node in stmts:
            nxt: List[State] = []
            for s in live:
                for o in self.exec_stmt(node, s):
                    if o.exit is None:
                        nxt.append(o.state)
                    else:
                        done.append(o)
            live = nxt
            if len(live) + len(done) > self.max_outcomes:
                raise AnalysisError("path explosion in abstract evaluation")
            if not live:
                break
        return done + [Outcome(s, None) for s in live]

    def exec_stmt(self, node: ast.stmt, st: State) -> List[Outcome]:
        m = getattr(self, "st_" + type(node).__name__, None)
        if m is None:
            raise AnalysisError(f"statement kind {type(node).__name__} not supported by the evaluator: {norm(node)[:80]}")
        if isinstance(node, (ast.Expr, ast.Assign, ast.AugAssign, ast.AnnAssign, ast.Return)):
            nested = self._nested_inlinable_calls(node, st)
            if nested:
                return self._with_lifted_calls(node, nested, st, m)
        return m(node, st)

    def _nested_inlinable_calls(self, node: ast.stmt, st: State) -> List[ast.Call]:
        """Calls to inlinable functions nested inside the statement's expression (not the statement's own top-level call, not
        under a conditional expression / boolean operator / lambda / comprehension, where evaluation is conditional), inner
        first."""
        top = node.value if isinstance(node, (ast.Expr, ast.Assign, ast.AugAssign, ast.AnnAssign, ast.Return)) else None
        if top is None:
            return []
        out: List[ast.Call] = []

        def walk(e, is_top):
            if isinstance(e, (ast.Lambda, ast.ListComp, ast.SetComp, ast.DictComp, ast.GeneratorExp, ast.IfExp, ast.BoolOp)):
                return
            for ch in ast.iter_child_nodes(e):
                walk(ch, False)
            if isinstance(e, ast.Call) and not is_top:
                try:
                    tgt = self._resolve_callee(e, st.copy())
                except AnalysisError:
                    tgt = None
                if tgt is not None:
                    out.append(e)
        walk(top, True)
        return out

    def _with_lifted_calls(self, node, calls: List[ast.Call], st: State, m) -> List[Outcome]:
        live = [st]
        done: List[Outcome] = []
        for c in calls:
            nxt = []
            for s in live:
                tgt = self._resolve_callee(c, s)
                if tgt is None:
                    nxt.append(s)
                    continue
                for s2, v, ex in self._inline(c, tgt[0], tgt[1], tgt[2], s):
                    if ex is not None:
                        done.append(Outcome(s2, ex))
                    else:
                        s2.env["__pre__%d" % id(c)] = v
                        nxt.append(s2)
            live = nxt
        for s in live:
            outs = m(node, s)
            for o in outs:
                for c in calls:
                    o.state.env.pop("__pre__%d" % id(c), None)
            done.extend(outs)
        return done

    def st_Pass(self, node, st):
        return [Outcome(st, None)]

    st_Global = st_Nonlocal = st_Import = st_ImportFrom = st_Pass

    def st_FunctionDef(self, node, st):
        # a local closure: calls are inlined with read access to the enclosing frame
        if not hasattr(self, "_closures"):
            self._closures = {}
        self._closures[id(node)] = node
        st.env[node.name] = ("localfunc", node.name, id(node))
        return [Outcome(st, None)]

    def st_ClassDef(self, node, st):
        st.env[node.name] = ("localclass", node.name)
        return [Outcome(st, None)]

    def st_Assert(self, node, st):
        return [Outcome(st, None)]

    def st_Expr(self, node, st):
        if isinstance(node.value, ast.Constant):
            return [Outcome(st, None)]      # docstring
        outs = self.eval_forking(node.value, st, stmt_pos=True)
        return [Outcome(s, ex) for s, _v, ex in outs]

    def st_Return(self, node, st):
        if node.value is None:
            return [Outcome(st, ("return", NONE))]
        outs = self.eval_forking(node.value, st)
        return [Outcome(s, ex if ex else ("return", v)) for s, v, ex in outs]

    def st_Raise(self, node, st):
        exc = self.eval(node.exc, st) if node.exc is not None else ("reraise",)
        st.effects.append(("raise", exc))
        return [Outcome(st, ("raise", exc))]

    def st_Break(self, node, st):
        return [Outcome(st, ("break",))]

    def st_Continue(self, node, st):
        return [Outcome(st, ("continue",))]

    def st_Delete(self, node, st):
        for t in node.targets:
            if isinstance(t, ast.Subscript):
                base = self.eval(t.value, st)
                if isinstance(t.slice, ast.Slice):
                    st.effects.append(("delslice", base, self._slice_term(t.slice, st)))
                else:
                    idx = self.eval(t.slice, st)
                    if idx == const(-1):
                        self._list_pop(base, st)
                    else:
                        st.effects.append(("delidx", base, idx))
            elif isinstance(t, ast.Name):
                st.env.pop(t.id, None)
            else:
                st.effects.append(("del", self.eval(t, st)))
        return [Outcome(st, None)]

    def st_Assign(self, node, st):
        outs = self.eval_forking(node.value, st)
        res = []
        for s, v, ex in outs:
            if ex:
                res.append(Outcome(s, ex))
                continue
            for t in node.targets:
                self.assign(t, v, s)
            res.append(Outcome(s, None))
        return res

    def st_AnnAssign(self, node, st):
        if node.value is None:
            return [Outcome(st, None)]
        outs = self.eval_forking(node.value, st)
        res = []
        for s, v, ex in outs:
            if ex:
                res.append(Outcome(s, ex))
                continue
            self.assign(node.target, v, s)
            res.append(Outcome(s, None))
        return res

    def st_AugAssign(self, node, st):
        cur = self.eval(node.target, st)
        rhs = self.eval(node.value, st)
        op = type(node.op).__name__
        if op == "Add" and st.obj(cur) is not None and st.obj(cur).get("kind") == "list":
            # xs += ys  mutates in place
            self._list_extend(cur, rhs, st)
            return [Outcome(st, None)]
        val = self.simplify(("binop", _OPS.get(op, op), cur, rhs), st)
        self.assign(node.target, val, st)
        return [Outcome(st, None)]

    def st_If(self, node, st):
        res: List[Outcome] = []
        for s, b, ex in self.branch(node.test, st):
            if ex is not None:
                res.append(Outcome(s, ex))
                continue
            res.extend(self.exec_block(node.body if b else node.orelse, s))
        return res

    def st_With(self, node, st):
        for item in node.items:
            v = self.eval(item.context_expr, st)
            st.effects.append(("with", v))
            if item.optional_vars is not None:
                o = st.obj(v)
                if o is not None and o.get("sio"):
                    self.assign(item.optional_vars, v, st)          # `with StringIO() as buf`: buf is the buffer itself
                else:
                    self.assign(item.optional_vars, ("withval", v), st)
        return self.exec_block(node.body, st)

    def st_Try(self, node, st):
        # try: v = xs[-1] / xs[0] ... except IndexError: H   - "is xs empty?" asked the EAFP way: fork on it, so that the two
        # paths carry the same fact an `if xs:` / `if len(xs) > 0:` test would establish
        if node.body and not getattr(node, "_eafp_done", False) and isinstance(node.body[0], (ast.Assign, ast.AnnAssign, ast.Expr)) \
                and getattr(node.body[0], "value", None) is not None:
            subs = [n for n in ast.walk(node.body[0].value) if isinstance(n, ast.Subscript) and isinstance(n.ctx, ast.Load)
                    and ((isinstance(n.slice, ast.Constant) and n.slice.value in (-1, 0)) or
                         (isinstance(n.slice, ast.UnaryOp) and isinstance(n.slice.op, ast.USub)
                          and isinstance(n.slice.operand, ast.Constant) and n.slice.operand.value == 1))]
            fake = ("call", glob("IndexError"), (), ())
            h = self._matching_handler(node, fake, st) if len(subs) == 1 else None
            if h is not None and all(isinstance(x, (ast.Name, ast.Attribute)) for x in ast.walk(subs[0].value)
                                     if not isinstance(x, (ast.Load, ast.Store))):
                outs: List[Outcome] = []
                for s2, truth, ex in self.branch(subs[0].value, st):
                    if ex is not None:
                        outs.append(Outcome(s2, ex))
                    elif truth:
                        node._eafp_done = True
                        try:
                            outs.extend(self.st_Try(node, s2))
                        finally:
                            node._eafp_done = False
                    else:
                        if h.name:
                            s2.env[h.name] = fake
                        hb = self.exec_block(h.body, s2)
                        if node.finalbody:
                            hb = [Outcome(o2.state, o2.exit if o2.exit else o.exit) for o in hb for o2 in self.exec_block(node.finalbody, o.state)]
                        outs.extend(hb)
                return outs
        entry = st.copy()
        res: List[Outcome] = []
        body_outs = self.exec_block(node.body, st)
        handled_any = False
        for o in body_outs:
            if o.exit and o.exit[0] == "raise":
                h = self._matching_handler(node, o.exit[1], o.state)
                if h is not None:
                    handled_any = True
                    s = o.state
                    if h.name:
                        s.env[h.name] = o.exit[1]
                    res.extend(self.exec_block(h.body, s))
                    continue
                res.append(o)
            elif o.exit is None and node.orelse:
                res.extend(self.exec_block(node.orelse, o.state))
            else:
                res.append(o)
        # implicit exceptions raised somewhere inside the body (library calls,
        # subscripts): one extra path per handler, from the state at try entry
        for h in node.handlers:
            s = entry.copy()
            tname = norm(h.type) if h.type is not None else "BaseException"
            atom = ("exc", tname, s.new_id())
            s.conds.append((atom, True))
            exc = ("implicit", tname)
            if h.name:
                s.env[h.name] = exc
            s.notes.append(f"implicit {tname}")
            res.extend(self.exec_block(h.body, s))
        if node.finalbody:
            fin: List[Outcome] = []
            for o in res:
                for o2 in self.exec_block(node.finalbody, o.state):
                    fin.append(Outcome(o2.state, o2.exit if o2.exit else o.exit))
            res = fin
        return res

    def _matching_handler(self, node: ast.Try, exc: Term, st: State):
        ename = self._exc_class(exc, st)
        for h in node.handlers:
            if h.type is None:
                return h
            names = [norm(x) for x in (h.type.elts if isinstance(h.type, ast.Tuple) else [h.type])]
            for n in names:
                n = n.split(".")[-1]
                if n in ("Exception", "BaseException"):
                    return h
                if ename and (ename == n or self.repo.is_subclass(ename, n)):
                    return h
                if ename is None:
                    return h       # unknown exception object: may match
        return None

    def _exc_class(self, exc: Term, st: State) -> Optional[str]:
        o = st.obj(exc)
        if o is not None:
            return o.get("cls")
        if exc[0] == "call" and exc[1][0] == "global":
            return exc[1][1].split(".")[-1]
        if exc[0] == "global":
            return exc[1].split(".")[-1]
        return None

    def _generator_loop(self, node, st):
        """for T in <generator function of the repository>(...): body  -> the generator's body with each `yield E` replaced by
        `T = E; body` (run in the callee's frame layout: parameters bound, locals of the generator renamed)."""
        if node.orelse or not isinstance(node.iter, ast.Call):
            return None
        try:
            tgt = self._resolve_callee(node.iter, st)
        except AnalysisError:
            return None
        if tgt is None:
            return None
        fn, cls_name, bound_self, kind = tgt
        if not any(isinstance(x, (ast.Yield, ast.YieldFrom)) for x in ast.walk(fn)):
            return None
        from .inline import _Inliner, _Subst, expand_yields
        inl = _Inliner({}, {})
        self._gen_counter = getattr(self, "_gen_counter", 0) + 1
        inl.counter = 1000 + self._gen_counter
        is_method = bound_self is not None
        b = inl.bind(fn, node.iter, is_method)
        if b is None:
            return None
        prelude, mapping, rename, tag = b
        stmts = expand_yields(fn, node.target, node.body, _Subst(mapping, rename))
        if stmts is None:
            return None
        if is_method:
            self_name = fn.args.args[0].arg
            if self_name != "self" or st.env.get("self") != bound_self:
                return None
        for s_ in prelude:
            ast.fix_missing_locations(s_)
        old_cls = self.cls
        if cls_name is not None:
            self.cls = cls_name
        try:
            return self.exec_block(list(prelude) + stmts, st)
        finally:
            self.cls = old_cls

    def st_For(self, node, st):
        g = self._generator_loop(node, st)
        if g is not None:
            return g
        it = self.eval(node.iter, st)
        items = None
        if it[0] in ("tuple", "list") and len(it) - 1 <= 16 and not any(isinstance(x, tuple) and x and x[0] == "starred" for x in it[1:]):
            items = list(it[1:])
        if items is not None and not node.orelse:
            return self._unroll(node, items, st)
        return self._loop(node, it, st)

    def _unroll(self, node, items, st):
        """A loop over a concrete tuple (lookup table) is executed item by item."""
        live = [st]
        done: List[Outcome] = []
        for item in items:
            nxt = []
            for s in live:
                self.assign(node.target, item, s)
                for o in self.exec_block(node.body, s):
                    if o.exit is None or o.exit[0] == "continue":
                        nxt.append(o.state)
                    elif o.exit[0] == "break":
                        done.append(Outcome(o.state, None))
                    else:
                        done.append(o)
            live = nxt
            if len(live) + len(done) > self.max_outcomes:
                raise AnalysisError("path explosion while unrolling a table loop")
        return done + [Outcome(s, None) for s in live]

    def st_While(self, node, st):
        it = ("while", self.eval(node.test, st))
        return self._loop(node, it, st)

    def _loop(self, node, it: Term, st: State) -> List[Outcome]:
        lid = st.new_id()
        body_st = st.copy()
        body_st.effects = []
        body_st.conds = []
        # loop-carried locals: names assigned in the body that exist before the loop
        carried = set()
        for sub in node.body:
            for n in ast.walk(sub):
                if isinstance(n, ast.Name) and isinstance(n.ctx, ast.Store) and n.id in st.env:
                    carried.add(n.id)
        if isinstance(node, ast.For):
            for n in ast.walk(node.target):
                if isinstance(n, ast.Name):
                    carried.discard(n.id)
        for name in carried:
            body_st.env[name] = ("carried", lid, name)
        carried_fields = {}
        for sub in node.body:
            for n in ast.walk(sub):
                if isinstance(n, ast.Attribute) and isinstance(n.ctx, ast.Store) and isinstance(n.value, ast.Name):
                    base = st.env.get(n.value.id)
                    if base is not None and (base, n.attr) in st.fields:
                        carried_fields[(base, n.attr)] = ("carried", lid, n.value.id + "." + n.attr)
        for k, v in carried_fields.items():
            body_st.fields[k] = v
        # heap lists that the body mutates have an unknown length inside the body
        marked = set()
        for sub in node.body:
            for n in ast.walk(sub):
                if isinstance(n, ast.Call) and isinstance(n.func, ast.Attribute) and n.func.attr in MUTATORS \
                        and isinstance(n.func.value, ast.Name):
                    r = st.env.get(n.func.value.id)
                    ob = st.obj(r) if r is not None else None
                    if ob is not None and ob.get("kind") == "list" and r[1] not in marked:
                        marked.add(r[1])
                        body_st.heap[r[1]]["items"].append(("loopitem", lid, ("carried",)))
        pre_env = dict(body_st.env)
        pre_fields = dict(body_st.fields)
        if isinstance(node, ast.For):
            self._bind_loop_target(node.target, it, lid, body_st)
        outs = self.exec_block(node.body, body_st)
        summary = {"iter": it, "target": norm(node.target) if isinstance(node, ast.For) else None,
                   "outcomes": [], "pre": dict(st.env), "node": node}
        assigned: Dict[str, List[Tuple[list, Term]]] = {}
        fields_assigned: Dict[Tuple[Term, str], List[Tuple[list, Term]]] = {}
        exits = []
        may_break = False
        for o in outs:
            delta = {k: v for k, v in o.state.env.items() if pre_env.get(k) != v}
            for k, v in delta.items():
                assigned.setdefault(k, []).append((list(o.state.conds), v))
            for k, v in o.state.fields.items():
                if pre_fields.get(k) != v:
                    fields_assigned.setdefault(k, []).append((list(o.state.conds), v))
            summary["outcomes"].append({"conds": list(o.state.conds), "effects": list(o.state.effects),
                                        "assign": delta, "exit": o.exit, "heap": o.state.heap})
            if o.exit and o.exit[0] in ("return", "raise"):
                exits.append(o)
            if o.exit and o.exit[0] == "break":
                may_break = True
        summary["assigned"] = assigned
        st.loops[lid] = summary
        # heap lists appended to in the body: record loop-built items
        base_len = {n: len(ob["items"]) + (1 if n in marked else 0) for n, ob in st.heap.items() if ob.get("kind") == "list"}
        for o in outs:
            for n, ob in o.state.heap.items():
                if n in st.heap and ob.get("kind") == "list":
                    new = ob["items"][base_len.get(n, 0):]
                    for v in new:
                        item = ("loopitem", lid, v)
                        if item not in st.heap[n]["items"]:
                            st.heap[n]["items"].append(item)
                elif n not in st.heap:
                    st.heap[n] = _copy_obj(ob)
        st.next_id = max([st.next_id] + [o.state.next_id for o in outs])
        for o in outs:
            for k, v in o.state.loops.items():
                st.loops.setdefault(k, v)
        st.effects.append(("loop", lid))
        n_normal = [o for o in outs if o.exit is None or o.exit[0] == "continue"]
        for k, vals in assigned.items():
            post = ("loopval", lid, k)
            # accumulation  x = x + E  on the only path of the body
            if k in carried and len(outs) == 1 and len(vals) == 1 and not vals[0][0]:
                v = vals[0][1]
                c = ("carried", lid, k)
                if v[0] == "binop" and v[1] == "+" and v[2] == c and not contains(v[3], c):
                    post = self.simplify(("binop", "+", st.env[k], ("foreach", lid, v[3])), st)
                elif v[0] == "fstr" and len(v) > 2 and v[1] == c and not any(contains(x, c) for x in v[2:]):
                    post = self.simplify(("binop", "+", st.env[k], ("foreach", lid, ("fstr",) + v[2:])), st)
            st.env[k] = post
        for k, vals in fields_assigned.items():
            post = ("loopval", lid, show(k[0]) + "." + k[1])
            if k in carried_fields and len(outs) == 1 and len(vals) == 1 and not vals[0][0]:
                v, c = vals[0][1], carried_fields[k]
                if v[0] == "binop" and v[1] == "+" and v[2] == c and not contains(v[3], c):
                    post = self.simplify(("binop", "+", st.fields[k], ("foreach", lid, v[3])), st)
            st.fields[k] = post
            st.effects.append(("store", k[0], k[1], post))
        res: List[Outcome] = []
        # function exits from inside the loop body
        for n, o in enumerate(exits):
            s = st.copy()
            s.conds.append((("loopexit", lid, n), True))
            s.effects.extend(("inloop", lid, e) for e in o.state.effects)
            res.append(Outcome(s, o.exit))
        if node.orelse:
            if may_break:
                s_b = st.copy()
                s_b.conds.append((("loopbreak", lid), True))
                res.append(Outcome(s_b, None))
                st.conds.append((("loopbreak", lid), False))
            res.extend(self.exec_block(node.orelse, st))
        else:
            res.append(Outcome(st, None))
        return res

    def _bind_loop_target(self, target, it: Term, lid: int, st: State) -> None:
        if isinstance(target, ast.Name):
            st.env[target.id] = ("elem", lid, None)
        elif isinstance(target, (ast.Tuple, ast.List)):
            for i, el in enumerate(target.elts):
                if isinstance(el, ast.Name):
                    st.env[el.id] = ("elem", lid, i)
                else:
                    self._bind_loop_target(el, it, lid, st)
        else:
            self.assign(target, ("elem", lid, None), st)

    # ------------------------------------------------------------------
    # assignment
    def assign(self, target, v: Term, st: State) -> None:
        if isinstance(target, ast.Name):
            st.env[target.id] = v
        elif isinstance(target, ast.Attribute):
            base = self.eval(target.value, st)
            o = st.obj(base)
            if o is not None and "fields" in o:
                o["fields"][target.attr] = v
            st.fields[(base, target.attr)] = v
            st.effects.append(("store", base, target.attr, v))
        elif isinstance(target, ast.Subscript):
            base = self.eval(target.value, st)
            if isinstance(target.slice, ast.Slice):
                st.effects.append(("storeslice", base, self._slice_term(target.slice, st), v))
                return
            idx = self.eval(target.slice, st)
            o = st.obj(base)
            if o is not None and o.get("kind") == "list" and is_const(idx) and isinstance(idx[1], int) \
                    and not any(isinstance(x, tuple) and x[0] == "loopitem" for x in o["items"]) \
                    and -len(o["items"]) <= idx[1] < len(o["items"]):
                o["items"][idx[1]] = v
            st.effects.append(("storeidx", base, idx, v))
        elif isinstance(target, (ast.Tuple, ast.List)):
            star = next((i for i, el in enumerate(target.elts) if isinstance(el, ast.Starred)), None)
            n_el = len(target.elts)
            for i, el in enumerate(target.elts):
                if star is None:
                    if v[0] in ("tuple", "list") and len(v) - 1 == n_el:
                        self.assign(el, v[1 + i], st)
                    else:
                        self.assign(el, self.simplify(("sub", v, const(i)), st), st)
                elif i < star:
                    self.assign(el, self.simplify(("sub", v, const(i)), st), st)
                elif i == star:
                    after = n_el - 1 - star
                    hi = const(-after) if after else NONE
                    self.assign(el.value, self.simplify(("slice", v, const(i) if i else NONE, hi, NONE), st), st)
                else:
                    self.assign(el, self.simplify(("sub", v, const(i - n_el)), st), st)
        elif isinstance(target, ast.Starred):
            self.assign(target.value, ("unknown", "starred"), st)
        else:
            raise AnalysisError(f"assignment target not supported: {norm(target)}")

    # ------------------------------------------------------------------
    # conditions
    def branch(self, test: ast.expr, st: State) -> List[Tuple[State, bool, Optional[tuple]]]:
        """Fork `st` on the truth of `test`; BoolOps are forked operand by
        operand (short circuit) so that facts stay atomic.  Returns
        (state, truth, exit) triples; exit is a raise exit when evaluating the
        condition itself raises."""
        if isinstance(test, ast.BoolOp):
            is_and = isinstance(test.op, ast.And)
            res: List[Tuple[State, bool, Optional[tuple]]] = []
            live = [st]
            for i, operand in enumerate(test.values):
                nxt = []
                for s in live:
                    for s2, b, ex in self.branch(operand, s):
                        if ex is not None:
                            res.append((s2, b, ex))
                        elif b == (not is_and):
                            res.append((s2, b, None))       # short circuit
                        else:
                            nxt.append(s2)
                live = nxt
            res.extend((s, is_and, None) for s in live)
            return res
        if isinstance(test, ast.UnaryOp) and isinstance(test.op, ast.Not):
            return [(s, not b, ex) for s, b, ex in self.branch(test.operand, st)]
        if isinstance(test, ast.Compare) and len(test.ops) > 1:
            # a <= b <= c  ==  a <= b and b <= c   (operands here are pure)
            parts = []
            left = test.left
            for op, right in zip(test.ops, test.comparators):
                parts.append(ast.copy_location(ast.Compare(left=left, ops=[op], comparators=[right]), test))
                left = right
            return self.branch(ast.copy_location(ast.BoolOp(op=ast.And(), values=parts), test), st)
        outs = self.eval_forking(test, st)
        res = []
        for s, t, ex in outs:
            if ex:
                res.append((s, False, ex))
                continue
            res.extend((s2, b, None) for s2, b in self.branch_term(t, s))
        return res

    def branch_term(self, t: Term, st: State) -> List[Tuple[State, bool]]:
        d = self.decide(t, st)
        if d is not None:
            return [(st, d)]
        atom, pol = self.canon(t, st)
        s_t, s_f = st, st.copy()
        self.assume(atom, pol, s_t)
        self.assume(atom, not pol, s_f)
        return [(s_t, True), (s_f, False)]

    def assume(self, atom, value: bool, st: State) -> None:
        st.conds.append((atom, value))
        if atom[0] == "lencmp":
            _, x, op, n = atom
            lo, hi = st.len_iv.get(x, (0, None))
            lo, hi = _refine(lo, hi, op, n, value)
            st.len_iv[x] = (lo, hi)
        else:
            st.facts[atom] = value

    def decide(self, t: Term, st: State) -> Optional[bool]:
        t = self.simplify(t, st)
        if is_const(t):
            return bool(t[1])
        if t[0] in ("list", "tuple", "set"):
            return len(t) > 1
        if t[0] == "fstr":
            if any(is_const(x) and x[1] for x in t[1:]):
                return True
        if t[0] == "ref":
            o = st.obj(t)
            if o is not None and o.get("kind") == "list":
                if not o["items"]:
                    return False
                if any(not (isinstance(x, tuple) and x[0] == "loopitem") for x in o["items"]):
                    return True
                return None
            if o is not None and o.get("kind") == "new":
                return True
        if t[0] == "not":
            d = self.decide(t[1], st)
            return None if d is None else not d
        if t[0] == "and":
            ds = [self.decide(x, st) for x in t[1:]]
            if any(d is False for d in ds):
                return False
            if all(d is True for d in ds):
                return True
            return None
        if t[0] == "or":
            ds = [self.decide(x, st) for x in t[1:]]
            if any(d is True for d in ds):
                return True
            if all(d is False for d in ds):
                return False
            return None
        atom, pol = self.canon(t, st)
        if atom[0] == "lencmp":
            _, x, op, n = atom
            lo, hi = self._len_interval(x, st)
            r = _decide_iv(lo, hi, op, n)
            if r is not None:
                return r == pol
            return None
        if atom[0] == "nonempty":
            r = self._nonempty(atom[1], st)
            if r is not None:
                return r == pol
        if atom[0] == "isnone":
            r = self._isnone(atom[1], st)
            if r is not None:
                return r == pol
        if atom[0] == "isinstance":
            r = self._isinstance(atom[1], atom[2], st)
            if r is not None:
                return r == pol
        if atom[0] == "in":
            if atom[1] in st.suffix.get(atom[2], ()):
                return pol
        if atom in st.facts:
            return st.facts[atom] == pol
        return None

    def _len_interval(self, x: Term, st: State):
        if x in st.len_iv:
            return st.len_iv[x]
        return (0, None)

    def _nonempty(self, x: Term, st: State) -> Optional[bool]:
        if st.suffix.get(x):
            return True
        o = st.obj(x)
        if o is not None and o.get("kind") == "list":
            if not o["items"]:
                return False
            if any(not (isinstance(i, tuple) and i[0] == "loopitem") for i in o["items"]):
                return True
        if x[0] in ("list", "tuple"):
            return len(x) > 1
        lo, hi = self._len_interval(x, st)
        if lo >= 1:
            return True
        if hi == 0:
            return False
        f = st.facts.get(("nonempty", x))
        return f

    def _isnone(self, x: Term, st: State) -> Optional[bool]:
        if is_const(x):
            return x[1] is None
        if x[0] in ("ref", "list", "tuple", "fstr", "dict", "set"):
            return False
        if x[0] == "attr" and x[1] == SELF and self.cls and self.repo.find_method(self.cls, x[2]) is not None:
            return False          # a bound method of the class
        return st.facts.get(("isnone", x))

    def _isinstance(self, x: Term, clsname: str, st: State) -> Optional[bool]:
        o = st.obj(x)
        if o is not None and o.get("kind") == "new":
            return self.repo.is_subclass(o["cls"], clsname)
        if is_const(x) and x[1] is None:
            return False
        return st.facts.get(("isinstance", x, clsname))

    def canon(self, t: Term, st: State):
        """Canonical (atom, polarity) for a condition term."""
        pol = True
        while t[0] == "not":
            t = t[1]
            pol = not pol
        if t[0] == "cmp":
            op, a, b = t[1], t[2], t[3]
            # len(x) <op> const
            la, lb = _len_off(a), _len_off(b)
            if la is not None and is_const(b) and isinstance(b[1], int) and not isinstance(b[1], bool) \
                    and op in _CMP_FLIP:
                if la[1] < 0 and _len_arg(a) is not None and _len_arg(a)[0] == "slice":
                    k = -la[1]
                    if (op, b[1]) in ((">", 0), (">=", 1), ("!=", 0)):
                        return ("lencmp", la[0], ">", k), pol
                    if (op, b[1]) in (("<=", 0), ("<", 1), ("==", 0)):
                        return ("lencmp", la[0], ">", k), not pol
                return self._len_atom(la[0], op, b[1] - la[1], pol, st)
            if lb is not None and is_const(a) and isinstance(a[1], int) and not isinstance(a[1], bool) \
                    and op in _CMP_FLIP:
                return self._len_atom(lb[0], _CMP_FLIP[op], a[1] - lb[1], pol, st)
            if op in ("is", "==") and b == NONE:
                return ("isnone", a), pol
            if op in ("isnot", "!=") and b == NONE:
                return ("isnone", a), not pol
            if op in ("is", "==") and a == NONE:
                return ("isnone", b), pol
            if op in ("isnot", "!=") and a == NONE:
                return ("isnone", b), not pol
            if op == "in":
                return ("in", a, b), pol
            if op == "notin":
                return ("in", a, b), not pol
            if op == "!=":
                return ("cmp", "==", a, b), not pol
            if op == "isnot":
                return ("cmp", "is", a, b), not pol
            return t, pol
        if t[0] == "call" and t[1] == glob("isinstance") and len(t[2]) == 2:
            c = t[2][1]
            cname = c[1].split(".")[-1] if c[0] == "global" else show(c)
            return ("isinstance", t[2][0], cname), pol
        # truthiness of a value
        if t[0] == "slice" and is_const(t[2]) and isinstance(t[2][1], int) and t[2][1] >= 0 and t[3] == NONE and t[4] == NONE:
            if t[2][1] == 0:
                return ("nonempty", t[1]), pol
            return ("lencmp", t[1], ">", t[2][1]), pol       # xs[k:] is non-empty iff len(xs) > k
        if self._listlike(t, st) or (t[0] == "comp" and t[1] in ("list", "set")) or t[0] in ("list", "tuple"):
            return ("nonempty", t), pol
        return ("truthy", t), pol

    def _len_atom(self, x: Term, op: str, n: int, pol: bool, st: State):
        # normalise emptiness tests to 'nonempty'
        if (op, n) in ((">", 0), (">=", 1), ("!=", 0)):
            return ("nonempty", x), pol
        if (op, n) in (("<=", 0), ("<", 1), ("==", 0)):
            return ("nonempty", x), not pol
        return ("lencmp", x, op, n), pol

    def _listlike(self, t: Term, st: State) -> bool:
        if t in st.suffix or t in self.list_terms:
            return True
        o = st.obj(t)
        return o is not None and o.get("kind") == "list"

    # ------------------------------------------------------------------
    # expressions
    def eval_forking(self, node: ast.expr, st: State, stmt_pos: bool = False):
        """Evaluate an expression that may be a call to an inlinable function
        with several outcomes.  Returns [(state, value, exit|None)]."""
        if isinstance(node, ast.Call):
            node = self._departial(node, st)
            target = self._resolve_callee(node, st)
            if target is not None:
                fn, cls_name, bound_self, kind = target
                return self._inline(node, fn, cls_name, bound_self, st)
        if isinstance(node, ast.Attribute) and isinstance(node.value, ast.Name) and st.env.get(node.value.id) == SELF and self.cls \
                and self.depth < self.max_depth and (SELF, node.attr) not in st.fields:
            # self.NAME where NAME is a @property: a parameterless method call (its outcomes fork like any inlined call)
            r = self.repo.find_method(self.cls, node.attr)
            if r is not None and any(norm(d) == "property" for d in r[1].decorator_list):
                call = ast.copy_location(ast.Call(func=node, args=[], keywords=[]), node)
                return self._inline(call, r[1], self.cls, SELF, st)
        if isinstance(node, ast.IfExp) and self.fork_ifexp:
            # a conditional expression whose value is stored: fork like an if statement
            res = []
            for s2, b, ex in self.branch(node.test, st):
                if ex is not None:
                    res.append((s2, NONE, ex))
                else:
                    res.extend(self.eval_forking(node.body if b else node.orelse, s2))
            return res
        v = self.eval(node, st, stmt_pos=stmt_pos)
        if st.env.get("__raise__") is not None:
            exc = st.env.pop("__raise__")
            return [(st, v, ("raise", exc))]
        return [(st, v, None)]

    def _inline(self, node: ast.Call, fn: ast.FunctionDef, cls_name: Optional[str], bound_self: Optional[Term],
                st: State):
        if self.depth >= self.max_depth:
            v = self._opaque_call(node, st, stmt_pos=True)
            return [(st, v, None)]
        params = func_params(fn)
        args: Dict[str, Term] = {}
        pos = list(params)
        if bound_self is not None and pos:
            args[pos[0]] = bound_self
            pos = pos[1:]
        i = 0
        for a in node.args:
            if isinstance(a, ast.Starred):
                raise AnalysisError(f"starred argument in inlined call {norm(node)}")
            if i < len(pos):
                args[pos[i]] = self.eval(a, st)
            i += 1
        for kw in node.keywords:
            if kw.arg is None:
                raise AnalysisError(f"**kwargs in inlined call {norm(node)}")
            args[kw.arg] = self.eval(kw.value, st)
        defaults = param_defaults(fn)
        special = ([fn.args.vararg.arg] if fn.args.vararg else []) + ([fn.args.kwarg.arg] if fn.args.kwarg else [])
        missing = [p for p in params if p not in args and p not in defaults and p not in special]
        if missing or (i > len(pos) and not fn.args.vararg):
            what = f"{fn.name}() missing {missing}" if missing else f"{fn.name}() takes {len(pos)} positional arguments but {i} were given"
            st.effects.append(("crash", "TypeError", what))
            exc = ("call", glob("TypeError"), (const(what),), ())
            st.effects.append(("raise", exc))
            return [(st, NONE, ("raise", exc))]
        self.depth += 1
        try:
            outs = self.run_function(fn, args, st, cls=cls_name, closure=id(fn) in getattr(self, "_closures", {}))
        finally:
            self.depth -= 1
        res = []
        for o in outs:
            if o.exit and o.exit[0] == "raise":
                res.append((o.state, NONE, o.exit))
            else:
                res.append((o.state, o.value(), None))
        return res

    def _departial(self, node: ast.Call, st: State) -> ast.Call:
        """`p = functools.partial(self.m, a, k=b)` ... `p(x)` is the call `self.m(a, x, k=b)`: the stored arguments are bound to
        fresh names of the frame and the call is rewritten, so that everything known about method calls applies."""
        f = node.func
        b = st.env.get(f.id) if isinstance(f, ast.Name) else None
        if not (isinstance(b, tuple) and len(b) == 4 and b[0] == "partial"):
            return node
        target, pargs, pkws = b[1], b[2], b[3]
        self_name = next((k for k, v in st.env.items() if v == SELF and not k.startswith("__")), None)
        if not (target[0] == "attr" and target[1] == SELF and self_name):
            return node
        names = []
        for i, a in enumerate(pargs):
            nm = f"__partial_{f.id}_{i}"
            st.env[nm] = a
            names.append(ast.Name(id=nm, ctx=ast.Load()))
        kws = []
        for k, v in pkws:
            nm = f"__partial_{f.id}_{k}"
            st.env[nm] = v
            kws.append(ast.keyword(arg=k, value=ast.Name(id=nm, ctx=ast.Load())))
        call = ast.Call(func=ast.Attribute(value=ast.Name(id=self_name, ctx=ast.Load()), attr=target[2], ctx=ast.Load()),
                        args=names + list(node.args), keywords=kws + list(node.keywords))
        return ast.fix_missing_locations(ast.copy_location(call, node))

    def _resolve_callee(self, node: ast.Call, st: State):
        """(fn, class, bound self, kind) if the call is inlinable."""
        f = node.func
        # self.m(...) / getattr(self, "m")(...)
        if isinstance(f, ast.Attribute):
            base = f.value
            if isinstance(base, ast.Name) and st.env.get(base.id) == SELF and self.cls:
                if f.attr in self.opaque_methods:
                    return None
                r = self.repo.find_method(self.cls, f.attr)
                if r:
                    if any(norm(d) == "staticmethod" for d in r[1].decorator_list):
                        return r[1], self.cls, None, "static"
                    return r[1], self.cls, SELF, "method"
            if isinstance(base, ast.Call) and norm(base.func) == "super" and self.cls:
                mro = self.repo.mro(self.cls)
                # the class in which the current function is defined is unknown here; use MRO[1:]
                for c in mro[1:]:
                    if f.attr in c.methods:
                        return c.methods[f.attr], c.name, SELF, "super"
            if isinstance(base, ast.Name) and self.repo.has_class(base.id) and base.id not in st.env:
                ci = self.repo.cls(base.id)
                if f.attr in ci.methods and f.attr not in self.opaque_methods \
                        and any(norm(d) == "classmethod" for d in ci.methods[f.attr].decorator_list):
                    # Class.factory(...): `cls` is the class
                    return ci.methods[f.attr], base.id, glob(base.id), "classmethod"
                if f.attr in ci.methods and (self.inline_static or base.id == self.cls) and f.attr not in self.opaque_methods:
                    fn = ci.methods[f.attr]
                    is_static = any(norm(d) == "staticmethod" for d in fn.decorator_list)
                    return fn, base.id, None if is_static else None, "static"
            # obj.m(...) on some other object: when exactly one class of the module under evaluation defines a plain method
            # m (and m is not part of an emission API), the call can only mean that method
            if f.attr not in self.opaque_methods and f.attr not in self.effect_methods and not f.attr.startswith("__") \
                    and not (isinstance(base, ast.Name) and (st.env.get(base.id) == SELF or base.id not in st.env)):
                owners = [c for c in self.repo.classes.values() if c.module == self.module and f.attr in c.methods]
                if len(owners) == 1 and not owners[0].methods[f.attr].decorator_list \
                        and not any(isinstance(x, (ast.Yield, ast.YieldFrom)) for x in ast.walk(owners[0].methods[f.attr])) \
                        and f.attr not in ("append", "extend", "insert", "pop", "remove", "get", "items", "keys", "values", "split",
                                           "join", "strip", "lower", "upper", "replace", "startswith", "endswith", "format"):
                    recv = self.eval(base, st)
                    if recv[0] not in ("const", "global", "unknown"):
                        return owners[0].methods[f.attr], owners[0].name, recv, "objmethod"
                    if recv[0] == "global" and "." in recv[1] and recv[1].split(".")[0] == owners[0].name:
                        # <EnumClass>.<MEMBER>.method(): the member is the receiver
                        return owners[0].methods[f.attr], owners[0].name, recv, "objmethod"
        if isinstance(f, ast.Name) and f.id not in st.env and f.id not in self.opaque_methods:
            fn = self._module_function(f.id)
            if fn is not None:
                return fn, self.cls, None, "function"
        if isinstance(f, ast.Name):
            b = st.env.get(f.id)
            if isinstance(b, tuple) and len(b) == 3 and b[0] == "attr" and b[1] == SELF and self.cls and b[2] not in self.opaque_methods:
                r = self.repo.find_method(self.cls, b[2])
                if r and not any(norm(d) in ("staticmethod", "classmethod", "property") for d in r[1].decorator_list):
                    return r[1], self.cls, SELF, "boundmethod"
            if isinstance(b, tuple) and len(b) == 3 and b[0] == "localfunc":
                fn = getattr(self, "_closures", {}).get(b[2])
                if fn is not None and not any(isinstance(x, (ast.Yield, ast.YieldFrom, ast.Nonlocal)) for x in ast.walk(fn)) \
                        and not any(d for d in fn.decorator_list):
                    return fn, self.cls, None, "closure"
        if isinstance(f, ast.Call) and norm(f.func) == "getattr" and len(f.args) >= 2:
            recv = self.eval(f.args[0], st)
            name = self.eval(f.args[1], st)
            if recv == SELF and is_const(name) and isinstance(name[1], str) and self.cls:
                r = self.repo.find_method(self.cls, name[1])
                if r:
                    return r[1], self.cls, SELF, "getattr"
                st.effects.append(("crash", "AttributeError", name[1]))
        return None

    def eval(self, node: ast.expr, st: State, stmt_pos: bool = False) -> Term:
        m = getattr(self, "ex_" + type(node).__name__, None)
        if m is None:
            return ("unknown", norm(node))
        if isinstance(node, ast.Call):
            t = self.ex_Call(node, st, stmt_pos)
        else:
            t = m(node, st)
        return self.simplify(t, st)

    def ex_Constant(self, node, st):
        v = node.value
        if isinstance(v, (bytes,)):
            return ("const", v)
        return ("const", v)

    def ex_Name(self, node, st):
        for fr in (st.frames[-1],):
            if node.id in fr:
                return fr[node.id]
        if node.id in ("True", "False", "None"):
            return const({"True": True, "False": False, "None": None}[node.id])
        mc = self._module_constant(node.id, st)
        if mc is not None:
            return mc
        if node.id in self.imports:
            return glob(node.id)
        if self.repo.has_class(node.id):
            return glob(node.id)
        return glob(node.id)

    def ex_Attribute(self, node, st):
        base = self.eval(node.value, st)
        return self.get_attr(base, node.attr, st)

    def get_attr(self, base: Term, name: str, st: State) -> Term:
        if (base, name) in st.fields:
            return st.fields[(base, name)]
        if name == "text" and ((base[0] == "attr" and base[2] == "symbol") or
                               (base[0] == "call" and base[1][0] == "attr" and base[1][2] == "getSymbol" and not base[2])):
            # <terminal node>.symbol.text is what <terminal node>.getText() returns (antlr4 TerminalNodeImpl)
            node = base[1] if base[0] == "attr" else base[1][1]
            return ("call", ("attr", node, "getText"), (), ())
        o = st.obj(base)
        if o is not None and "fields" in o and name in o["fields"]:
            return o["fields"][name]
        if base[0] == "global":
            return glob(base[1] + "." + name)
        if base == SELF and self.cls:
            v = self._class_constant(self.cls, name, st)
            if v is not None:
                return v
            v = self._property_value(name, st)
            if v is not None:
                return v
        return ("attr", base, name)

    def _is_enum(self, cname: str) -> bool:
        try:
            return self.repo.has_class(cname) and any(b.split(".")[-1] in ("Enum", "IntEnum", "Flag") for b in self.repo.cls(cname).bases)
        except Exception:
            return False

    def _property_value(self, name: str, st: State) -> Optional[Term]:
        """self.NAME where NAME is a read-only @property of the class under evaluation with a single outcome."""
        r = self.repo.find_method(self.cls, name)
        if r is None or not any(norm(d) == "property" for d in r[1].decorator_list) or self.depth >= self.max_depth:
            return None
        self.depth += 1
        try:
            outs = self.run_function(r[1], {func_params(r[1])[0]: SELF}, st.copy(), cls=self.cls)
        except AnalysisError:
            return None
        finally:
            self.depth -= 1
        rets = [o for o in outs if o.kind == "return"]
        if len(outs) == 1 and len(rets) == 1 and not rets[0].effects[len(st.effects):]:
            return rets[0].value()
        return None

    def _class_constant(self, cls: str, name: str, st: State) -> Optional[Term]:
        """self.NAME where NAME is a class-level constant (ClassVar or plain class-body assignment of a literal, never a
        dataclass field or an instance attribute): looked up along the MRO of the class being evaluated, so a subclass
        override is seen by an inherited method."""
        try:
            mro = self.repo.mro(cls)
        except Exception:
            return None
        for c in mro:
            if name in c.class_attrs:
                fi = next((f for f in c.own_fields if f.name == name), None)
                if fi is not None and "ClassVar" not in fi.annotation and any(k.is_dataclass for k in mro):
                    return None          # a dataclass field with a default (per instance once the constructor ran)
                if any(isinstance(n, ast.Attribute) and n.attr == name and isinstance(n.ctx, ast.Store)
                       for k in mro for fn in k.methods.values() for n in ast.walk(fn)):
                    return None          # assigned through an instance somewhere
                e = c.class_attrs[name]
                if _is_literal(e):
                    return self.eval(e, st)
                return None
        return None

    def ex_JoinedStr(self, node, st):
        parts = []
        for v in node.values:
            if isinstance(v, ast.Constant):
                parts.append(const(v.value))
            elif isinstance(v, ast.FormattedValue):
                t = self.eval(v.value, st)
                if v.conversion != -1 or v.format_spec is not None:
                    t = ("fmt", t, v.conversion, norm(v.format_spec) if v.format_spec else None)
                parts.append(t)
        return ("fstr",) + tuple(parts)

    def ex_List(self, node, st):
        items = [self.eval(e, st) for e in node.elts]
        if any(isinstance(e, ast.Starred) for e in node.elts):
            return ("list",) + tuple(items)
        # list displays are mutable: allocate
        return st.alloc({"kind": "list", "items": items})

    def ex_Tuple(self, node, st):
        return ("tuple",) + tuple(self.eval(e, st) for e in node.elts)

    def ex_Set(self, node, st):
        return ("set",) + tuple(self.eval(e, st) for e in node.elts)

    def ex_Dict(self, node, st):
        return ("dict",) + tuple((self.eval(k, st) if k is not None else ("unknown", "**"), self.eval(v, st))
                                 for k, v in zip(node.keys, node.values))

    def ex_Starred(self, node, st):
        return ("starred", self.eval(node.value, st))

    def ex_Subscript(self, node, st):
        base = self.eval(node.value, st)
        if isinstance(node.slice, ast.Slice):
            lo, hi, step = self._slice_term(node.slice, st)
            return ("slice", base, lo, hi, step)
        idx = self.eval(node.slice, st)
        o = st.obj(base)
        if o is not None and o.get("kind") == "list" and not o.get("sio") and is_const(idx) and isinstance(idx[1], int) \
                and not any(isinstance(x, tuple) and x and x[0] in ("loopitem", "spread") for x in o["items"]) \
                and not (-len(o["items"]) <= idx[1] < len(o["items"])) and not st.suffix.get(base):
            # an index outside a list whose elements are all known: IndexError
            st.effects.append(("crash", "IndexError", f"{norm(node)} on a list of {len(o['items'])} element(s)"))
            st.env["__raise__"] = ("call", glob("IndexError"), (const("list index out of range"),), ())
            return NONE
        return ("sub", base, idx)

    def _slice_term(self, sl: ast.Slice, st: State):
        return (self.eval(sl.lower, st) if sl.lower else NONE,
                self.eval(sl.upper, st) if sl.upper else NONE,
                self.eval(sl.step, st) if sl.step else NONE)

    def ex_BinOp(self, node, st):
        return ("binop", _OPS.get(type(node.op).__name__, type(node.op).__name__),
                self.eval(node.left, st), self.eval(node.right, st))

    def ex_UnaryOp(self, node, st):
        if isinstance(node.op, ast.Not):
            return ("not", self.eval(node.operand, st))
        v = self.eval(node.operand, st)
        if isinstance(node.op, ast.USub) and is_const(v) and isinstance(v[1], (int, float)):
            return const(-v[1])
        return ("unop", type(node.op).__name__, v)

    def ex_BoolOp(self, node, st):
        k = "and" if isinstance(node.op, ast.And) else "or"
        return (k,) + tuple(self.eval(v, st) for v in node.values)

    def ex_Compare(self, node, st):
        left = self.eval(node.left, st)
        parts = []
        for op, right in zip(node.ops, node.comparators):
            r = self.eval(right, st)
            parts.append(("cmp", _CMPS[type(op).__name__], left, r))
            left = r
        return parts[0] if len(parts) == 1 else ("and",) + tuple(parts)

    def ex_IfExp(self, node, st):
        c = self.eval(node.test, st)
        d = self.decide(c, st)
        if d is True:
            return self.eval(node.body, st)
        if d is False:
            return self.eval(node.orelse, st)
        # evaluate both arms under the respective assumption, without forking the path
        s1 = st.copy()
        atom, pol = self.canon(c, st)
        self.assume(atom, pol, s1)
        a = self.eval(node.body, s1)
        s2 = st.copy()
        s2.next_id = max(s2.next_id, s1.next_id)      # objects allocated in the two arms must not share ids
        self.assume(atom, not pol, s2)
        b = self.eval(node.orelse, s2)
        st.next_id = max(st.next_id, s1.next_id, s2.next_id)
        for s in (s1, s2):
            for n, ob in s.heap.items():
                st.heap.setdefault(n, ob)
        return ("ifexp", c, a, b)

    def ex_Lambda(self, node, st):
        return ("lambda", norm(node))

    def ex_NamedExpr(self, node, st):
        v = self.eval(node.value, st)
        self.assign(node.target, v, st)
        return v

    def _comp(self, kind, node, st):
        sub = st.copy()
        gens = []
        for g in node.generators:
            it = self.eval(g.iter, sub)
            names = [n.id for n in ast.walk(g.target) if isinstance(n, ast.Name)]
            if isinstance(g.target, ast.Name):
                sub.env[g.target.id] = ("bv", g.target.id)
            else:
                for n in names:
                    sub.env[n] = ("bv", n)
            conds = tuple(self.eval(c, sub) for c in g.ifs)
            gens.append((norm(g.target), it, conds))
        if kind == "dict":
            elt = ("tuple", self.eval(node.key, sub), self.eval(node.value, sub))
        else:
            elt = self.eval(node.elt, sub)
        st.next_id = max(st.next_id, sub.next_id)
        for n, ob in sub.heap.items():
            st.heap.setdefault(n, ob)
        return ("comp", kind, elt, tuple(gens))

    def ex_ListComp(self, node, st):
        return self._comp("list", node, st)

    def ex_GeneratorExp(self, node, st):
        return self._comp("gen", node, st)

    def ex_SetComp(self, node, st):
        return self._comp("set", node, st)

    def ex_DictComp(self, node, st):
        return self._comp("dict", node, st)

    # ------------------------------------------------------------------
    # calls
    def ex_Call(self, node: ast.Call, st: State, stmt_pos: bool = False) -> Term:
        pre = st.env.get("__pre__%d" % id(node))
        if pre is not None:
            return pre
        node = self._departial(node, st)
        f = node.func
        # inlinable with a single outcome, in expression position
        target = self._resolve_callee(node, st)
        if target is not None:
            outs = self._inline(node, target[0], target[1], target[2], st.copy())
            normal = [o for o in outs if o[2] is None]
            if len(outs) == 1 and len(normal) == 1:
                s2 = normal[0][0]
                _adopt(st, s2)
                return normal[0][1]
            st.notes.append(f"call with {len(outs)} outcomes kept opaque: {norm(node)[:60]}")
            return self._opaque_call(node, st, stmt_pos)
        # method calls on lists
        if isinstance(f, ast.Attribute):
            recv = self.eval(f.value, st)
            args = [self.eval(a, st) for a in node.args]
            kws = {k.arg: self.eval(k.value, st) for k in node.keywords if k.arg}
            r = self._list_method(recv, f.attr, args, kws, st, node)
            if r is not None:
                return r
            fn_t = self.get_attr(recv, f.attr, st)
            if fn_t[0] == "global":
                return self._global_call(fn_t[1], args, kws, st, stmt_pos, node)
            t = ("call", ("attr", recv, f.attr), tuple(args), tuple(sorted(kws.items())))
            if f.attr in self.effect_methods:
                # emission API: every call is an ordered effect and yields a distinct object
                n = st.new_id()
                t = ("emit", n, ("attr", recv, f.attr), tuple(args), tuple(sorted(kws.items())))
                st.effects.append(("emit", t))
                return t
            if stmt_pos or f.attr in MUTATORS:
                st.effects.append(("call", t))
            return t
        if isinstance(f, ast.Name):
            args = [self.eval(a, st) for a in node.args]
            kws = {k.arg: self.eval(k.value, st) for k in node.keywords if k.arg}
            bound = st.env.get(f.id)
            if bound is not None and bound[0] != "global":
                t = ("call", bound, tuple(args), tuple(sorted(kws.items())))
                if stmt_pos:
                    st.effects.append(("call", t))
                return t
            name = bound[1] if bound is not None else f.id
            return self._global_call(name, args, kws, st, stmt_pos, node)
        return self._opaque_call(node, st, stmt_pos)

    def _opaque_call(self, node: ast.Call, st: State, stmt_pos: bool) -> Term:
        fn_t = self.eval(node.func, st)
        args = tuple(self.eval(a, st) for a in node.args)
        kws = tuple(sorted((k.arg or "**", self.eval(k.value, st)) for k in node.keywords))
        t = ("call", fn_t, args, kws)
        if stmt_pos:
            st.effects.append(("call", t))
        return t

    def _global_call(self, name: str, args, kws, st: State, stmt_pos: bool, node) -> Term:
        short = name.split(".")[-1]
        if name in ("exit", "sys.exit", "os._exit", "quit"):
            st.effects.append(("exit", args[0] if args else NONE))
            st.env["__raise__"] = ("call", glob("SystemExit"), tuple(args), ())
            return NONE
        # constructors of repo classes
        if self.repo.has_class(short) and (name == short or name.endswith("." + short)):
            return self._construct(short, list(args), dict(kws), st, node)
        if name in ("StringIO", "io.StringIO") and not args and not kws:
            # a text buffer is an ordered list of written pieces; getvalue() is their concatenation
            return st.alloc({"kind": "list", "items": [], "sio": True})
        if name == "getattr" and len(args) >= 2 and is_const(args[1]):
            if len(args) == 3 and args[0] == SELF and self.cls and isinstance(args[1][1], str) \
                    and self.repo.find_method(self.cls, args[1][1]) is None and args[1][1] not in self._instance_attrs(self.cls) \
                    and self._class_constant(self.cls, args[1][1], st) is None:
                return args[2]            # getattr(self, "no_such_name", default)
            return self.get_attr(args[0], args[1][1], st)
        if name == "next" and len(args) == 2 and args[0][0] == "call" and args[0][1] == glob("iter") and len(args[0][2]) == 1:
            # next(iter(xs), d): the first element if there is one, else d
            xs = args[0][2][0]
            c = ("cmp", ">", ("call", glob("len"), (xs,), ()), const(0))
            d = self.decide(c, st)
            first = self.simplify(("sub", xs, const(0)), st)
            if d is True:
                return first
            if d is False:
                return args[1]
            return ("ifexp", c, first, args[1])
        if name in ("functools.partial", "partial") and args and args[0][0] == "attr" and args[0][1] == SELF:
            return ("partial", args[0], tuple(args[1:]), tuple(sorted(kws.items())))
        if name == "vars" and len(args) == 1:
            return ("attr", args[0], "__dict__")
        if name == "len" and len(args) == 1:
            return ("call", glob("len"), (args[0],), ())
        if name in ("list", "tuple") and len(args) == 1 and args[0][0] == "comp" and False:
            return args[0]
        t = ("call", glob(name), tuple(args), tuple(sorted(kws.items())))
        if stmt_pos:
            st.effects.append(("call", t))
        return t

    def _construct(self, cname: str, args: List[Term], kws: Dict[str, Term], st: State, node) -> Term:
        ci = self.repo.cls(cname)
        fields: Dict[str, Term] = {}
        if ci.is_dataclass or any(c.is_dataclass for c in self.repo.mro(cname)):
            flds = self.repo.dataclass_fields(cname)
            if len(args) > len(flds):
                st.effects.append(("crash", "TypeError", f"{cname}() takes {len(flds)} positional arguments"))
            for fi, a in zip(flds, args):
                fields[fi.name] = a
            for k, v in kws.items():
                fields[k] = v
            for fi in flds:
                if fi.name not in fields:
                    if fi.default is None:
                        st.effects.append(("crash", "TypeError", f"{cname}() missing argument {fi.name}"))
                        fields[fi.name] = ("unknown", "missing")
                    else:
                        fields[fi.name] = self._field_default(fi.default, st)
            ref = st.alloc({"kind": "new", "cls": cname, "fields": fields, "site": norm(node) if node else cname})
            st.effects.append(("new", ref, cname))
            return ref
        init = self.repo.find_method(cname, "__init__")
        ref = st.alloc({"kind": "new", "cls": cname, "fields": fields, "args": list(args), "kwargs": dict(kws),
                        "site": norm(node) if node else cname})
        st.effects.append(("new", ref, cname))
        if init is not None and cname in self.inline_ctors and self.depth < self.max_depth:
            fn = init[1]
            params = func_params(fn)
            binding: Dict[str, Term] = {params[0]: ref}
            rest = params[1:]
            va = fn.args.vararg.arg if fn.args.vararg else None
            plain = [p for p in rest if p != va and p not in [a.arg for a in fn.args.kwonlyargs]]
            extra = []
            for i, a in enumerate(args):
                if i < len(plain):
                    binding[plain[i]] = a
                else:
                    extra.append(a)
            if va:
                binding[va] = ("tuple",) + tuple(extra)
            binding.update(kws)
            self.depth += 1
            try:
                outs = self.run_function(fn, binding, st, cls=init[0].name)
            finally:
                self.depth -= 1
            normal = [o for o in outs if not (o.exit and o.exit[0] == "raise")]
            if len(normal) == 1:
                _adopt(st, normal[0].state)
            elif normal:
                st.notes.append(f"constructor {cname} has {len(normal)} outcomes; first adopted")
                _adopt(st, normal[0].state)
        return ref

    def _field_default(self, d: ast.expr, st: State) -> Term:
        if isinstance(d, ast.Call) and norm(d.func).split(".")[-1] == "field":
            for kw in d.keywords:
                if kw.arg == "default":
                    return self.eval(kw.value, st)
                if kw.arg == "default_factory":
                    if isinstance(kw.value, ast.Lambda):
                        return self.eval(kw.value.body, st)
                    if isinstance(kw.value, ast.Name) and kw.value.id in ("list", "dict", "set"):
                        return st.alloc({"kind": "list", "items": []}) if kw.value.id == "list" else ("dict",)
                    return ("call", self.eval(kw.value, st), (), ())
            return ("unknown", "field()")
        return self.eval(d, st)

    # ------------------------------------------------------------------
    # abstract lists
    def _is_tracked_list(self, recv: Term, st: State) -> bool:
        if recv in st.suffix:
            return True
        o = st.obj(recv)
        if o is not None:
            return o.get("kind") == "list"
        return False

    def _list_method(self, recv: Term, name: str, args, kws, st: State, node) -> Optional[Term]:
        o = st.obj(recv)
        concrete = o is not None and o.get("kind") == "list"
        if o is not None and not concrete:
            return None
        if is_const(recv) or recv[0] in ("fstr", "global"):
            return None
        if concrete and o.get("sio"):
            if name == "write" and len(args) == 1:
                o["items"].append(args[0])
                st.effects.append(("push", recv, args[0]))
                return NONE
            if name == "getvalue" and not args:
                return ("call", ("attr", const(""), "join"), (recv,), ())
            if name in ("close", "flush"):
                return NONE
            return None
        if name in ("append", "add") and len(args) == 1 and (name == "append" or not concrete):
            if concrete:
                o["items"].append(args[0])
            else:
                st.suffix.setdefault(recv, []).append(args[0])
            st.effects.append(("push", recv, args[0]))
            return NONE
        if name == "pop" and (not args or args[0] == const(-1)) and not kws:
            return self._list_pop(recv, st)
        if name == "pop" and len(args) == 1:
            st.effects.append(("popidx", recv, args[0]))
            return ("call", ("attr", recv, "pop"), tuple(args), ())
        if name == "insert" and len(args) == 2:
            if concrete and is_const(args[0]) and args[0][1] == 0:
                o["items"].insert(0, args[1])
            st.effects.append(("insert", recv, args[0], args[1]))
            return NONE
        if name == "extend" and len(args) == 1:
            self._list_extend(recv, args[0], st)
            return NONE
        if name == "remove" and len(args) == 1:
            st.effects.append(("remove", recv, args[0]))
            return NONE
        if name in ("clear", "sort", "reverse"):
            st.effects.append(("mutcall", recv, name, tuple(args)))
            return NONE
        return None

    def _list_pop(self, recv: Term, st: State) -> Term:
        o = st.obj(recv)
        if o is not None and o.get("kind") == "list":
            if o["items"] and not (isinstance(o["items"][-1], tuple) and o["items"][-1][0] == "loopitem"):
                v = o["items"].pop()
            else:
                v = ("unknown", "pop of loop-built list")
            st.effects.append(("pop", recv, v))
            return v
        suf = st.suffix.setdefault(recv, [])
        if suf:
            v = suf.pop()
        else:
            depth = st.popped.get(recv, 0)
            v = ("top", recv) if depth == 0 else ("below", recv, depth)
            st.popped[recv] = depth + 1
        st.effects.append(("pop", recv, v))
        return v

    def _list_extend(self, recv: Term, val: Term, st: State) -> None:
        o = st.obj(recv)
        if o is not None and o.get("kind") == "list":
            vo = st.obj(val)
            if vo is not None and vo.get("kind") == "list":
                o["items"].extend(vo["items"])
            elif val[0] in ("list", "tuple"):
                o["items"].extend(val[1:])
            else:
                o["items"].append(("spread", val))
        st.effects.append(("extend", recv, val))

    # ------------------------------------------------------------------
    # simplification
    def simplify(self, t: Term, st: State) -> Term:
        if not isinstance(t, tuple) or not t:
            return t
        k = t[0]
        if k == "fstr":
            parts: List[Term] = []
            for p in t[1:]:
                if p[0] == "fstr":
                    sub = list(p[1:])
                else:
                    sub = [p]
                for q in sub:
                    if is_const(q) and not isinstance(q[1], (bytes,)) and parts and is_const(parts[-1]):
                        parts[-1] = const(_fmt(parts[-1][1]) + _fmt(q[1]))
                    elif is_const(q):
                        parts.append(const(_fmt(q[1])))
                    else:
                        parts.append(q)
            if len(parts) == 1 and is_const(parts[0]):
                t = parts[0]
            elif not parts:
                t = const("")
            else:
                t = ("fstr",) + tuple(parts)
        elif k == "cmp":
            a, b = t[2], t[3]
            if is_const(a) and is_const(b):
                try:
                    t = const(_CMP_EVAL[t[1]](a[1], b[1]))
                except Exception:
                    pass
            elif t[1] in ("in", "notin") and is_const(a) and b[0] in ("tuple", "list", "set") \
                    and all(is_const(x) for x in b[1:]):
                r = a[1] in [x[1] for x in b[1:]]
                t = const(r if t[1] == "in" else not r)
            elif t[1] in ("in", "notin") and is_const(a) and isinstance(a[1], str) and b[0] == "call" \
                    and b[1] == glob("dir") and b[2] == (SELF,) and self.cls:
                r = a[1] in self.repo.all_methods(self.cls) or a[1] in self._instance_attrs(self.cls)
                t = const(r if t[1] == "in" else not r)
            elif t[1] in ("in", "notin") and is_const(a) and st.obj(b) is not None and st.obj(b).get("kind") == "list" \
                    and all(is_const(x) for x in st.obj(b)["items"]):
                r = a[1] in [x[1] for x in st.obj(b)["items"]]
                t = const(r if t[1] == "in" else not r)
            elif t[1] in ("is", "isnot", "==", "!=") and b == NONE:
                r = self._isnone(a, st)
                if r is not None:
                    t = const(r if t[1] in ("is", "==") else not r)
            elif t[1] in ("is", "isnot", "==", "!=") and a[0] == "global" and b[0] == "global" and "." in a[1] and "." in b[1] \
                    and a[1].split(".")[0] == b[1].split(".")[0] and self._is_enum(a[1].split(".")[0]):
                # two members of one Enum: the same member or different ones
                r = a[1] == b[1]
                t = const(r if t[1] in ("is", "==") else not r)
        elif k == "binop":
            a, b = t[2], t[3]
            if is_const(a) and is_const(b):
                try:
                    t = const(_BIN_EVAL[t[1]](a[1], b[1]))
                except Exception:
                    pass
            elif t[1] == "+" and a == const("") and b[0] in ("foreach", "fstr", "binop"):
                t = b
            elif t[1] == "+" and a[0] == "fstr" or (t[1] == "+" and b[0] == "fstr"):
                if (is_const(a) and isinstance(a[1], str)) or a[0] == "fstr":
                    if (is_const(b) and isinstance(b[1], str)) or b[0] == "fstr":
                        t = self.simplify(("fstr", a, b), st)
        elif k == "not":
            if is_const(t[1]):
                t = const(not t[1][1])
            elif t[1][0] == "not":
                pass
        elif k in ("and", "or"):
            vals = []
            for x in t[1:]:
                d = x[1] if is_const(x) else None
                if is_const(x):
                    if k == "and" and not d:
                        return x if not vals else (k,) + tuple(vals) + (x,)
                    if k == "or" and d:
                        return x if not vals else (k,) + tuple(vals) + (x,)
                    continue
                vals.append(x)
            if not vals:
                t = t[-1]
            elif len(vals) == 1 and all(is_const(x) for x in t[1:] if x is not vals[0]) and t[-1] is vals[0]:
                t = vals[0]
            else:
                t = (k,) + tuple(vals) if len(vals) > 1 else t
        elif k == "sub":
            base, idx = t[1], t[2]
            o = st.obj(base)
            if o is not None and o.get("kind") == "new" and is_const(idx) and isinstance(idx[1], int) \
                    and self.repo.has_class(o["cls"]) and self.repo.cls(o["cls"]).is_namedtuple:
                flds = self.repo.dataclass_fields(o["cls"])
                if -len(flds) <= idx[1] < len(flds):
                    return o["fields"].get(flds[idx[1]].name, t)
            if is_const(idx) and isinstance(idx[1], int):
                items = None
                if o is not None and o.get("kind") == "list":
                    items = o["items"]
                elif base[0] in ("list", "tuple"):
                    items = list(base[1:])
                if items is not None and not any(isinstance(x, tuple) and x[0] in ("loopitem", "spread", "starred") for x in items):
                    if -len(items) <= idx[1] < len(items):
                        return items[idx[1]]
                if is_const(base) and isinstance(base[1], (str, tuple)):
                    try:
                        return const(base[1][idx[1]])
                    except Exception:
                        pass
                if idx[1] == -1 and items is None and not is_const(base):
                    suf = st.suffix.get(base)
                    if suf:
                        return suf[-1]
                    if base in st.suffix or base[0] == "attr":
                        depth = st.popped.get(base, 0)
                        return ("top", base) if depth == 0 else ("below", base, depth)
            if base[0] == "dict" and is_const(idx):
                for kv in base[1:]:
                    if kv[0] == idx:
                        return kv[1]
                if all(is_const(kv[0]) for kv in base[1:]):
                    st.effects.append(("crash", "KeyError", idx[1]))
                    st.env["__raise__"] = ("call", glob("KeyError"), (idx,), ())
                    return ("unknown", f"KeyError({idx[1]})")
            # xs[len(xs) - 1]  ==  xs[-1]
            if idx[0] == "binop" and idx[1] == "-" and idx[3] == const(1) and _len_arg(idx[2]) == base:
                return self.simplify(("sub", base, const(-1)), st)
            if base[0] == "attr" and base[2] == "__dict__" and is_const(idx) and isinstance(idx[1], str):
                return self._dict_field(base[1], idx[1], st)
        elif k == "call":
            t = self._simplify_call(t, st)
        elif k == "comp":
            # [x for x in xs]  is a copy of xs; for read-only reasoning it is xs
            if t[1] == "list" and len(t[3]) == 1 and not t[3][0][2] and t[2] == ("bv", t[3][0][0]):
                t = t[3][0][1]
        if self.rewrite is not None:
            r = self.rewrite(t)
            if r is not None:
                t = r
        return t

    def _instance_attrs(self, cls: str) -> set:
        out = set()
        for c in self.repo.mro(cls):
            init = c.methods.get("__init__")
            if init:
                for n in ast.walk(init):
                    if isinstance(n, ast.Attribute) and isinstance(n.value, ast.Name) and n.value.id == "self" \
                            and isinstance(n.ctx, ast.Store):
                        out.add(n.attr)
            out.update(c.class_attrs)
        return out

    def _dict_field(self, owner: Term, key: str, st: State) -> Term:
        """obj.__dict__["key"]: resolved against the dataclass that the owner
        term denotes when that is known (settings.input -> InputSettings)."""
        cls = self._settings_class(owner)
        if cls is not None:
            names = [f.name for f in self.repo.dataclass_fields(cls)]
            if key not in names:
                st.effects.append(("crash", "KeyError", key))
                st.env["__raise__"] = ("call", glob("KeyError"), (const(key),), ())
                return ("unknown", f"KeyError({key})")
        return self.get_attr(owner, key, st)

    def _settings_class(self, owner: Term) -> Optional[str]:
        if owner[0] == "attr" and owner[1][0] == "attr" and owner[1][2] == "settings" or \
                (owner[0] == "attr" and owner[1] == ("sym", "settings")):
            if self.repo.has_class("Settings"):
                for f in self.repo.dataclass_fields("Settings"):
                    if f.name == owner[2]:
                        ann = f.annotation.strip("'\"")
                        if self.repo.has_class(ann):
                            return ann
        return None

    def _simplify_call(self, t: Term, st: State) -> Term:
        fn, args, kws = t[1], t[2], t[3]
        if fn[0] == "attr" and is_const(fn[1]) and isinstance(fn[1][1], str) and fn[2] in PURE_STR \
                and all(is_const(a) for a in args) and not kws:
            try:
                r = getattr(fn[1][1], fn[2])(*[a[1] for a in args])
                if isinstance(r, list):
                    return ("list",) + tuple(const(x) for x in r)
                return const(r)
            except Exception:
                return t
        if fn[0] == "attr" and fn[2] == "join" and is_const(fn[1]) and len(args) == 1 and args[0][0] == "ifexp":
            # sep.join(A if c else B)  ==  sep.join(A) if c else sep.join(B)
            c, a1, a2 = args[0][1], args[0][2], args[0][3]
            return ("ifexp", c, self._simplify_call(("call", fn, (a1,), ()), st), self._simplify_call(("call", fn, (a2,), ()), st))
        if fn[0] == "attr" and fn[2] == "join" and is_const(fn[1]) and len(args) == 1:
            a = args[0]
            items = None
            o = st.obj(a)
            if o is not None and o.get("kind") == "list":
                items = o["items"]
            elif a[0] in ("list", "tuple"):
                items = list(a[1:])
            if items is not None and all(is_const(x) and isinstance(x[1], str) for x in items):
                return const(fn[1][1].join(x[1] for x in items))
        if fn[0] == "attr" and fn[2] == "get" and fn[1][0] == "dict" and args and is_const(args[0]) \
                and all(is_const(kv[0]) for kv in fn[1][1:]):
            for kv in fn[1][1:]:
                if kv[0] == args[0]:
                    return kv[1]
            return args[1] if len(args) > 1 else NONE
        if fn == glob("len") and len(args) == 1:
            a = args[0]
            o = st.obj(a)
            if o is not None and o.get("kind") == "list" and \
                    not any(isinstance(x, tuple) and x[0] in ("loopitem", "spread") for x in o["items"]):
                return const(len(o["items"]))
            if a[0] in ("list", "tuple") and not any(x[0] == "starred" for x in a[1:]):
                return const(len(a) - 1)
            if is_const(a) and isinstance(a[1], (str, tuple)):
                return const(len(a[1]))
        if fn == glob("str") and len(args) == 1 and is_const(args[0]):
            return const(str(args[0][1]))
        if fn == glob("isinstance") and len(args) == 2 and args[1][0] == "global":
            r = self._isinstance(args[0], args[1][1].split(".")[-1], st)
            if r is not None:
                return const(r)
        return t


def _is_literal(e: ast.expr) -> bool:
    """Displays of constants, enum-member style attribute references and nested tuples/lists/dicts of those."""
    if isinstance(e, ast.Constant):
        return True
    if isinstance(e, ast.Attribute) and isinstance(e.value, ast.Name):
        return True
    if isinstance(e, (ast.Tuple, ast.List, ast.Set)):
        return all(_is_literal(x) for x in e.elts)
    if isinstance(e, ast.Dict):
        return all(k is not None and _is_literal(k) and _is_literal(v) for k, v in zip(e.keys, e.values))
    if isinstance(e, ast.UnaryOp) and isinstance(e.operand, ast.Constant):
        return True
    if isinstance(e, ast.JoinedStr):
        return all(isinstance(v, ast.Constant) for v in e.values)
    return False


def _adopt(dst: State, src: State) -> None:
    dst.frames = src.frames
    dst.fields = src.fields
    dst.heap = src.heap
    dst.suffix = src.suffix
    dst.popped = src.popped
    dst.effects = src.effects
    dst.conds = src.conds
    dst.facts = src.facts
    dst.len_iv = src.len_iv
    dst.loops = src.loops
    dst.next_id = src.next_id
    dst.notes = src.notes


def _fmt(v) -> str:
    return v if isinstance(v, str) else str(v)


def _len_arg(t: Term) -> Optional[Term]:
    if t[0] == "call" and t[1] == glob("len") and len(t[2]) == 1:
        return t[2][0]
    return None


def _len_off(t: Term):
    """(x, k) if t is len(x) + k for a constant k (k may be 0)."""
    x = _len_arg(t)
    if x is not None:
        # len(xs[k:]) == len(xs) - k  (for the comparisons made here: emptiness, or against positive constants)
        if x[0] == "slice" and is_const(x[2]) and isinstance(x[2][1], int) and x[2][1] >= 0 and x[3] == NONE and x[4] == NONE:
            return x[1], -x[2][1]
        return x, 0
    if t[0] == "binop" and t[1] in ("+", "-") and is_const(t[3]) and isinstance(t[3][1], int) \
            and not isinstance(t[3][1], bool):
        r = _len_off(t[2])
        if r is not None:
            return r[0], r[1] + (t[3][1] if t[1] == "+" else -t[3][1])
    if t[0] == "binop" and t[1] == "+" and is_const(t[2]) and isinstance(t[2][1], int) \
            and not isinstance(t[2][1], bool):
        r = _len_off(t[3])
        if r is not None:
            return r[0], r[1] + t[2][1]
    return None


_OPS = {"Add": "+", "Sub": "-", "Mult": "*", "Div": "/", "Mod": "%", "FloorDiv": "//", "BitOr": "|",
        "BitAnd": "&", "Pow": "**", "LShift": "<<", "RShift": ">>", "BitXor": "^", "MatMult": "@"}
_CMPS = {"Eq": "==", "NotEq": "!=", "Lt": "<", "LtE": "<=", "Gt": ">", "GtE": ">=", "Is": "is", "IsNot": "isnot",
         "In": "in", "NotIn": "notin"}
_CMP_FLIP = {"<": ">", ">": "<", "<=": ">=", ">=": "<=", "==": "==", "!=": "!="}
_CMP_EVAL = {"==": lambda a, b: a == b, "!=": lambda a, b: a != b, "<": lambda a, b: a < b,
             "<=": lambda a, b: a <= b, ">": lambda a, b: a > b, ">=": lambda a, b: a >= b,
             "is": lambda a, b: a is b or (a == b and type(a) is type(b) and a is None),
             "isnot": lambda a, b: not (a is b), "in": lambda a, b: a in b, "notin": lambda a, b: a not in b}
_BIN_EVAL = {"+": lambda a, b: a + b, "-": lambda a, b: a - b, "*": lambda a, b: a * b,
             "%": lambda a, b: a % b, "//": lambda a, b: a // b}


def _refine(lo: int, hi: Optional[int], op: str, n: int, value: bool):
    """Refine interval [lo,hi] of a length under (len op n) == value."""
    if not value:
        op = {"<": ">=", "<=": ">", ">": "<=", ">=": "<", "==": "!=", "!=": "=="}[op]
    if op == "<":
        hi = n - 1 if hi is None else min(hi, n - 1)
    elif op == "<=":
        hi = n if hi is None else min(hi, n)
    elif op == ">":
        lo = max(lo, n + 1)
    elif op == ">=":
        lo = max(lo, n)
    elif op == "==":
        lo, hi = max(lo, n), (n if hi is None else min(hi, n))
    elif op == "!=":
        if lo == n:
            lo = n + 1
        if hi == n:
            hi = n - 1
    return lo, hi


def _decide_iv(lo: int, hi: Optional[int], op: str, n: int) -> Optional[bool]:
    INF = 10 ** 9
    h = INF if hi is None else hi
    if op == "<":
        return True if h < n else (False if lo >= n else None)
    if op == "<=":
        return True if h <= n else (False if lo > n else None)
    if op == ">":
        return True if lo > n else (False if h <= n else None)
    if op == ">=":
        return True if lo >= n else (False if h < n else None)
    if op == "==":
        return True if lo == h == n else (False if n < lo or n > h else None)
    if op == "!=":
        return False if lo == h == n else (True if n < lo or n > h else None)
    return None

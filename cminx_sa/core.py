"""Reporting plumbing shared by every rule: instances, verdicts, evidence,
known findings, exit codes.

Exit codes (DESIGN §1): 0 = every rule instance holds (known findings are
printed, not counted); 1 = a recognised construct contradicts a rule
(``VIOLATION property=<id> replay=<path>``); 2 = the analysis itself could not
interpret a decisive construct or an anchor vanished (``ANALYSIS-ERROR``).
"""
from __future__ import annotations

import json
import os
import time
from dataclasses import dataclass, field
from typing import Any, Dict, List, Optional

VERIF_DIR = os.path.dirname(os.path.dirname(os.path.abspath(__file__)))
EVIDENCE_DIR = os.environ.get("CMINX_SA_EVIDENCE_DIR") or os.path.join(VERIF_DIR, "evidence")
REPLAY_DIR = os.path.join(EVIDENCE_DIR, "replay")
KNOWN_FILE = os.path.join(VERIF_DIR, "known_findings.json")

OK, VIOLATION, NOTE = "ok", "violation", "note"


class AnalysisError(Exception):
    """An anchor vanished or a decisive construct has a shape that the rule
    cannot interpret.  Never a pass, never a violation."""


@dataclass
class Instance:
    """One evaluated rule instance."""
    rule: str                    # e.g. "C01-R3"
    where: str                   # module:qualname (or file for non-Python)
    construct: str               # normalised text of the construct / abstract case
    verdict: str = OK            # ok | violation | note
    message: str = ""
    witness: Optional[str] = None
    key: Optional[str] = None    # stable key for known findings; default below
    extra: Dict[str, Any] = field(default_factory=dict)

    def stable_key(self) -> str:
        return self.key if self.key is not None else f"{self.rule}|{self.where}|{self.construct}"

    def as_json(self) -> Dict[str, Any]:
        d = {"rule": self.rule, "where": self.where, "construct": self.construct,
             "verdict": self.verdict}
        if self.message:
            d["message"] = self.message
        if self.witness:
            d["witness"] = self.witness
        if self.extra:
            d["extra"] = self.extra
        return d


class Report:
    """Collects the instances of all rules of one property for one run."""

    def __init__(self, prop: str, tier: str, repo: str):
        self.prop = prop
        self.tier = tier
        self.repo = repo
        self.instances: List[Instance] = []
        self.floors: Dict[str, tuple] = {}
        self.assumptions: List[str] = []
        self.units: List[str] = []
        self.rules_run: Dict[str, str] = {}
        self.extra_cov: Dict[str, Any] = {}
        self.errors: List[str] = []
        self.t0 = time.time()

    def isolated(self):
        """Context manager around one rule: an AnalysisError (or a crash) of that rule is recorded and the remaining rules of
        the property still run, so that an uninterpretable construct in one place cannot hide a violation found elsewhere."""
        rep = self

        class _Iso:
            def __enter__(self_inner):
                return rep

            def __exit__(self_inner, et, ev, tb):
                if et is None:
                    return False
                if issubclass(et, AnalysisError):
                    rep.errors.append(str(ev))
                    return True
                if issubclass(et, Exception):
                    import traceback as _tb
                    where = _tb.format_exception(et, ev, tb)[-2].strip().splitlines()[-1].strip() if tb else ""
                    rep.errors.append(f"internal error: {et.__name__}: {ev} @ {where}")
                    if os.environ.get("CMINX_SA_DEBUG"):
                        _tb.print_exception(et, ev, tb)
                    return True
                return False
        return _Iso()

    # ------------------------------------------------------------------
    def rule(self, rule_id: str, text: str) -> None:
        """Register a rule (so that a rule with zero instances is visible)."""
        self.rules_run[rule_id] = text

    def ok(self, rule, where, construct, message="", **extra) -> Instance:
        i = Instance(rule, where, construct, OK, message, extra=extra)
        self.instances.append(i)
        return i

    def bad(self, rule, where, construct, message, witness=None, key=None, **extra) -> Instance:
        i = Instance(rule, where, construct, VIOLATION, message, witness, key, extra=extra)
        self.instances.append(i)
        return i

    def note(self, rule, where, construct, message, **extra) -> Instance:
        i = Instance(rule, where, construct, NOTE, message, extra=extra)
        self.instances.append(i)
        return i

    def check(self, cond: bool, rule, where, construct, message, witness=None, key=None, **extra) -> bool:
        if cond:
            self.ok(rule, where, construct, **extra)
        else:
            self.bad(rule, where, construct, message, witness, key, **extra)
        return cond

    def floor(self, rule: str, minimum: int, what: str) -> None:
        """Vacuity guard: the rule must have evaluated at least `minimum`
        instances (violations count too).  Checked in finish()."""
        self.floors[rule] = (minimum, what)

    def assume(self, *texts: str) -> None:
        for t in texts:
            if t not in self.assumptions:
                self.assumptions.append(t)

    def unit(self, *names: str) -> None:
        for n in names:
            if n not in self.units:
                self.units.append(n)

    def count(self, rule: str) -> int:
        return sum(1 for i in self.instances if i.rule == rule and i.verdict != NOTE)


# ----------------------------------------------------------------------
def load_known() -> List[Dict[str, Any]]:
    if not os.path.exists(KNOWN_FILE):
        return []
    with open(KNOWN_FILE) as f:
        data = json.load(f)
    return data.get("findings", [])


def finish(rep: Report, seed: int = 0, error: Optional[str] = None) -> int:
    """Apply floors and known findings, write evidence, print verdict lines,
    return the exit code."""
    known = [k for k in load_known() if k.get("property") == rep.prop and k.get("status") == "known"]
    known_keys = {k["key"]: k for k in known}

    if error is None and rep.errors:
        error = " ;; ".join(rep.errors[:4])
    floor_errors = []
    if error is None:
        for rule, (minimum, what) in rep.floors.items():
            n = rep.count(rule)
            if n < minimum:
                floor_errors.append(f"{rule}: only {n} instance(s) of '{what}' found, expected at least {minimum}")
    violations = [i for i in rep.instances if i.verdict == VIOLATION]
    unlisted = [i for i in violations if i.stable_key() not in known_keys]
    # a vacuity guard never masks a violation that was actually found
    if floor_errors and error is None and not unlisted:
        error = "vacuity guard: " + "; ".join(floor_errors)
    listed = [i for i in violations if i.stable_key() in known_keys]

    os.makedirs(REPLAY_DIR, exist_ok=True)
    # remove stale replay files of this property
    for fn in os.listdir(REPLAY_DIR):
        if fn.startswith(rep.prop + "-"):
            try:
                os.remove(os.path.join(REPLAY_DIR, fn))
            except OSError:
                pass

    lines = []
    seen_known = set()
    for i in listed:
        k = i.stable_key()
        if k in seen_known:
            continue
        seen_known.add(k)
        lines.append(f"KNOWN-FINDING: property={rep.prop} {known_keys[k].get('what', i.message)} [{k}]")
    for n, i in enumerate(unlisted):
        path = os.path.join(REPLAY_DIR, f"{rep.prop}-{n}.json")
        with open(path, "w") as f:
            json.dump({"property": rep.prop, "tier": rep.tier, "repo": rep.repo,
                       "key": i.stable_key(), **i.as_json()}, f, indent=1)
        lines.append(f"VIOLATION property={rep.prop} replay={path}")
        lines.append(f"  {i.rule} at {i.where}: {i.message}")
        lines.append(f"  construct: {i.construct}")
        if i.witness:
            lines.append(f"  witness: {i.witness}")

    evaluated = [i for i in rep.instances if i.verdict != NOTE]
    distinct = len({(i.rule, i.where, i.construct) for i in evaluated})
    samples = [i.as_json() for i in rep.instances[:400]]
    per_rule = {}
    for i in evaluated:
        per_rule[i.rule] = per_rule.get(i.rule, 0) + 1
    cov = {
        "explanation": (
            "Static analysis of /repo's current working tree (sources parsed with ast, serialized ATNs "
            "deserialised as data, YAML/CMake files tokenised; no CMinx code is executed). Each instance is one "
            "(rule, construct) pair decided from the source; see DESIGN.md section 5 for the rules of this property."),
        "rule": "instances are enumerated from the source by each rule; an instance is distinct by "
                "(rule id, module:function, normalised construct text); notes are not counted",
        "evaluations": len(evaluated),
        "distinct_nontrivial": distinct,
        "obligations": len(evaluated),
        "discharged": len([i for i in evaluated if i.verdict == OK]),
        "known_findings_matched": len(seen_known),
        "rules": rep.rules_run,
        "instances_per_rule": per_rule,
        "floors": {r: {"minimum": m, "what": w, "found": rep.count(r)} for r, (m, w) in rep.floors.items()},
        "units_analysed": rep.units,
        "samples": samples,
        "notes": [i.as_json() for i in rep.instances if i.verdict == NOTE][:50],
    }
    cov.update(rep.extra_cov)
    ev = {
        "property_id": rep.prop,
        "tier": rep.tier,
        "seed": seed,
        "level": "other",
        "coverage": cov,
        "assumptions": rep.assumptions,
        "wall_s": round(time.time() - rep.t0, 3),
        "violations": len(unlisted),
    }
    if error is not None:
        ev["coverage"]["analysis_error"] = error
    os.makedirs(EVIDENCE_DIR, exist_ok=True)
    with open(os.path.join(EVIDENCE_DIR, f"{rep.prop}.json"), "w") as f:
        json.dump(ev, f, indent=1, default=str)

    for line in lines:
        print(line)
    if error is not None and unlisted:
        # violations found by the rules that did run are real; the uninterpretable part is reported alongside
        print(f"  note: part of the analysis could not be completed: {error}")
        print(f"{rep.prop} [{rep.tier}] violations={len(unlisted)} (incomplete analysis)")
        return 1
    if error is not None:
        print(f"ANALYSIS-ERROR property={rep.prop} {error}")
        return 2
    summary = ", ".join(f"{r}:{n}" for r, n in sorted(per_rule.items()))
    print(f"{rep.prop} [{rep.tier}] instances={len(evaluated)} distinct={distinct} "
          f"violations={len(unlisted)} known={len(seen_known)} ({summary})")
    return 1 if unlisted else 0

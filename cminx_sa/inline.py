"""AST-level inlining of private helpers ("flattening").

The structural rules over ``cminx/__init__.py`` and ``cminx/documenter.py`` look
at one function at a time (guards, loops, statement order).  A maintainer may
split those functions into private helpers without changing behaviour; to read
such code the same way, every call of a *private helper* (module-level function
or method whose name starts with one underscore, no decorators other than
``staticmethod``, no ``*args``/``**kwargs``, not recursive) is expanded in
place before the rules run:

* ``helper(a)`` as a statement, ``x = helper(a)``, ``x, y = helper(a)``,
  ``return helper(a)``: the body is copied with parameters substituted (simple
  arguments) or bound to fresh locals, locals renamed apart, and ``return E``
  turned into an assignment of the result; guard-clause returns become
  ``if/else`` nesting, returns inside loops use a done-flag and ``break``;
* a helper whose body is a single ``return <expr>`` is substituted as an
  expression wherever it is called.

Constant arguments are propagated (``x if True else y`` and ``if False:`` are
folded), so a helper shared by two call sites with a mode flag reads like the
two original code blocks.  Helpers that are no longer referenced are dropped
from the module.  The transformation only serves the analysis; nothing is
executed.
"""
from __future__ import annotations

import ast
import re
import copy
from typing import Dict, List, Optional, Set, Tuple

MAX_DEPTH = 4


# The functions and methods the rules anchor on (today's public surface of the flattened modules).  They are never inlined;
# every *other* function of these modules - private by name, or added later under a public name - is a helper candidate.
ANCHORS = {
    "main", "document", "document_single_file",                                   # cminx/__init__.py
    "process", "process_docs",                                                     # Documenter
    "config_template", "dict_to_settings",                                         # cminx/config.py
    "syntaxError", "reportAmbiguity", "reportAttemptingFullContext", "reportContextSensitivity",   # error listeners
}


UNDERSCORE_ONLY = False      # set per module by flatten_module: modules whose public methods are API (rstwriter, ...)


def _is_private(name: str) -> bool:
    if name.startswith("__"):
        return False
    if UNDERSCORE_ONLY:
        return name.startswith("_")
    return name.startswith("_") or name not in ANCHORS


def _simple_arg(e: ast.expr) -> bool:
    if isinstance(e, (ast.Name, ast.Constant)):
        return True
    if isinstance(e, ast.Attribute):
        return _simple_arg(e.value)
    return False


def _assigned_names(fn: ast.FunctionDef) -> Set[str]:
    out = set()
    for n in ast.walk(fn):
        if isinstance(n, ast.Name) and isinstance(n.ctx, (ast.Store, ast.Del)):
            out.add(n.id)
        elif isinstance(n, ast.arg):
            pass
    return out


def _eligible(fn: ast.FunctionDef, is_method: bool) -> bool:
    if not _is_private(fn.name):
        return False
    for d in fn.decorator_list:
        if not (isinstance(d, ast.Name) and d.id in ("staticmethod", "classmethod")):
            return False
    a = fn.args
    if a.vararg or a.kwarg or a.posonlyargs:
        return False
    for n in ast.walk(fn):
        if isinstance(n, (ast.Yield, ast.YieldFrom, ast.Await, ast.Global, ast.Nonlocal)):
            return False
        if isinstance(n, (ast.FunctionDef, ast.AsyncFunctionDef, ast.ClassDef, ast.Lambda)) and n is not fn:
            return False
        if isinstance(n, ast.Call) and isinstance(n.func, ast.Name) and n.func.id == fn.name:
            return False      # recursive
        if isinstance(n, ast.Call) and isinstance(n.func, ast.Attribute) and n.func.attr == fn.name \
                and isinstance(n.func.value, ast.Name) and n.func.value.id == "self":
            return False
    return True


def _generator_shape(fn: ast.FunctionDef):
    """A helper generator of the shape  <simple statements>; for X in IT: <body>; yield E   (one yield, last statement of
    the loop body, no return): (prelude statements, loop, yield value) else None."""
    if fn.decorator_list:
        return None
    a = fn.args
    if a.vararg or a.kwarg or a.posonlyargs:
        return None
    body = _body_wo_doc(fn)
    if not body or not isinstance(body[-1], ast.For) or body[-1].orelse:
        return None
    loop = body[-1]
    yields = [n for n in ast.walk(fn) if isinstance(n, (ast.Yield, ast.YieldFrom))]
    if len(yields) != 1 or not isinstance(yields[0], ast.Yield) or yields[0].value is None:
        return None
    last = loop.body[-1]
    if not (isinstance(last, ast.Expr) and last.value is yields[0]):
        return None
    for n in ast.walk(fn):
        if isinstance(n, (ast.Return, ast.Await, ast.Global, ast.Nonlocal)):
            return None
        if isinstance(n, (ast.FunctionDef, ast.AsyncFunctionDef, ast.ClassDef, ast.Lambda)) and n is not fn:
            return None
    for st in body[:-1]:
        if not isinstance(st, (ast.Assign, ast.AnnAssign, ast.Expr)):
            return None
    return body[:-1], loop, yields[0].value


def expand_yields(fn: ast.FunctionDef, target: ast.expr, body: List[ast.stmt], sub: "Optional[_Subst]" = None) -> Optional[List[ast.stmt]]:
    """The body of generator `fn` with every statement `yield E` replaced by `target = E; <body>`: what `for target in fn(..):
    body` executes, provided the generator never returns early and the consumer body has no break/continue/return (each of
    which would have to stop or resume the generator)."""
    if fn.decorator_list:
        return None
    for n in ast.walk(fn):
        if isinstance(n, (ast.Return, ast.Await, ast.Global, ast.Nonlocal)):
            return None
        if isinstance(n, (ast.FunctionDef, ast.AsyncFunctionDef, ast.ClassDef, ast.Lambda)) and n is not fn:
            return None
    for b in body:
        for n in ast.walk(b):
            if isinstance(n, (ast.Break, ast.Continue, ast.Return)):
                return None
    yields = [n for n in ast.walk(fn) if isinstance(n, (ast.Yield, ast.YieldFrom))]
    if not yields or any(y.value is None for y in yields):
        return None
    gen_body = [copy.deepcopy(st) for st in _body_wo_doc(fn)]
    if sub is not None:
        gen_body = [sub.visit(st) for st in gen_body]
    ok = [True]

    class Y(ast.NodeTransformer):
        def visit_Expr(self, node):
            if isinstance(node.value, ast.Yield):
                bind = ast.Assign(targets=[copy.deepcopy(target)], value=node.value.value)
                return [ast.copy_location(bind, node)] + [copy.deepcopy(b) for b in body]
            if isinstance(node.value, ast.YieldFrom):
                # yield from X   ==   for T in X: yield T
                tgt = copy.deepcopy(target)
                for n in ast.walk(tgt):
                    if isinstance(n, ast.Name):
                        n.ctx = ast.Store()
                loop = ast.For(target=tgt, iter=node.value.value, body=[copy.deepcopy(b) for b in body], orelse=[], type_comment=None)
                return [ast.copy_location(loop, node)]
            if any(isinstance(x, (ast.Yield, ast.YieldFrom)) for x in ast.walk(node)):
                ok[0] = False
            return node

        def generic_visit(self, node):
            if not isinstance(node, ast.Expr) and not isinstance(node, ast.stmt) is False:
                pass
            return super().generic_visit(node)
    out = []
    for st in gen_body:
        r = Y().visit(st)
        out.extend(r if isinstance(r, list) else [r])
    # a yield used as an expression elsewhere (x = yield ...) is not supported
    if not ok[0] or any(isinstance(x, (ast.Yield, ast.YieldFrom)) for st in out for x in ast.walk(st)):
        return None
    for st in out:
        ast.fix_missing_locations(st)
    return out


def _body_wo_doc(fn: ast.FunctionDef) -> List[ast.stmt]:
    b = fn.body
    if b and isinstance(b[0], ast.Expr) and isinstance(b[0].value, ast.Constant) and isinstance(b[0].value.value, str):
        b = b[1:]
    return b


def _is_single_return(fn: ast.FunctionDef) -> Optional[ast.expr]:
    b = _body_wo_doc(fn)
    if len(b) == 1 and isinstance(b[0], ast.Return) and b[0].value is not None:
        return b[0].value
    return None


class _Subst(ast.NodeTransformer):
    def __init__(self, mapping: Dict[str, ast.expr], rename: Dict[str, str]):
        self.mapping = mapping
        self.rename = rename

    def visit_Name(self, node):
        if node.id in self.mapping and isinstance(node.ctx, ast.Load):
            return copy.deepcopy(self.mapping[node.id])
        if node.id in self.rename:
            return ast.copy_location(ast.Name(id=self.rename[node.id], ctx=node.ctx), node)
        return node


class _Fold(ast.NodeTransformer):
    """Fold conditionals on constants that appear after propagating constant arguments."""

    def visit_IfExp(self, node):
        self.generic_visit(node)
        if isinstance(node.test, ast.Constant):
            return node.body if node.test.value else node.orelse
        if isinstance(node.test, ast.UnaryOp) and isinstance(node.test.op, ast.Not) and isinstance(node.test.operand, ast.Constant):
            return node.orelse if node.test.operand.value else node.body
        return node

    def visit_If(self, node):
        self.generic_visit(node)
        t = node.test
        val = None
        if isinstance(t, ast.Constant):
            val = bool(t.value)
        elif isinstance(t, ast.UnaryOp) and isinstance(t.op, ast.Not) and isinstance(t.operand, ast.Constant):
            val = not bool(t.operand.value)
        if val is True:
            return node.body or [ast.Pass()]
        if val is False:
            return node.orelse or [ast.Pass()]
        return node


def _returns_all_paths(stmts: List[ast.stmt]) -> bool:
    for s in stmts:
        if isinstance(s, (ast.Return, ast.Raise)):
            return True
        if isinstance(s, ast.If) and s.orelse and _returns_all_paths(s.body) and _returns_all_paths(s.orelse):
            return True
    return False


def _contains_return(stmts: List[ast.stmt]) -> bool:
    for s in stmts:
        for n in ast.walk(s):
            if isinstance(n, ast.Return):
                return True
    return False


class _Inliner:
    generators: Dict[str, ast.FunctionDef] = {}
    method_generators: Dict[str, ast.FunctionDef] = {}
    factories: Dict[str, ast.FunctionDef] = {}
    class_helpers: Dict[Tuple[str, str], ast.FunctionDef] = {}

    def __init__(self, helpers: Dict[str, ast.FunctionDef], method_helpers: Dict[str, ast.FunctionDef]):
        self.helpers = helpers
        self.method_helpers = method_helpers
        self.counter = 0
        self.used: Set[str] = set()

    # ------------------------------------------------------------------
    def callee(self, call: ast.Call) -> Optional[Tuple[ast.FunctionDef, bool]]:
        f = call.func
        if isinstance(f, ast.Name) and f.id in self.helpers:
            return self.helpers[f.id], False
        if isinstance(f, ast.Attribute) and isinstance(f.value, ast.Name) and f.value.id == "self" and f.attr in self.method_helpers:
            return self.method_helpers[f.attr], True
        if isinstance(f, ast.Attribute) and isinstance(f.value, ast.Name) and (f.value.id, f.attr) in self.class_helpers:
            # Class._factory(...): a private classmethod / staticmethod called through the class
            return self.class_helpers[(f.value.id, f.attr)], ("cls", f.value.id)
        return None

    def bind(self, fn: ast.FunctionDef, call: ast.Call, is_method: bool):
        """-> (prelude statements, name mapping, rename map) or None if the call cannot be bound."""
        params = [a.arg for a in fn.args.args] + [a.arg for a in fn.args.kwonlyargs]
        static = any(isinstance(d, ast.Name) and d.id == "staticmethod" for d in fn.decorator_list)
        if is_method and not static:
            params = params[1:]
        defaults: Dict[str, ast.expr] = {}
        pos = [a.arg for a in fn.args.args]
        if is_method and not static:
            pos = pos[1:]
        for a, d in zip(pos[len(pos) - len(fn.args.defaults):], fn.args.defaults):
            defaults[a] = d
        for a, d in zip(fn.args.kwonlyargs, fn.args.kw_defaults):
            if d is not None:
                defaults[a.arg] = d
        given: Dict[str, ast.expr] = {}
        if any(isinstance(a, ast.Starred) for a in call.args) or any(k.arg is None for k in call.keywords):
            return None
        if len(call.args) > len(pos):
            return None
        for p, a in zip(pos, call.args):
            given[p] = a
        for k in call.keywords:
            if k.arg not in params:
                return None
            given[k.arg] = k.value
        for p in params:
            if p not in given:
                if p in defaults:
                    given[p] = defaults[p]
                else:
                    return None
        self.counter += 1
        tag = f"__{fn.name.strip('_')}{self.counter}"
        assigned = _assigned_names(fn)
        mapping: Dict[str, ast.expr] = {}
        rename: Dict[str, str] = {}
        prelude: List[ast.stmt] = []
        for p in params:
            a = given[p]
            only_called = isinstance(a, ast.Lambda) and all(
                isinstance(par_, ast.Call) and par_.func is n_ for par_ in ast.walk(fn) for n_ in ast.iter_child_nodes(par_)
                if isinstance(n_, ast.Name) and n_.id == p) and not any(
                isinstance(n_, ast.Name) and n_.id == p and not any(isinstance(c_, ast.Call) and c_.func is n_ for c_ in ast.walk(fn))
                for n_ in ast.walk(fn))
            if p not in assigned and (_simple_arg(a) or only_called):
                mapping[p] = a
            else:
                rename[p] = p + tag
                prelude.append(ast.Assign(targets=[ast.Name(id=p + tag, ctx=ast.Store())], value=copy.deepcopy(a)))
        for n in assigned:
            if n not in rename and n not in params:
                rename[n] = n + tag
        if isinstance(is_method, tuple) and not static and fn.args.args:
            mapping[fn.args.args[0].arg] = ast.Name(id=is_method[1], ctx=ast.Load())     # cls is the class it was called through
        return prelude, mapping, rename, tag

    # ------------------------------------------------------------------
    def expand_body(self, fn, call, is_method, result_store) -> Optional[List[ast.stmt]]:
        """Statements equivalent to executing the helper; result_store(expr) -> statements storing the return value
        (or None when the value is unused)."""
        b = self.bind(fn, call, is_method)
        if b is None:
            return None
        prelude, mapping, rename, tag = b
        body = copy.deepcopy(_body_wo_doc(fn))
        sub = _Subst(mapping, rename)
        body = [sub.visit(s) for s in body]
        if any(isinstance(v, ast.Lambda) for v in mapping.values()):
            body = [_JoinSingle().visit(_BetaReduce().visit(s)) for s in body]
        folded: List[ast.stmt] = []
        for s in body:
            r = _Fold().visit(s)
            folded.extend(r if isinstance(r, list) else [r])
        body = folded
        done_name = "_done" + tag

        def store(expr):
            if expr is None:
                return result_store(ast.Constant(value=None)) if result_store else []
            if result_store is None:
                # keep side effects of the returned expression
                if any(isinstance(n, ast.Call) for n in ast.walk(expr)):
                    return [ast.Expr(value=expr)]
                return []
            return result_store(expr)

        def structured(stmts: List[ast.stmt]) -> Optional[List[ast.stmt]]:
            out: List[ast.stmt] = []
            for i, s in enumerate(stmts):
                if isinstance(s, ast.Return):
                    out.extend(store(s.value))
                    return out or [ast.Pass()]
                if isinstance(s, ast.If) and _contains_return([s]):
                    b1 = structured(s.body)
                    b2 = structured(s.orelse) if s.orelse else []
                    if b1 is None or b2 is None:
                        return None
                    rest = stmts[i + 1:]
                    r_body, r_else = _returns_all_paths(s.body), bool(s.orelse) and _returns_all_paths(s.orelse)
                    if r_body and r_else:
                        out.append(ast.If(test=s.test, body=b1, orelse=b2))
                        return out
                    if r_body:
                        tail = structured(rest)
                        if tail is None:
                            return None
                        out.append(ast.If(test=s.test, body=b1, orelse=(b2 + tail) or []))
                        return out
                    if r_else:
                        tail = structured(rest)
                        if tail is None:
                            return None
                        out.append(ast.If(test=s.test, body=(b1 + tail) or [ast.Pass()], orelse=b2))
                        return out
                    return None
                if _contains_return([s]):
                    return None
                out.append(s)
            out.extend(store(None) if result_store and not _returns_all_paths(stmts) and False else [])
            return out

        res = structured(body)
        if res is None:
            res = self.flagged(body, done_name, store)
            if res is None:
                return None
            res = [ast.Assign(targets=[ast.Name(id=done_name, ctx=ast.Store())], value=ast.Constant(value=False))] + res
        out = prelude + (res or [ast.Pass()])
        for s in out:
            ast.copy_location(s, call)
            ast.fix_missing_locations(s)
        return out

    def flagged(self, stmts: List[ast.stmt], done: str, store, in_loop: bool = False) -> Optional[List[ast.stmt]]:
        """General encoding: return -> store; done = True; break (inside loops); statements after a construct that may
        return run only `if not done`."""
        out: List[ast.stmt] = []
        for i, s in enumerate(stmts):
            if isinstance(s, ast.Return):
                out.extend(store(s.value))
                out.append(ast.Assign(targets=[ast.Name(id=done, ctx=ast.Store())], value=ast.Constant(value=True)))
                if in_loop:
                    out.append(ast.Break())
                return out
            if not _contains_return([s]):
                out.append(s)
                continue
            if isinstance(s, ast.If):
                b1 = self.flagged(s.body, done, store, in_loop)
                b2 = self.flagged(s.orelse, done, store, in_loop) if s.orelse else []
                if b1 is None or b2 is None:
                    return None
                new = ast.If(test=s.test, body=b1 or [ast.Pass()], orelse=b2)
            elif isinstance(s, (ast.For, ast.While)):
                b1 = self.flagged(s.body, done, store, True)
                if b1 is None or _contains_return(s.orelse):
                    return None
                new = copy.copy(s)
                new.body = b1
                if s.orelse:
                    # the else part of a loop runs when the loop was not left by break; a return breaks, so this is right
                    new.orelse = s.orelse
            elif isinstance(s, ast.With):
                b1 = self.flagged(s.body, done, store, in_loop)
                if b1 is None:
                    return None
                new = copy.copy(s)
                new.body = b1
            elif isinstance(s, ast.Try):
                b1 = self.flagged(s.body, done, store, in_loop)
                hs = []
                for h in s.handlers:
                    hb = self.flagged(h.body, done, store, in_loop)
                    if hb is None:
                        return None
                    nh = copy.copy(h)
                    nh.body = hb or [ast.Pass()]
                    hs.append(nh)
                if b1 is None or _contains_return(s.orelse) or _contains_return(s.finalbody):
                    return None
                new = copy.copy(s)
                new.body = b1
                new.handlers = hs
            else:
                return None
            out.append(new)
            rest = self.flagged(stmts[i + 1:], done, store, in_loop)
            if rest is None:
                return None
            if in_loop:
                out.append(ast.If(test=ast.Name(id=done, ctx=ast.Load()), body=[ast.Break()], orelse=[]))
            if rest:
                out.append(ast.If(test=ast.UnaryOp(op=ast.Not(), operand=ast.Name(id=done, ctx=ast.Load())), body=rest, orelse=[]))
            return out
        return out

    # ------------------------------------------------------------------
    def apply_closure_factory(self, c: ast.Call) -> Optional[ast.expr]:
        """factory(a...)(b...)  with  def factory(p...): def g(q...): return E; return g   ->   E[p:=a, q:=b]"""
        if not (isinstance(c.func, ast.Call) and isinstance(c.func.func, ast.Name) and c.func.func.id in self.factories):
            return None
        fac = self.factories[c.func.func.id]
        body = _body_wo_doc(fac)
        if not (len(body) == 2 and isinstance(body[0], ast.FunctionDef) and isinstance(body[1], ast.Return)
                and isinstance(body[1].value, ast.Name) and body[1].value.id == body[0].name and not body[0].decorator_list):
            return None
        inner = body[0]
        expr = _is_single_return(inner)
        if expr is None:
            return None
        outer_params = [a.arg for a in fac.args.args]
        inner_params = [a.arg for a in inner.args.args]
        oc, ic = c.func, c
        if oc.keywords or ic.keywords or len(oc.args) != len(outer_params) or len(ic.args) != len(inner_params) \
                or any(isinstance(a, ast.Starred) for a in list(oc.args) + list(ic.args)):
            return None
        mapping = dict(zip(outer_params, oc.args))
        mapping.update(zip(inner_params, ic.args))
        # every parameter used at most once unless its argument is simple
        for pname, arg in mapping.items():
            uses = sum(1 for n in ast.walk(expr) if isinstance(n, ast.Name) and n.id == pname)
            if uses > 1 and not _simple_arg(arg):
                return None
        self.used.add(fac.name)
        return ast.copy_location(_Subst(mapping, {}).visit(copy.deepcopy(expr)), c)

    def inline_expr_calls(self, node: ast.AST) -> ast.AST:
        """Replace calls of single-return helpers inside expressions."""
        inl = self

        class T(ast.NodeTransformer):
            def visit_Call(self, c):
                self.generic_visit(c)
                folded = inl.apply_closure_factory(c)
                if folded is not None:
                    return folded
                tgt = inl.callee(c)
                if tgt is None:
                    return c
                fn, is_m = tgt
                expr = _is_single_return(fn)
                if expr is None:
                    return c
                b = inl.bind(fn, c, is_m)
                if b is None:
                    return c
                prelude, mapping, rename, tag = b
                if prelude:
                    # non-simple arguments: substitute them textually only if the parameter is used at most once
                    for st_ in prelude:
                        pname = st_.targets[0].id
                        orig = pname[:-len(tag)]
                        uses = sum(1 for n in ast.walk(expr) if isinstance(n, ast.Name) and n.id == orig)
                        if uses > 1:
                            return c
                        mapping[orig] = st_.value
                        rename.pop(orig, None)
                if any(n in rename for n in [x.id for x in ast.walk(expr) if isinstance(x, ast.Name)]):
                    # comprehension variables etc. keep their names
                    pass
                new = _Subst(mapping, {}).visit(copy.deepcopy(expr))
                new = _Fold().visit(new)
                inl.used.add(fn.name)
                return ast.copy_location(new, c)
        return T().visit(node)

    def _hoist(self, s: ast.stmt):
        """First (in evaluation order) call of a multi-statement helper nested in the statement's value (not the value itself,
        not under a conditional expression / boolean operator / lambda / comprehension): (prelude, rewritten statement)."""
        found = []

        def walk(e, top):
            if found or isinstance(e, (ast.Lambda, ast.ListComp, ast.SetComp, ast.DictComp, ast.GeneratorExp, ast.IfExp, ast.BoolOp)):
                return
            for ch in ast.iter_child_nodes(e):
                walk(ch, False)
                if found:
                    return
            if isinstance(e, ast.Call) and not top:
                t = self.callee(e)
                if t is not None and _is_single_return(t[0]) is None:
                    found.append(e)
        walk(s.value, True)
        if not found:
            return None
        call = found[0]
        self.counter += 1
        tmp = f"_tmp__{self.counter}"
        pre = [ast.copy_location(ast.Assign(targets=[ast.Name(id=tmp, ctx=ast.Store())], value=call), s)]

        class R(ast.NodeTransformer):
            def visit_Call(self, c):
                if c is call:
                    return ast.copy_location(ast.Name(id=tmp, ctx=ast.Load()), c)
                self.generic_visit(c)
                return c
        s2 = R().visit(s)
        ast.fix_missing_locations(pre[0])
        return pre, s2

    def inline_block(self, stmts: List[ast.stmt], depth: int = 0) -> List[ast.stmt]:
        out: List[ast.stmt] = []
        for s in stmts:
            out.extend(self.inline_stmt(s, depth))
        return out

    def inline_generator_loop(self, s: ast.For, depth: int) -> Optional[List[ast.stmt]]:
        """for T in _gen(args): BODY   with _gen of the shape accepted by _generator_shape:
             <prelude>; for X in IT: <gen body>; T = E; BODY"""
        if not isinstance(s.iter, ast.Call) or s.orelse:
            return None
        f = s.iter.func
        fn = None
        is_m = False
        if isinstance(f, ast.Name) and f.id in self.generators:
            fn = self.generators[f.id]
        elif isinstance(f, ast.Attribute) and isinstance(f.value, ast.Name) and f.value.id == "self" and f.attr in self.method_generators:
            fn, is_m = self.method_generators[f.attr], True
        if fn is None:
            return None
        shape = _generator_shape(fn)
        if shape is None:
            # general form: every `yield E` becomes `T = E; BODY`
            b = self.bind(fn, s.iter, is_m)
            if b is None:
                return None
            prelude, mapping, rename, tag = b
            stmts = expand_yields(fn, s.target, s.body, _Subst(mapping, rename))
            if stmts is None:
                return None
            out = list(prelude) + stmts
            for st in out:
                ast.copy_location(st, s)
                ast.fix_missing_locations(st)
            self.used.add(fn.name)
            return out
        b = self.bind(fn, s.iter, is_m)
        if b is None:
            return None
        prelude, mapping, rename, tag = b
        sub = _Subst(mapping, rename)
        pre_stmts, loop, yval = shape
        out = list(prelude) + [sub.visit(copy.deepcopy(st)) for st in pre_stmts]
        new_loop = sub.visit(copy.deepcopy(loop))
        yv = new_loop.body[-1].value.value
        bind_target = ast.Assign(targets=[copy.deepcopy(s.target)], value=yv)
        new_loop.body = new_loop.body[:-1] + [bind_target] + s.body
        out.append(new_loop)
        for st in out:
            ast.copy_location(st, s)
            ast.fix_missing_locations(st)
        self.used.add(fn.name)
        return out

    def inline_stmt(self, s: ast.stmt, depth: int) -> List[ast.stmt]:
        if isinstance(s, ast.For) and depth < MAX_DEPTH:
            g = self.inline_generator_loop(s, depth)
            if g is not None:
                return self.inline_block(g, depth + 1)
        # statement-level forms
        call, store, is_ret = None, None, False
        if isinstance(s, ast.Expr) and isinstance(s.value, ast.Call):
            call, store = s.value, None
        elif isinstance(s, ast.Assign) and isinstance(s.value, ast.Call) and len(s.targets) == 1:
            call = s.value
            tgt = s.targets[0]
            store = lambda e, tgt=tgt: [ast.Assign(targets=[copy.deepcopy(tgt)], value=e)]
        elif isinstance(s, ast.AnnAssign) and isinstance(s.value, ast.Call):
            call = s.value
            tgt = s.target
            store = lambda e, tgt=tgt: [ast.Assign(targets=[copy.deepcopy(tgt)], value=e)]
        elif isinstance(s, ast.Return) and isinstance(s.value, ast.Call):
            call, is_ret = s.value, True
            store = lambda e: [ast.Return(value=e)]
        if call is not None and depth < MAX_DEPTH:
            tgt_fn = self.callee(call)
            if tgt_fn is not None and _is_single_return(tgt_fn[0]) is None:
                fn, is_m = tgt_fn
                # arguments may themselves contain helper calls
                call2 = self.inline_expr_calls(copy.deepcopy(call))
                body = self.expand_body(fn, call2, is_m, store)
                if body is not None:
                    self.used.add(fn.name)
                    res = self.inline_block(body, depth + 1)
                    if is_ret and not _returns_all_paths(res):
                        res.append(ast.Return(value=ast.Constant(value=None)))
                    return res
        # helper calls nested inside a simple statement's expression: hoist them into a temporary first
        if depth < MAX_DEPTH and isinstance(s, (ast.Expr, ast.Assign, ast.AugAssign, ast.AnnAssign, ast.Return)) and s.value is not None:
            hoisted = self._hoist(s)
            if hoisted is not None:
                pre, s2 = hoisted
                return self.inline_block(pre, depth) + self.inline_stmt(s2, depth + 1)
        # otherwise: expression-level helpers and nested blocks
        s = self.inline_expr_calls(s)
        for fld in ("body", "orelse", "finalbody"):
            blk = getattr(s, fld, None)
            if isinstance(blk, list) and blk and isinstance(blk[0], ast.stmt):
                setattr(s, fld, self.inline_block(blk, depth))
        if isinstance(s, ast.Try):
            for h in s.handlers:
                h.body = self.inline_block(h.body, depth)
        return [s]


def _is_generated(name: str) -> bool:
    return name.startswith("_tmp__") or bool(re.search(r"__[A-Za-z_]\w*?\d+$", name))


def _record_classes(tree: ast.Module) -> Dict[str, List[str]]:
    """NamedTuple / dataclass classes of the module: name -> field names in positional order."""
    out: Dict[str, List[str]] = {}
    for n in tree.body:
        if not isinstance(n, ast.ClassDef):
            continue
        is_nt = any((isinstance(b, ast.Name) and b.id == "NamedTuple") or (isinstance(b, ast.Attribute) and b.attr == "NamedTuple")
                    for b in n.bases)
        is_dc = any("dataclass" in ast.unparse(d) for d in n.decorator_list)
        if not (is_nt or is_dc) or any(isinstance(m, ast.FunctionDef) and m.name in ("__new__", "__init__", "__post_init__", "__getattr__")
                                       for m in n.body):
            continue
        out[n.name] = [m.target.id for m in n.body if isinstance(m, ast.AnnAssign) and isinstance(m.target, ast.Name)]
    return out


def _lift_record_behaviour(tree: ast.Module) -> List[str]:
    """A module-private record class (`_Name`, NamedTuple / dataclass without custom construction) that carries properties
    and plain methods which never store through self:  for  v = _Name(a, b)  bound once in a function and used only as
    v.<field> / v.<property> / v.<method>(...),  each property and method becomes a module-level function over the fields
    (`_Name__prop(file, root)`), the uses are rewritten to calls of these functions with the constructor's arguments, and the
    ordinary helper inlining takes it from there.  Returns the names of the generated functions."""
    records = _record_classes(tree)
    made: List[str] = []
    new_functions: List[ast.FunctionDef] = []
    for cls in [c for c in tree.body if isinstance(c, ast.ClassDef) and c.name in records and c.name.startswith("_")]:
        fields = records[cls.name]
        methods = {m.name: m for m in cls.body if isinstance(m, ast.FunctionDef)}
        props = {n for n, m in methods.items() if any(isinstance(d, ast.Name) and d.id == "property" for d in m.decorator_list)}
        if not methods or any(m.decorator_list and n not in props for n, m in methods.items()) \
                or any(n.startswith("__") for n in methods):
            continue
        ok = True
        for m in methods.values():
            if not m.args.args or m.args.vararg or m.args.kwarg or m.args.kwonlyargs or m.args.posonlyargs:
                ok = False
            sn = m.args.args[0].arg if m.args.args else "self"
            for n in ast.walk(m):
                if isinstance(n, ast.Attribute) and isinstance(n.value, ast.Name) and n.value.id == sn:
                    if isinstance(n.ctx, (ast.Store, ast.Del)) or (n.attr not in fields and n.attr not in methods):
                        ok = False
                elif isinstance(n, ast.Name) and n.id == sn and not any(
                        isinstance(p_, ast.Attribute) and p_.value is n for p_ in ast.walk(m)):
                    ok = False              # self used as a value
        if not ok:
            continue

        def fname(name, cname=cls.name):
            return f"{cname}__{name}"

        def lift(m: ast.FunctionDef) -> ast.FunctionDef:
            sn = m.args.args[0].arg

            class L(ast.NodeTransformer):
                def visit_Call(self, c):
                    self.generic_visit(c)
                    f = c.func
                    if isinstance(f, ast.Attribute) and isinstance(f.value, ast.Name) and f.value.id == sn and f.attr in methods \
                            and f.attr not in props:
                        return ast.copy_location(ast.Call(func=ast.Name(id=fname(f.attr), ctx=ast.Load()),
                                                          args=[ast.Name(id=x, ctx=ast.Load()) for x in fields] + list(c.args),
                                                          keywords=list(c.keywords)), c)
                    return c

                def visit_Attribute(self, n):
                    self.generic_visit(n)
                    if isinstance(n.value, ast.Name) and n.value.id == sn and isinstance(n.ctx, ast.Load):
                        if n.attr in fields:
                            return ast.copy_location(ast.Name(id=n.attr, ctx=ast.Load()), n)
                        if n.attr in props:
                            return ast.copy_location(ast.Call(func=ast.Name(id=fname(n.attr), ctx=ast.Load()),
                                                              args=[ast.Name(id=x, ctx=ast.Load()) for x in fields], keywords=[]), n)
                    return n
            g = copy.deepcopy(m)
            g.name = fname(m.name)
            g.decorator_list = []
            g.args.args = [ast.arg(arg=x) for x in fields] + g.args.args[1:]
            g.body = [L().visit(st) for st in g.body]
            return g
        # locals of the class methods must not collide with field names
        if any(_assigned_names(m) & set(fields) for m in methods.values()):
            continue
        lifted = [lift(m) for m in methods.values()]
        # rewrite the users
        used_any = False
        for fn in [n for n in ast.walk(tree) if isinstance(n, ast.FunctionDef) and not any(n is m for m in methods.values())]:
            stores: Dict[str, int] = {}
            for n in ast.walk(fn):
                if isinstance(n, ast.Name) and isinstance(n.ctx, (ast.Store, ast.Del)):
                    stores[n.id] = stores.get(n.id, 0) + 1
            for st in [x for x in ast.walk(fn) if isinstance(x, ast.Assign)]:
                if not (len(st.targets) == 1 and isinstance(st.targets[0], ast.Name) and stores.get(st.targets[0].id) == 1
                        and isinstance(st.value, ast.Call) and isinstance(st.value.func, ast.Name) and st.value.func.id == cls.name):
                    continue
                v = st.targets[0].id
                call = st.value
                if any(isinstance(a, ast.Starred) for a in call.args) or any(k.arg is None for k in call.keywords):
                    continue
                argmap = dict(zip(fields, call.args))
                argmap.update({k.arg: k.value for k in call.keywords})
                if set(argmap) != set(fields) or not all(_simple_arg(a) for a in argmap.values()):
                    continue
                # the constructor's arguments must not be rebound while v is alive (simple names bound once / parameters)
                roots = set()
                for a in argmap.values():
                    while isinstance(a, ast.Attribute):
                        a = a.value
                    if isinstance(a, ast.Name):
                        roots.add(a.id)
                if any(stores.get(r_, 0) > 1 for r_ in roots):
                    continue
                parents = {ch: par for par in ast.walk(fn) for ch in ast.iter_child_nodes(par)}
                uses = [n for n in ast.walk(fn) if isinstance(n, ast.Name) and n.id == v and isinstance(n.ctx, ast.Load)]
                if not uses or not all(isinstance(parents.get(u), ast.Attribute) and parents[u].value is u
                                       and (parents[u].attr in fields or parents[u].attr in methods) for u in uses):
                    continue
                argv = [argmap[x] for x in fields]

                class U(ast.NodeTransformer):
                    def visit_Call(self, c):
                        self.generic_visit(c)
                        f = c.func
                        if isinstance(f, ast.Attribute) and isinstance(f.value, ast.Name) and f.value.id == v and f.attr in methods \
                                and f.attr not in props:
                            return ast.copy_location(ast.Call(func=ast.Name(id=fname(f.attr), ctx=ast.Load()),
                                                              args=[copy.deepcopy(a) for a in argv] + list(c.args),
                                                              keywords=list(c.keywords)), c)
                        return c

                    def visit_Attribute(self, n):
                        self.generic_visit(n)
                        if isinstance(n.value, ast.Name) and n.value.id == v and isinstance(n.ctx, ast.Load):
                            if n.attr in fields:
                                return ast.copy_location(copy.deepcopy(argmap[n.attr]), n)
                            if n.attr in props:
                                return ast.copy_location(ast.Call(func=ast.Name(id=fname(n.attr), ctx=ast.Load()),
                                                                  args=[copy.deepcopy(a) for a in argv], keywords=[]), n)
                        return n
                for i, b in enumerate(fn.body):
                    fn.body[i] = U().visit(b)
                for owner in ast.walk(fn):
                    for field in ("body", "orelse", "finalbody"):
                        blk = getattr(owner, field, None)
                        if isinstance(blk, list) and any(x is st for x in blk):
                            blk[:] = [x for x in blk if x is not st] or [ast.Pass()]
                used_any = True
        if used_any:
            new_functions.extend(lifted)
            made.extend(g.name for g in lifted)
    if new_functions:
        idx = max((i for i, n in enumerate(tree.body) if isinstance(n, (ast.Import, ast.ImportFrom))), default=-1) + 1
        tree.body[idx:idx] = new_functions
        ast.fix_missing_locations(tree)
    return made


def _dfs(node: ast.AST):
    yield node
    for ch in ast.iter_child_nodes(node):
        yield from _dfs(ch)


def _scalarise(fn: ast.FunctionDef, records: Dict[str, List[str]]) -> None:
    """`v = Record(a, b)` with v assigned once and only read as `v.field`: the reads are replaced by the field's argument
    (names and constants only) and the construction is dropped."""
    for _ in range(20):
        stores: Dict[str, int] = {}
        for n in ast.walk(fn):
            if isinstance(n, ast.Name) and isinstance(n.ctx, (ast.Store, ast.Del)):
                stores[n.id] = stores.get(n.id, 0) + 1
        cand = None
        for n in ast.walk(fn):
            if isinstance(n, ast.Assign) and len(n.targets) == 1 and isinstance(n.targets[0], ast.Name) and isinstance(n.value, ast.Call) \
                    and isinstance(n.value.func, ast.Name) and n.value.func.id in records and stores.get(n.targets[0].id) == 1:
                fields = records[n.value.func.id]
                call = n.value
                if len(call.args) > len(fields) or any(isinstance(a, ast.Starred) for a in call.args) or any(k.arg is None for k in call.keywords):
                    continue
                vals = dict(zip(fields, call.args))
                vals.update({k.arg: k.value for k in call.keywords})
                if set(vals) != set(fields) or not all(isinstance(v, (ast.Name, ast.Constant)) for v in vals.values()):
                    continue
                # the value names must not be re-assigned after the construction (source order)
                order = {id(x): i for i, x in enumerate(_dfs(fn))}
                vnames = {v.id for v in vals.values() if isinstance(v, ast.Name)}
                if any(isinstance(x, ast.Name) and x.id in vnames and isinstance(x.ctx, (ast.Store, ast.Del)) and order[id(x)] > order[id(n)]
                       for x in ast.walk(fn)):
                    continue
                v = n.targets[0].id
                parents = {}
                for p in ast.walk(fn):
                    for ch in ast.iter_child_nodes(p):
                        parents[ch] = p
                uses = [x for x in ast.walk(fn) if isinstance(x, ast.Name) and x.id == v and isinstance(x.ctx, ast.Load)]
                if uses and all(isinstance(parents.get(u), ast.Attribute) and parents[u].value is u and parents[u].attr in vals
                                and isinstance(parents[u].ctx, ast.Load) for u in uses):
                    cand = (n, v, vals)
                    break
        if cand is None:
            return
        stmt, v, vals = cand

        class R(ast.NodeTransformer):
            def visit_Attribute(self, node):
                if isinstance(node.value, ast.Name) and node.value.id == v and node.attr in vals:
                    return ast.copy_location(copy.deepcopy(vals[node.attr]), node)
                self.generic_visit(node)
                return node

            def generic_visit(self, node):
                super().generic_visit(node)
                for field in ("body", "orelse", "finalbody"):
                    b = getattr(node, field, None)
                    if isinstance(b, list) and stmt in b:
                        b.remove(stmt)
                        if not b and field == "body":
                            b.append(ast.copy_location(ast.Pass(), stmt))
                return node
        R().visit(fn)


def _self_coalesce(fn: ast.FunctionDef) -> None:
    """`self.x = g` where g is an inliner-generated local assigned exactly once (before, at the same nesting level) and self.x is
    stored exactly once in the function: g is renamed to self.x throughout and the copy dropped."""
    for _ in range(30):
        stores: Dict[str, int] = {}
        attr_stores: Dict[str, int] = {}
        for n in ast.walk(fn):
            if isinstance(n, ast.Name) and isinstance(n.ctx, (ast.Store, ast.Del)):
                stores[n.id] = stores.get(n.id, 0) + 1
            if isinstance(n, ast.Attribute) and isinstance(n.ctx, (ast.Store, ast.Del)) and isinstance(n.value, ast.Name) and n.value.id == "self":
                attr_stores[n.attr] = attr_stores.get(n.attr, 0) + 1
        cand = None
        for body in [getattr(n, f) for n in ast.walk(fn) for f in ("body", "orelse", "finalbody") if isinstance(getattr(n, f, None), list)]:
            for i, st in enumerate(body):
                tgt = val = None
                if isinstance(st, ast.Assign) and len(st.targets) == 1:
                    tgt, val = st.targets[0], st.value
                elif isinstance(st, ast.AnnAssign) and st.value is not None:
                    tgt, val = st.target, st.value
                if not (isinstance(tgt, ast.Attribute) and isinstance(tgt.value, ast.Name) and tgt.value.id == "self" and isinstance(val, ast.Name)):
                    continue
                g = val.id
                if not _is_generated(g) or stores.get(g) != 1 or attr_stores.get(tgt.attr) != 1:
                    continue
                # g's definition: a plain assignment earlier in the same block
                d = [j for j, s2 in enumerate(body[:i]) if isinstance(s2, ast.Assign) and len(s2.targets) == 1
                     and isinstance(s2.targets[0], ast.Name) and s2.targets[0].id == g]
                if len(d) != 1:
                    continue
                # self.x must not be read between definition and copy (it would have seen the old value)
                between = body[d[0]:i]
                if any(isinstance(x, ast.Attribute) and x.attr == tgt.attr and isinstance(x.value, ast.Name) and x.value.id == "self"
                       for s2 in between for x in ast.walk(s2)):
                    continue
                cand = (body, st, g, tgt.attr)
                break
            if cand:
                break
        if cand is None:
            return
        body, st, g, attr = cand
        body.remove(st)

        class Ren(ast.NodeTransformer):
            def visit_Name(self, node):
                if node.id == g:
                    return ast.copy_location(ast.Attribute(value=ast.Name(id="self", ctx=ast.Load()), attr=attr, ctx=node.ctx), node)
                return node
        Ren().visit(fn)
        ast.fix_missing_locations(fn)


def _literal_node(e: ast.expr) -> bool:
    if isinstance(e, ast.Constant):
        return True
    if isinstance(e, (ast.Tuple, ast.List, ast.Set)):
        return all(_literal_node(x) for x in e.elts)
    if isinstance(e, ast.Dict):
        return all(k is not None and _literal_node(k) and _literal_node(v) for k, v in zip(e.keys, e.values))
    if isinstance(e, ast.BinOp) and isinstance(e.op, ast.Add):
        return _literal_node(e.left) and _literal_node(e.right)
    if isinstance(e, ast.UnaryOp) and isinstance(e.op, ast.USub):
        return _literal_node(e.operand)
    return False


def _tableish_node(e: ast.expr, depth: int = 0) -> bool:
    """Cell of a module-level table: a literal, a name, or a call of a name with such arguments (a class, or a closure factory
    applied to a class) - evaluating it again where it is used gives the same object for the purposes of the analysis."""
    if _literal_node(e):
        return True
    if isinstance(e, ast.Name):
        return True
    if isinstance(e, (ast.Tuple, ast.List)):
        return all(_tableish_node(x, depth) for x in e.elts)
    if isinstance(e, ast.Call) and isinstance(e.func, ast.Name) and depth < 2 and not e.keywords:
        return all(_tableish_node(a, depth + 1) for a in e.args)
    return False


def _module_tables(tree: ast.Module) -> Dict[str, ast.expr]:
    """Module-level names bound exactly once to a literal tuple/list (a table)."""
    count: Dict[str, int] = {}
    val: Dict[str, ast.expr] = {}
    for st in tree.body:
        tgt = v = None
        if isinstance(st, ast.Assign) and len(st.targets) == 1 and isinstance(st.targets[0], ast.Name):
            tgt, v = st.targets[0].id, st.value
        elif isinstance(st, ast.AnnAssign) and isinstance(st.target, ast.Name) and st.value is not None:
            tgt, v = st.target.id, st.value
        if tgt:
            count[tgt] = count.get(tgt, 0) + 1
            val[tgt] = v
    for n in ast.walk(tree):
        if isinstance(n, ast.Global):
            for g in n.names:
                count[g] = count.get(g, 0) + 1
    return {k: v for k, v in val.items() if count[k] == 1 and isinstance(v, (ast.Tuple, ast.List)) and len(v.elts) <= 40
            and (_literal_node(v) or (all(isinstance(r, (ast.Tuple, ast.List)) for r in v.elts) and _tableish_node(v)))}


_DICT_MUTATORS = {"update", "pop", "popitem", "setdefault", "clear", "__setitem__", "__delitem__"}


def _inline_module_literals(tree: ast.Module) -> None:
    """_NAME = "literal" (str / int / bool, private upper-case name bound exactly once at module level, never declared global):
    every read inside a function that does not bind the name itself is the literal."""
    count: Dict[str, int] = {}
    val: Dict[str, ast.Constant] = {}
    for n in ast.walk(tree):
        if isinstance(n, ast.Name) and isinstance(n.ctx, (ast.Store, ast.Del)):
            count[n.id] = count.get(n.id, 0) + 1
        elif isinstance(n, (ast.Global, ast.Nonlocal)):
            for g in n.names:
                count[g] = count.get(g, 0) + 2
    for st in tree.body:
        tgt = v = None
        if isinstance(st, ast.Assign) and len(st.targets) == 1 and isinstance(st.targets[0], ast.Name):
            tgt, v = st.targets[0].id, st.value
        elif isinstance(st, ast.AnnAssign) and isinstance(st.target, ast.Name) and st.value is not None:
            tgt, v = st.target.id, st.value
        is_slice = isinstance(v, ast.Call) and isinstance(v.func, ast.Name) and v.func.id == "slice" and not v.keywords \
            and 1 <= len(v.args) <= 3 and all(isinstance(a, ast.Constant) or (isinstance(a, ast.UnaryOp) and isinstance(a.operand, ast.Constant))
                                              for a in v.args)
        if tgt and count.get(tgt) == 1 and ((isinstance(v, ast.Constant) and isinstance(v.value, (str, int, bool))) or is_slice) \
                and tgt.startswith("_") and not tgt.startswith("__") and tgt.upper() == tgt:
            val[tgt] = v
    if not val:
        return

    class T(ast.NodeTransformer):
        def visit_Name(self, n):
            if isinstance(n.ctx, ast.Load) and n.id in val:
                return ast.copy_location(copy.deepcopy(val[n.id]), n)
            return n

        def visit_Subscript(self, n):
            self.generic_visit(n)
            sl = n.slice
            if isinstance(sl, ast.Call) and isinstance(sl.func, ast.Name) and sl.func.id == "slice" and not sl.keywords:
                # x[slice(a, b)] is x[a:b]
                a = list(sl.args)
                none = lambda e: None if (isinstance(e, ast.Constant) and e.value is None) else e
                if len(a) == 1:
                    n.slice = ast.Slice(lower=None, upper=none(a[0]), step=None)
                elif len(a) == 2:
                    n.slice = ast.Slice(lower=none(a[0]), upper=none(a[1]), step=None)
                elif len(a) == 3:
                    n.slice = ast.Slice(lower=none(a[0]), upper=none(a[1]), step=none(a[2]))
            return n
    for node in ast.walk(tree):
        if isinstance(node, ast.FunctionDef):
            params = {a.arg for a in node.args.posonlyargs + node.args.args + node.args.kwonlyargs}
            if not (params & set(val)):
                for i, st in enumerate(node.body):
                    node.body[i] = T().visit(st)
    ast.fix_missing_locations(tree)


def _inline_constant_dict_copies(tree: ast.Module) -> None:
    """NAME = {...} bound once at module level and never written through (no NAME[k] = v, del NAME[k], NAME.update(...) ...):
    a *copy* of it - dict(NAME), NAME.copy(), copy.copy(NAME), copy.deepcopy(NAME), {**NAME} - is the display itself."""
    count: Dict[str, int] = {}
    val: Dict[str, ast.Dict] = {}
    for st in tree.body:
        tgt = v = None
        if isinstance(st, ast.Assign) and len(st.targets) == 1 and isinstance(st.targets[0], ast.Name):
            tgt, v = st.targets[0].id, st.value
        elif isinstance(st, ast.AnnAssign) and isinstance(st.target, ast.Name) and st.value is not None:
            tgt, v = st.target.id, st.value
        if tgt:
            count[tgt] = count.get(tgt, 0) + 1
            if isinstance(v, ast.Dict) and all(k is not None for k in v.keys):
                val[tgt] = v
    cands = {k: v for k, v in val.items() if count[k] == 1}
    if not cands:
        return
    for n in ast.walk(tree):
        if isinstance(n, (ast.Global, ast.Nonlocal)):
            for g in n.names:
                cands.pop(g, None)
        if isinstance(n, ast.Subscript) and isinstance(n.ctx, (ast.Store, ast.Del)) and isinstance(n.value, ast.Name):
            cands.pop(n.value.id, None)
        if isinstance(n, ast.Call) and isinstance(n.func, ast.Attribute) and isinstance(n.func.value, ast.Name) \
                and n.func.attr in _DICT_MUTATORS:
            cands.pop(n.func.value.id, None)
        if isinstance(n, ast.AugAssign) and isinstance(n.target, ast.Name):
            cands.pop(n.target.id, None)
    if not cands:
        return

    def is_c(e):
        return isinstance(e, ast.Name) and e.id in cands and isinstance(e.ctx, ast.Load)

    class T(ast.NodeTransformer):
        def visit_Call(self, c):
            self.generic_visit(c)
            f = c.func
            if isinstance(f, ast.Name) and f.id == "dict" and len(c.args) == 1 and not c.keywords and is_c(c.args[0]):
                return ast.copy_location(copy.deepcopy(cands[c.args[0].id]), c)
            if isinstance(f, ast.Attribute) and f.attr == "copy" and not c.args and not c.keywords and is_c(f.value):
                return ast.copy_location(copy.deepcopy(cands[f.value.id]), c)
            if isinstance(f, ast.Attribute) and f.attr in ("copy", "deepcopy") and isinstance(f.value, ast.Name) and f.value.id == "copy" \
                    and len(c.args) == 1 and not c.keywords and is_c(c.args[0]):
                return ast.copy_location(copy.deepcopy(cands[c.args[0].id]), c)
            return c

        def visit_Dict(self, d):
            self.generic_visit(d)
            keys, values = [], []
            for k, v in zip(d.keys, d.values):
                if k is None and is_c(v):
                    src = copy.deepcopy(cands[v.id])
                    keys.extend(src.keys)
                    values.extend(src.values)
                else:
                    keys.append(k)
                    values.append(v)
            d.keys, d.values = keys, values
            return d
    for node in tree.body:
        if isinstance(node, (ast.FunctionDef, ast.ClassDef)):
            T().visit(node)
    ast.fix_missing_locations(tree)


def _expand_table_comprehensions(tree: ast.Module, tables: Dict[str, ast.expr]) -> None:
    """{f(k): v for k in TABLE} / [f(k) for k in TABLE] over a module-level literal table become displays; f-strings whose
    parts are all constants are folded; {**{...literal...}, ...} is spliced."""
    class T(ast.NodeTransformer):
        def _rows(self, comp):
            if len(comp.generators) != 1:
                return None
            g = comp.generators[0]
            if g.ifs or g.is_async:
                return None
            if isinstance(g.target, ast.Name):
                names = [g.target.id]
            elif isinstance(g.target, ast.Tuple) and all(isinstance(e, ast.Name) for e in g.target.elts):
                names = [e.id for e in g.target.elts]
            else:
                return None
            it = g.iter
            rows = None
            if isinstance(it, ast.Name) and it.id in tables:
                rows = tables[it.id].elts
            elif isinstance(it, (ast.Tuple, ast.List)) and _literal_node(it) and len(it.elts) <= 40:
                rows = it.elts
            if rows is None:
                return None
            if len(names) > 1 and not all(isinstance(r, (ast.Tuple, ast.List)) and len(r.elts) == len(names) for r in rows):
                return None
            return names, rows

        def visit_DictComp(self, node):
            self.generic_visit(node)
            r = self._rows(node)
            if r is None:
                return node
            names, rows = r
            keys, vals = [], []
            for row in rows:
                sub = _Subst({names[0]: row} if len(names) == 1 else dict(zip(names, row.elts)), {})
                keys.append(self.visit(sub.visit(copy.deepcopy(node.key))))
                vals.append(self.visit(sub.visit(copy.deepcopy(node.value))))
            return ast.copy_location(ast.Dict(keys=keys, values=vals), node)

        def visit_ListComp(self, node):
            self.generic_visit(node)
            r = self._rows(node)
            if r is None:
                return node
            names, rows = r
            elts = [self.visit(_Subst({names[0]: row} if len(names) == 1 else dict(zip(names, row.elts)), {}).visit(copy.deepcopy(node.elt)))
                    for row in rows]
            return ast.copy_location(ast.List(elts=elts, ctx=ast.Load()), node)

        def visit_JoinedStr(self, node):
            self.generic_visit(node)
            parts = []
            for v in node.values:
                if isinstance(v, ast.Constant) and isinstance(v.value, str):
                    parts.append(v.value)
                elif isinstance(v, ast.FormattedValue) and v.conversion == -1 and v.format_spec is None \
                        and isinstance(v.value, ast.Constant) and isinstance(v.value.value, (str, int)) \
                        and not isinstance(v.value.value, bool):
                    parts.append(str(v.value.value))
                else:
                    return node
            return ast.copy_location(ast.Constant(value="".join(parts)), node)

        def visit_Dict(self, node):
            self.generic_visit(node)
            if any(k is None and isinstance(v, ast.Dict) and all(x is not None for x in v.keys) for k, v in zip(node.keys, node.values)):
                keys, vals = [], []
                for k, v in zip(node.keys, node.values):
                    if k is None and isinstance(v, ast.Dict) and all(x is not None for x in v.keys):
                        keys.extend(v.keys)
                        vals.extend(v.values)
                    else:
                        keys.append(k)
                        vals.append(v)
                node.keys, node.values = keys, vals
            return node
    T().visit(tree)
    ast.fix_missing_locations(tree)


class _BetaReduce(ast.NodeTransformer):
    """(lambda x, y: E)(a, b) with plain positional arguments is E[x := a, y := b] (each parameter used at most once, or the
    argument a plain name / constant / attribute chain)."""

    def visit_Call(self, c):
        self.generic_visit(c)
        f = c.func
        if isinstance(f, ast.Lambda) and not c.keywords and not any(isinstance(a, ast.Starred) for a in c.args):
            a = f.args
            if a.vararg or a.kwarg or a.kwonlyargs or a.defaults or a.posonlyargs or len(a.args) != len(c.args):
                return c
            params = [x.arg for x in a.args]
            for p_, arg in zip(params, c.args):
                uses = sum(1 for n in ast.walk(f.body) if isinstance(n, ast.Name) and n.id == p_)
                if uses > 1 and not _simple_arg(arg):
                    return c
            return ast.copy_location(_Subst(dict(zip(params, c.args)), {}).visit(copy.deepcopy(f.body)), c)
        return c


class _JoinSingle(ast.NodeTransformer):
    """os.path.join(x) with one plain argument is x."""

    def visit_Call(self, c):
        self.generic_visit(c)
        if isinstance(c.func, ast.Attribute) and c.func.attr == "join" and isinstance(c.func.value, ast.Attribute) \
                and c.func.value.attr == "path" and isinstance(c.func.value.value, ast.Name) and c.func.value.value.id == "os" \
                and len(c.args) == 1 and not c.keywords and not isinstance(c.args[0], ast.Starred):
            return c.args[0]
        return c


def _search_defs_to_any(fn: ast.FunctionDef) -> None:
    """def p(x):                         (nested in fn, nothing else in the body)
           for e in IT: 
               if C: return K1           K1, K2 the two boolean constants
           return K2
    is   def p(x): return any(C for e in IT)   (K1 True)   /   return not any(C for e in IT)   (K1 False)."""
    for g in [n for n in ast.walk(fn) if isinstance(n, ast.FunctionDef) and n is not fn]:
        body = _body_wo_doc(g)
        if len(body) != 2 or not isinstance(body[0], ast.For) or body[0].orelse or not isinstance(body[1], ast.Return):
            continue
        loop, last = body
        if len(loop.body) != 1 or not isinstance(loop.body[0], ast.If) or loop.body[0].orelse or len(loop.body[0].body) != 1:
            continue
        ret = loop.body[0].body[0]
        if not (isinstance(ret, ast.Return) and isinstance(ret.value, ast.Constant) and isinstance(ret.value.value, bool)
                and isinstance(last.value, ast.Constant) and isinstance(last.value.value, bool)
                and ret.value.value != last.value.value):
            continue
        gen = ast.GeneratorExp(elt=loop.body[0].test, generators=[ast.comprehension(target=loop.target, iter=loop.iter, ifs=[], is_async=0)])
        call = ast.Call(func=ast.Name(id="any", ctx=ast.Load()), args=[gen], keywords=[])
        expr = call if ret.value.value else ast.UnaryOp(op=ast.Not(), operand=call)
        doc = g.body[:len(g.body) - 2]
        g.body = doc + [ast.copy_location(ast.Return(value=expr), last)]
        ast.fix_missing_locations(g)


def _inline_search_predicates(fn: ast.FunctionDef, module_defs: Optional[Dict[str, ast.FunctionDef]] = None) -> bool:
    """def p(x): [logging / plain call statements]; for e in IT: if C: return K1; return K2      nested in fn and only used as
    `if p(a): BODY` / `if not p(a): BODY` (plain-name arguments, no else): each such statement becomes the statements of the
    prelude followed by the search loop itself - `for e in IT: if C: break  else: BODY` when BODY runs for "no element
    matched", `for e in IT: if C: BODY; break` otherwise."""
    changed = False
    parents = {ch: par for par in ast.walk(fn) for ch in ast.iter_child_nodes(par)}
    local_defs = [n for n in ast.walk(fn) if isinstance(n, ast.FunctionDef) and n is not fn]
    for g in local_defs + [d for d in (module_defs or {}).values() if d is not fn]:
        is_local = any(g is x for x in local_defs)
        body = _body_wo_doc(g)
        a = g.args
        if len(body) < 2 or g.decorator_list or a.defaults or a.kwonlyargs or a.kwarg or a.vararg or a.posonlyargs:
            continue
        pre, loop, last = body[:-2], body[-2], body[-1]
        if not (isinstance(loop, ast.For) and not loop.orelse and isinstance(last, ast.Return) and len(loop.body) == 1
                and isinstance(loop.body[0], ast.If) and not loop.body[0].orelse and len(loop.body[0].body) == 1
                and all(isinstance(x, ast.Expr) and isinstance(x.value, ast.Call) for x in pre)):
            continue
        ret = loop.body[0].body[0]
        if not (isinstance(ret, ast.Return) and isinstance(ret.value, ast.Constant) and isinstance(ret.value.value, bool)
                and isinstance(last.value, ast.Constant) and isinstance(last.value.value, bool) and ret.value.value != last.value.value):
            continue
        params = [x.arg for x in a.args]
        uses = [n for n in ast.walk(fn) if isinstance(n, ast.Name) and n.id == g.name and not any(n is m for m in ast.walk(g))]
        sites = []
        ok = bool(uses)
        for u in uses:
            call = parents.get(u)
            test = call
            neg = False
            par = parents.get(call)
            if isinstance(par, ast.UnaryOp) and isinstance(par.op, ast.Not):
                test, neg, par = par, True, parents.get(par)
            if not (isinstance(call, ast.Call) and call.func is u and not call.keywords and len(call.args) == len(params)
                    and all(isinstance(x, ast.Name) or (not is_local and not isinstance(x, ast.Starred)) for x in call.args)
                    and isinstance(par, ast.If) and par.test is test and not par.orelse):
                ok = False
                break
            sites.append((par, call, neg))
        if not ok:
            continue
        if not is_local:
            # a module-level helper sees module names only: its own locals must not collide with names of the caller
            own = _assigned_names(g) | {n.id for n in ast.walk(loop.target) if isinstance(n, ast.Name)}
            if own & ({n.id for n in ast.walk(fn) if isinstance(n, ast.Name)} - set(params)):
                continue
        for if_st, call, neg in sites:
            m = {}
            bind_pre: List[ast.stmt] = []
            for k_, (p_, arg) in enumerate(zip(params, call.args)):
                uses_p = sum(1 for n in ast.walk(g) if isinstance(n, ast.Name) and n.id == p_)
                if _simple_arg(arg) or uses_p <= 1:
                    m[p_] = arg
                else:
                    tmp = f"_arg_{g.name.strip('_')}_{p_}"
                    bind_pre.append(ast.Assign(targets=[ast.Name(id=tmp, ctx=ast.Store())], value=copy.deepcopy(arg)))
                    m[p_] = ast.Name(id=tmp, ctx=ast.Load())
            sub = lambda node: _Subst(m, {}).visit(copy.deepcopy(node))
            on_match = ret.value.value != neg        # BODY runs when an element matched?
            if on_match:
                if any(isinstance(n, (ast.Break, ast.Continue)) for b in if_st.body for n in ast.walk(b)):
                    ok = False
                    break
                new_loop = ast.For(target=copy.deepcopy(loop.target), iter=sub(loop.iter),
                                   body=[ast.If(test=sub(loop.body[0].test), body=list(if_st.body) + [ast.Break()], orelse=[])],
                                   orelse=[], type_comment=None)
            else:
                new_loop = ast.For(target=copy.deepcopy(loop.target), iter=sub(loop.iter),
                                   body=[ast.If(test=sub(loop.body[0].test), body=[ast.Break()], orelse=[])],
                                   orelse=list(if_st.body), type_comment=None)
            new = bind_pre + [sub(x) for x in pre] + [new_loop]
            for x in new:
                ast.copy_location(x, if_st)
                ast.fix_missing_locations(x)
            for owner in ast.walk(fn):
                for field in ("body", "orelse", "finalbody"):
                    blk = getattr(owner, field, None)
                    if isinstance(blk, list) and any(x is if_st for x in blk):
                        i = [k for k, x in enumerate(blk) if x is if_st][0]
                        blk[i:i + 1] = new
        if not ok:
            continue
        if is_local:
            for owner in ast.walk(fn):
                for field in ("body", "orelse", "finalbody"):
                    blk = getattr(owner, field, None)
                    if isinstance(blk, list) and any(x is g for x in blk):
                        blk[:] = [x for x in blk if x is not g] or [ast.Pass()]
        ast.fix_missing_locations(fn)
        changed = True
        parents = {ch: par for par in ast.walk(fn) for ch in ast.iter_child_nodes(par)}
    return changed


def _any_to_search_loops(fn: ast.FunctionDef) -> bool:
    """if not any(C for e in IT): BODY      (statement, no else)   is   for e in IT: if C: break   else: BODY
    if any(C for e in IT): BODY                                    is   for e in IT: if C: BODY; break       (BODY without break/continue)"""
    changed = False
    for owner in ast.walk(fn):
        for field in ("body", "orelse", "finalbody"):
            block = getattr(owner, field, None)
            if not isinstance(block, list):
                continue
            for i, st in enumerate(block):
                if not (isinstance(st, ast.If) and not st.orelse):
                    continue
                t, neg = st.test, False
                if isinstance(t, ast.UnaryOp) and isinstance(t.op, ast.Not):
                    t, neg = t.operand, True
                if not (isinstance(t, ast.Call) and isinstance(t.func, ast.Name) and t.func.id == "any" and len(t.args) == 1
                        and not t.keywords and isinstance(t.args[0], (ast.GeneratorExp, ast.ListComp)) and len(t.args[0].generators) == 1
                        and not t.args[0].generators[0].is_async):
                    continue
                comp = t.args[0].generators[0]
                cond = t.args[0].elt
                for extra in reversed(comp.ifs):
                    cond = ast.BoolOp(op=ast.And(), values=[extra, cond])
                targets = {n.id for n in ast.walk(comp.target) if isinstance(n, ast.Name)}
                if any(isinstance(n, ast.Name) and n.id in targets for b in st.body for n in ast.walk(b)):
                    continue            # the body would see the loop variable
                if neg:
                    new = ast.For(target=comp.target, iter=comp.iter, body=[ast.If(test=cond, body=[ast.Break()], orelse=[])],
                                  orelse=list(st.body), type_comment=None)
                else:
                    if any(isinstance(n, (ast.Break, ast.Continue)) for b in st.body for n in ast.walk(b)):
                        continue
                    new = ast.For(target=comp.target, iter=comp.iter,
                                  body=[ast.If(test=cond, body=list(st.body) + [ast.Break()], orelse=[])], orelse=[], type_comment=None)
                for n in ast.walk(new):
                    if isinstance(n, ast.Name) and n.id in targets and isinstance(n.ctx, ast.Load) and any(n is x for x in ast.walk(comp.target)):
                        pass
                def to_store(tn):
                    for n in ast.walk(tn):
                        if isinstance(n, (ast.Name, ast.Tuple, ast.List, ast.Starred)):
                            n.ctx = ast.Store()
                to_store(new.target)
                ast.copy_location(new, st)
                ast.fix_missing_locations(new)
                block[i] = new
                changed = True
    return changed


def _inline_expression_closures(fn: ast.FunctionDef) -> bool:
    """def g(a, *rest): return EXPR   nested in `fn` (no decorators, defaults or keyword-only parameters; `g` bound once and
    only ever called with plain positional arguments; the enclosing function's names that EXPR reads are bound at most once in
    it): every call g(x, y, z) is EXPR with a := x and `*rest` spelled out as y, z.  The closure itself is removed."""
    changed = False
    # g = lambda a: EXPR   bound once at the top level of the function reads like   def g(a): return EXPR
    stores_: Dict[str, int] = {}
    for n in ast.walk(fn):
        if isinstance(n, ast.Name) and isinstance(n.ctx, (ast.Store, ast.Del)):
            stores_[n.id] = stores_.get(n.id, 0) + 1
    for i_, st_ in enumerate(list(fn.body)):
        if isinstance(st_, ast.Assign) and len(st_.targets) == 1 and isinstance(st_.targets[0], ast.Name) \
                and isinstance(st_.value, ast.Lambda) and stores_.get(st_.targets[0].id) == 1:
            g_ = ast.FunctionDef(name=st_.targets[0].id, args=st_.value.args, body=[ast.Return(value=st_.value.body)],
                                 decorator_list=[], returns=None, type_params=[])
            ast.copy_location(g_, st_)
            ast.fix_missing_locations(g_)
            fn.body[fn.body.index(st_)] = g_
    _search_defs_to_any(fn)
    nested = [n for n in ast.walk(fn) if isinstance(n, ast.FunctionDef) and n is not fn
              and not any(isinstance(o, (ast.FunctionDef, ast.ClassDef, ast.Lambda)) and o is not fn and o is not n
                          and any(x is n for x in ast.walk(o)) for o in ast.walk(fn))]
    for g in nested:
        body = _body_wo_doc(g)
        a = g.args
        if len(body) != 1 or not isinstance(body[0], ast.Return) or body[0].value is None or g.decorator_list \
                or a.defaults or a.kwonlyargs or a.kwarg or a.posonlyargs:
            continue
        expr = body[0].value
        if any(isinstance(n, (ast.Lambda, ast.Yield, ast.YieldFrom, ast.Await, ast.NamedExpr)) for n in ast.walk(expr)):
            continue
        params = [x.arg for x in a.args]
        comp_targets = {n.id for c_ in ast.walk(expr) if isinstance(c_, ast.comprehension) for n in ast.walk(c_.target)
                        if isinstance(n, ast.Name)}
        if comp_targets & (set(params) | ({a.vararg.arg} if a.vararg else set())):
            continue
        var = a.vararg.arg if a.vararg else None
        # uses of g in the enclosing function
        uses = [n for n in ast.walk(fn) if isinstance(n, ast.Name) and n.id == g.name and not any(n is m for m in ast.walk(g))]
        calls = [c for c in ast.walk(fn) if isinstance(c, ast.Call) and isinstance(c.func, ast.Name) and c.func.id == g.name
                 and not any(c is m for m in ast.walk(g))]
        if not calls or len(uses) != len(calls) or any(c.keywords or any(isinstance(x, ast.Starred) for x in c.args) for c in calls):
            continue
        if any((len(c.args) < len(params)) or (len(c.args) > len(params) and var is None) for c in calls):
            continue
        # *rest may only be forwarded as *rest
        if var is not None:
            starred_ok = {id(n.value) for n in ast.walk(expr) if isinstance(n, ast.Starred) and isinstance(n.value, ast.Name)
                          and n.value.id == var}
            if any(isinstance(n, ast.Name) and n.id == var and id(n) not in starred_ok for n in ast.walk(expr)):
                continue
        # free names: bound at most once in the enclosing function, so reading them at the call site is reading the same value
        stores: Dict[str, int] = {}
        for n in ast.walk(fn):
            if any(n is m for m in ast.walk(g)):
                continue
            if isinstance(n, ast.Name) and isinstance(n.ctx, (ast.Store, ast.Del)):
                stores[n.id] = stores.get(n.id, 0) + 1
        free = {n.id for n in ast.walk(expr) if isinstance(n, ast.Name) and n.id not in params and n.id != var}
        fparams = {x.arg for x in fn.args.posonlyargs + fn.args.args + fn.args.kwonlyargs}
        if any(stores.get(v, 0) > 1 or (v in fparams and stores.get(v, 0) > 0) for v in free):
            continue
        # parameters are substituted textually: each is used at most once, or the argument is a plain name / constant / chain
        counts = {p_: sum(1 for n in ast.walk(expr) if isinstance(n, ast.Name) and n.id == p_) for p_ in params}
        if any(counts[p_] > 1 and not all(_simple_arg(c.args[i]) for c in calls) for i, p_ in enumerate(params)):
            continue

        class Sub(ast.NodeTransformer):
            def __init__(self, call):
                self.m = {p_: call.args[i] for i, p_ in enumerate(params)}
                self.rest = list(call.args[len(params):])

            def visit_Call(self, c):
                new_args = []
                for x in c.args:
                    if isinstance(x, ast.Starred) and isinstance(x.value, ast.Name) and x.value.id == var:
                        new_args.extend(copy.deepcopy(r) for r in self.rest)
                    else:
                        new_args.append(x)
                c.args = new_args
                self.generic_visit(c)
                return c

            def visit_Name(self, n):
                if n.id in self.m and isinstance(n.ctx, ast.Load):
                    return copy.deepcopy(self.m[n.id])
                return n

        class Repl(ast.NodeTransformer):
            def visit_FunctionDef(self, node):
                return node if node is g else self.generic_visit(node)

            def visit_Call(self, c):
                self.generic_visit(c)
                if isinstance(c.func, ast.Name) and c.func.id == g.name:
                    return ast.copy_location(_JoinSingle().visit(Sub(c).visit(copy.deepcopy(expr))), c)
                return c
        for owner in ast.walk(fn):
            for field in ("body", "orelse", "finalbody"):
                blk = getattr(owner, field, None)
                if isinstance(blk, list) and any(x is g for x in blk):
                    blk[:] = [x for x in blk if x is not g] or [ast.Pass()]
        for i, st in enumerate(fn.body):
            fn.body[i] = Repl().visit(st)
        ast.fix_missing_locations(fn)
        changed = True
    return changed


def _is_cm_decorator(d: ast.expr) -> bool:
    return (isinstance(d, ast.Name) and d.id == "contextmanager") or \
        (isinstance(d, ast.Attribute) and d.attr == "contextmanager")


def _inline_contextmanagers(tree: ast.Module) -> List[str]:
    """with _cm(args) as t: BODY   where _cm is a @contextmanager generator of the module (or a method of the same class called
    through self) of the shape  PRE; yield V; POST  or  PRE; try: PRE2; yield V; POST2 except/finally ...; POST:
    the statement is what the generator protocol makes of it - PRE; t = V; BODY; POST (the try wrapped around BODY in the
    second shape).  The context manager itself is dropped once nothing refers to it."""
    used: List[str] = []

    def shape(fn: ast.FunctionDef):
        body = _body_wo_doc(fn)
        ys = [n for n in ast.walk(fn) if isinstance(n, (ast.Yield, ast.YieldFrom))]
        if len(ys) != 1 or not isinstance(ys[0], ast.Yield) or any(isinstance(n, ast.Return) and n.value is not None for n in ast.walk(fn)):
            return None

        def split(stmts):
            for i, st in enumerate(stmts):
                if isinstance(st, ast.Expr) and st.value is ys[0]:
                    return stmts[:i], stmts[i + 1:]
            return None
        sp = split(body)
        if sp is not None:
            return ("flat", sp[0], sp[1], None)
        for i, st in enumerate(body):
            if isinstance(st, ast.Try) and any(n is ys[0] for n in ast.walk(st)):
                inner = split(st.body)
                if inner is None or any(any(n is ys[0] for n in ast.walk(x)) for x in st.handlers + st.orelse + st.finalbody):
                    return None
                return ("try", body[:i], body[i + 1:], (st, inner[0], inner[1]))
        return None

    def expand(with_st: ast.With, fn: ast.FunctionDef, is_method: bool) -> Optional[List[ast.stmt]]:
        sh = shape(fn)
        if sh is None or len(with_st.items) != 1:
            return None
        item = with_st.items[0]
        if item.optional_vars is not None and not isinstance(item.optional_vars, ast.Name):
            return None
        inl = _Inliner({}, {})
        inl.counter = expand.counter = getattr(expand, "counter", 0) + 1
        b = inl.bind(fn, item.context_expr, is_method)
        if b is None:
            return None
        prelude, mapping, rename, tag = b
        ys = [n for n in ast.walk(fn) if isinstance(n, ast.Yield)][0]

        def conv(stmts):
            return [_Subst(mapping, rename).visit(copy.deepcopy(x)) for x in stmts]
        val = _Subst(mapping, rename).visit(copy.deepcopy(ys.value)) if ys.value is not None else ast.Constant(value=None)
        bind_t = [ast.Assign(targets=[ast.Name(id=item.optional_vars.id, ctx=ast.Store())], value=val)] if item.optional_vars is not None \
            else ([ast.Expr(value=val)] if any(isinstance(n, ast.Call) for n in ast.walk(val)) else [])
        kind, pre, post, tr = sh
        if kind == "flat":
            out = prelude + conv(pre) + bind_t + list(with_st.body) + conv(post)
        else:
            t, pre2, post2 = tr
            new_try = ast.Try(body=conv(pre2) + bind_t + list(with_st.body) + conv(post2), handlers=conv(t.handlers),
                              orelse=conv(t.orelse), finalbody=conv(t.finalbody))
            out = prelude + conv(pre) + [new_try] + conv(post)
        for x in out:
            ast.copy_location(x, with_st)
            ast.fix_missing_locations(x)
        return out

    mod_cms = {n.name: n for n in tree.body if isinstance(n, ast.FunctionDef) and any(_is_cm_decorator(d) for d in n.decorator_list)}

    def rewrite(block: List[ast.stmt], cls_cms: Dict[str, ast.FunctionDef]) -> None:
        i = 0
        while i < len(block):
            st = block[i]
            for field in ("body", "orelse", "finalbody"):
                sub = getattr(st, field, None)
                if isinstance(sub, list) and not isinstance(st, (ast.FunctionDef, ast.ClassDef)):
                    rewrite(sub, cls_cms)
            if isinstance(st, ast.Try):
                for h in st.handlers:
                    rewrite(h.body, cls_cms)
            if isinstance(st, ast.With) and len(st.items) == 1 and isinstance(st.items[0].context_expr, ast.Call):
                f = st.items[0].context_expr.func
                target = None
                if isinstance(f, ast.Name) and f.id in mod_cms:
                    target = (mod_cms[f.id], False)
                elif isinstance(f, ast.Attribute) and isinstance(f.value, ast.Name) and f.value.id == "self" and f.attr in cls_cms:
                    target = (cls_cms[f.attr], True)
                if target is not None:
                    fn2 = copy.deepcopy(target[0])
                    fn2.decorator_list = []
                    new = expand(st, fn2, target[1])
                    if new is not None:
                        block[i:i + 1] = new
                        used.append(target[0].name)
                        i += len(new)
                        continue
            i += 1

    for node in tree.body:
        if isinstance(node, ast.FunctionDef) and node.name not in mod_cms:
            rewrite(node.body, {})
        elif isinstance(node, ast.ClassDef):
            cls_cms = {m.name: m for m in node.body if isinstance(m, ast.FunctionDef) and any(_is_cm_decorator(d) for d in m.decorator_list)}
            for m in node.body:
                if isinstance(m, ast.FunctionDef) and m.name not in cls_cms:
                    rewrite(m.body, cls_cms)
    # drop the ones nothing refers to any more
    for name in set(used):
        refs = [n for n in ast.walk(tree) if (isinstance(n, ast.Name) and n.id == name and isinstance(n.ctx, ast.Load))
                or (isinstance(n, ast.Attribute) and n.attr == name)]
        if not refs:
            tree.body = [n for n in tree.body if not (isinstance(n, ast.FunctionDef) and n.name == name)]
            for c in tree.body:
                if isinstance(c, ast.ClassDef):
                    c.body = [m for m in c.body if not (isinstance(m, ast.FunctionDef) and m.name == name)] or [ast.Pass()]
    ast.fix_missing_locations(tree)
    return sorted(set(used))


def _enum_rows(tree: ast.Module) -> Dict[str, List[ast.expr]]:
    """Enum classes of the module -> their members in definition order, as `Class.MEMBER` expressions."""
    out: Dict[str, List[ast.expr]] = {}
    for c in tree.body:
        if isinstance(c, ast.ClassDef) and any((isinstance(b, ast.Name) and b.id in ("Enum", "IntEnum", "Flag"))
                                                or (isinstance(b, ast.Attribute) and b.attr in ("Enum", "IntEnum")) for b in c.bases):
            rows = []
            for st in c.body:
                if isinstance(st, ast.Assign) and len(st.targets) == 1 and isinstance(st.targets[0], ast.Name) \
                        and not st.targets[0].id.startswith("_"):
                    rows.append(ast.Attribute(value=ast.Name(id=c.name, ctx=ast.Load()), attr=st.targets[0].id, ctx=ast.Load()))
            if rows:
                out[c.name] = rows
    return out


def _unroll_search_loops(fn: ast.FunctionDef, enum_rows: Dict[str, List[ast.expr]]) -> bool:
    """for x in EnumClass: if COND(x): break   [else: ORELSE]     (nothing else in the loop)
    is the search  if COND(m1): x = m1  elif COND(m2): x = m2 ...  else: ORELSE  over the members in definition order."""
    changed = False
    for owner in ast.walk(fn):
        for field in ("body", "orelse", "finalbody"):
            block = getattr(owner, field, None)
            if not isinstance(block, list):
                continue
            for i, st in enumerate(block):
                if not (isinstance(st, ast.For) and isinstance(st.iter, ast.Name) and st.iter.id in enum_rows
                        and isinstance(st.target, ast.Name) and len(st.body) == 1 and isinstance(st.body[0], ast.If)
                        and not st.body[0].orelse and len(st.body[0].body) == 1 and isinstance(st.body[0].body[0], ast.Break)):
                    continue
                rows = enum_rows[st.iter.id]
                x = st.target.id
                cond = st.body[0].test
                if any(isinstance(n, ast.Name) and n.id == x and isinstance(n.ctx, ast.Store) for n in ast.walk(cond)):
                    continue
                tail: List[ast.stmt] = list(st.orelse) if st.orelse else \
                    [ast.Assign(targets=[ast.Name(id=x, ctx=ast.Store())], value=copy.deepcopy(rows[-1]))]
                for r in reversed(rows):
                    test = _Subst({x: r}, {}).visit(copy.deepcopy(cond))
                    tail = [ast.If(test=test, body=[ast.Assign(targets=[ast.Name(id=x, ctx=ast.Store())], value=copy.deepcopy(r))],
                                   orelse=tail)]
                new = tail[0]
                ast.copy_location(new, st)
                ast.fix_missing_locations(new)
                block[i] = new
                changed = True
    return changed


def _islice_to_break(fn: ast.FunctionDef) -> bool:
    """D = <iterable>                      (D bound nowhere else)
       if C: D = itertools.islice(D, 1)
       for T in D: BODY
    takes at most one element when C holds: it is  for T in <iterable>: BODY; if C: break  with the cut-off also placed in front of
    every `continue` of that loop (a `continue` would otherwise skip it).  C must not be changed by BODY (plain names /
    attribute chains that BODY does not store to)."""
    changed = False
    for owner in ast.walk(fn):
        for field in ("body", "orelse", "finalbody"):
            block = getattr(owner, field, None)
            if not isinstance(block, list):
                continue
            for i in range(len(block) - 2):
                a, c, lp = block[i], block[i + 1], block[i + 2]
                if not (isinstance(a, ast.Assign) and len(a.targets) == 1 and isinstance(a.targets[0], ast.Name)
                        and isinstance(c, ast.If) and not c.orelse and len(c.body) == 1 and isinstance(c.body[0], ast.Assign)
                        and isinstance(lp, ast.For) and isinstance(lp.iter, ast.Name) and lp.iter.id == a.targets[0].id and not lp.orelse):
                    continue
                d = a.targets[0].id
                re_ = c.body[0]
                v = re_.value
                if not (len(re_.targets) == 1 and isinstance(re_.targets[0], ast.Name) and re_.targets[0].id == d
                        and isinstance(v, ast.Call) and ((isinstance(v.func, ast.Attribute) and v.func.attr == "islice")
                                                         or (isinstance(v.func, ast.Name) and v.func.id == "islice"))
                        and len(v.args) == 2 and isinstance(v.args[0], ast.Name) and v.args[0].id == d
                        and isinstance(v.args[1], ast.Constant) and v.args[1].value == 1 and not v.keywords):
                    continue
                if sum(1 for n in ast.walk(fn) if isinstance(n, ast.Name) and n.id == d) != 4:
                    continue
                cond_names = {norm_ for norm_ in (ast.unparse(x) for x in ast.walk(c.test) if isinstance(x, (ast.Name, ast.Attribute)))}
                stored = {ast.unparse(x) for b in lp.body for x in ast.walk(b)
                          if isinstance(x, (ast.Name, ast.Attribute)) and isinstance(x.ctx, (ast.Store, ast.Del))}
                if cond_names & stored:
                    continue

                def cut():
                    return ast.If(test=copy.deepcopy(c.test), body=[ast.Break()], orelse=[])

                def place(stmts, depth_loops=0):
                    out = []
                    for st in stmts:
                        if isinstance(st, ast.Continue) and depth_loops == 0:
                            out.append(cut())
                            out.append(st)
                            continue
                        for f2 in ("body", "orelse", "finalbody"):
                            sub = getattr(st, f2, None)
                            if isinstance(sub, list) and not isinstance(st, (ast.FunctionDef, ast.ClassDef)):
                                inner = depth_loops + (1 if isinstance(st, (ast.For, ast.While)) and f2 == "body" else 0)
                                setattr(st, f2, place(sub, inner))
                        if isinstance(st, ast.Try):
                            for h in st.handlers:
                                h.body = place(h.body, depth_loops)
                        out.append(st)
                    return out
                lp.body = place(lp.body) + [cut()]
                lp.iter = a.value
                block[i:i + 3] = [lp]
                ast.fix_missing_locations(lp)
                changed = True
                break
    return changed


def _collect_then_remove(fn: ast.FunctionDef) -> bool:
    """Two spellings of "remove from L every element for which ...", written as the canonical remove-loop over a copy:
      U = [x for x in L if c]            ;  for y in U: L.remove(y)
      U = [] ; for x in L: ... U.append(x) ... ;  for y in U: L.remove(y)       (U used nowhere else)
    become   for x in copy.copy(L): if c: L.remove(x)   /   the collecting loop over copy.copy(L) with L.remove(x) in place of
    U.append(x)."""
    changed = False

    def copy_of(name_node):
        return ast.Call(func=ast.Attribute(value=ast.Name(id="copy", ctx=ast.Load()), attr="copy", ctx=ast.Load()),
                        args=[copy.deepcopy(name_node)], keywords=[])

    def removal_loop(st, u, lname):
        return isinstance(st, ast.For) and not st.orelse and isinstance(st.iter, ast.Name) and st.iter.id == u \
            and isinstance(st.target, ast.Name) and len(st.body) == 1 and isinstance(st.body[0], ast.Expr) \
            and isinstance(st.body[0].value, ast.Call) and isinstance(st.body[0].value.func, ast.Attribute) \
            and st.body[0].value.func.attr == "remove" and isinstance(st.body[0].value.func.value, ast.Name) \
            and st.body[0].value.func.value.id == lname and len(st.body[0].value.args) == 1 \
            and isinstance(st.body[0].value.args[0], ast.Name) and st.body[0].value.args[0].id == st.target.id

    def uses(name):
        return sum(1 for n in ast.walk(fn) if isinstance(n, ast.Name) and n.id == name)
    for owner in ast.walk(fn):
        for field in ("body", "orelse", "finalbody"):
            block = getattr(owner, field, None)
            if not isinstance(block, list):
                continue
            i = 0
            while i < len(block):
                st = block[i]
                # pattern A
                if i + 1 < len(block) and isinstance(st, ast.Assign) and len(st.targets) == 1 and isinstance(st.targets[0], ast.Name) \
                        and isinstance(st.value, ast.ListComp) and len(st.value.generators) == 1 and not st.value.generators[0].is_async \
                        and isinstance(st.value.generators[0].iter, ast.Name) and isinstance(st.value.generators[0].target, ast.Name) \
                        and isinstance(st.value.elt, ast.Name) and st.value.elt.id == st.value.generators[0].target.id \
                        and st.value.generators[0].ifs:
                    u, g = st.targets[0].id, st.value.generators[0]
                    if removal_loop(block[i + 1], u, g.iter.id) and uses(u) == 2:
                        cond = g.ifs[0] if len(g.ifs) == 1 else ast.BoolOp(op=ast.And(), values=list(g.ifs))
                        rm = ast.Expr(value=ast.Call(func=ast.Attribute(value=ast.Name(id=g.iter.id, ctx=ast.Load()), attr="remove", ctx=ast.Load()),
                                                     args=[ast.Name(id=g.target.id, ctx=ast.Load())], keywords=[]))
                        new = ast.For(target=ast.Name(id=g.target.id, ctx=ast.Store()), iter=copy_of(g.iter),
                                      body=[ast.If(test=cond, body=[rm], orelse=[])], orelse=[], type_comment=None)
                        ast.copy_location(new, st)
                        ast.fix_missing_locations(new)
                        block[i:i + 2] = [new]
                        changed = True
                        continue
                # pattern B
                if i + 2 < len(block) and isinstance(st, ast.Assign) and len(st.targets) == 1 and isinstance(st.targets[0], ast.Name) \
                        and isinstance(st.value, ast.List) and not st.value.elts and isinstance(block[i + 1], ast.For) \
                        and not block[i + 1].orelse and isinstance(block[i + 1].iter, ast.Name) and isinstance(block[i + 1].target, ast.Name):
                    u, loop = st.targets[0].id, block[i + 1]
                    lname, x = loop.iter.id, loop.target.id
                    appends = [c for c in ast.walk(loop) if isinstance(c, ast.Call) and isinstance(c.func, ast.Attribute)
                               and isinstance(c.func.value, ast.Name) and c.func.value.id == u]
                    if removal_loop(block[i + 2], u, lname) and appends and all(
                            c.func.attr == "append" and len(c.args) == 1 and isinstance(c.args[0], ast.Name) and c.args[0].id == x
                            for c in appends) and uses(u) == 2 + len(appends) \
                            and not any(isinstance(n, (ast.Break, ast.Continue)) for n in ast.walk(loop)):
                        for c in appends:
                            c.func = ast.Attribute(value=ast.Name(id=lname, ctx=ast.Load()), attr="remove", ctx=ast.Load())
                        loop.iter = copy_of(loop.iter)
                        ast.fix_missing_locations(loop)
                        block[i:i + 3] = [loop]
                        changed = True
                        continue
                i += 1
    return changed


def _accumulate_to_comp(fn: ast.FunctionDef) -> bool:
    """L = []  directly followed by  for T in XS: L.append(E)   (optionally under one `if c:` without else; nothing else in the
    loop, L not read in E/c/XS): the same list as  L = [E for T in XS if c]."""
    changed = False
    for owner in ast.walk(fn):
        for field in ("body", "orelse", "finalbody"):
            block = getattr(owner, field, None)
            if not isinstance(block, list):
                continue
            i = 0
            while i + 1 < len(block):
                a, lp = block[i], block[i + 1]
                i += 1
                if not (isinstance(a, ast.Assign) and len(a.targets) == 1 and isinstance(a.targets[0], ast.Name)
                        and isinstance(a.value, ast.List) and not a.value.elts and isinstance(lp, ast.For) and not lp.orelse
                        and len(lp.body) == 1):
                    continue
                name = a.targets[0].id
                inner, cond = lp.body[0], None
                if isinstance(inner, ast.If) and not inner.orelse and len(inner.body) == 1:
                    inner, cond = inner.body[0], inner.test
                if not (isinstance(inner, ast.Expr) and isinstance(inner.value, ast.Call) and isinstance(inner.value.func, ast.Attribute)
                        and inner.value.func.attr == "append" and isinstance(inner.value.func.value, ast.Name)
                        and inner.value.func.value.id == name and len(inner.value.args) == 1 and not inner.value.keywords):
                    continue
                elt = inner.value.args[0]
                reads = [n for part in (elt, cond, lp.iter, lp.target) if part is not None for n in ast.walk(part)
                         if isinstance(n, ast.Name) and n.id == name]
                if reads or any(isinstance(n, (ast.Yield, ast.YieldFrom, ast.Await, ast.NamedExpr)) for n in ast.walk(lp)):
                    continue
                comp = ast.ListComp(elt=elt, generators=[ast.comprehension(target=lp.target, iter=lp.iter,
                                                                              ifs=[cond] if cond is not None else [], is_async=0)])
                a.value = ast.copy_location(comp, a.value)
                del block[i]
                ast.fix_missing_locations(a)
                changed = True
    return changed


def _pure_cell(e: ast.expr) -> bool:
    """A constant, a name or an attribute chain on a name: reading it again gives the same value."""
    while isinstance(e, (ast.Attribute, ast.Subscript)):
        if isinstance(e, ast.Subscript) and not _pure_cell(e.slice):
            return False
        e = e.value
    return isinstance(e, (ast.Name, ast.Constant))


def _inline_display_rows(st: ast.For, display: Optional[ast.expr] = None) -> Optional[List[ast.expr]]:
    """for a, b in [(x1, y1), (x2, y2)]: body   with the display written in place and pure cells, where the body stores neither
    to the cells' roots nor through them: the rows (the loop is the body once per row)."""
    it = display if display is not None else st.iter
    if not (isinstance(it, (ast.List, ast.Tuple)) and 1 <= len(it.elts) <= 12):
        return None
    cells = []
    for r in it.elts:
        if isinstance(r, (ast.Tuple, ast.List)):
            cells.extend(r.elts)
        else:
            cells.append(r)
    if not cells or not all(_pure_cell(c) for c in cells):
        return None
    roots = set()
    for c in cells:
        roots |= {n.id for n in ast.walk(c) if isinstance(n, ast.Name)}
    cell_texts = {ast.dump(c) for c in cells if isinstance(c, ast.Attribute)}
    for b in st.body:
        for n in ast.walk(b):
            if isinstance(n, ast.Name) and isinstance(n.ctx, (ast.Store, ast.Del)) and n.id in roots:
                return None
            if isinstance(n, ast.Attribute) and isinstance(n.ctx, (ast.Store, ast.Del)):
                probe = copy.deepcopy(n)
                probe.ctx = ast.Load()
                if ast.dump(probe) in cell_texts:
                    return None
    return list(it.elts)


def _unroll_table_loops(fn: ast.FunctionDef, tables: Dict[str, ast.expr]) -> bool:
    """for a, b in TABLE: body   with TABLE a module-level literal table: one copy of the body per row, the loop variables
    replaced by the row's literals; f(*<tuple literal>, **<dict literal>) is then written out as explicit arguments."""
    changed = False

    class Expand(ast.NodeTransformer):
        def visit_Call(self, c):
            self.generic_visit(c)
            args = []
            for a in c.args:
                if isinstance(a, ast.Starred) and isinstance(a.value, (ast.Tuple, ast.List)):
                    args.extend(a.value.elts)
                else:
                    args.append(a)
            kws = []
            for k in c.keywords:
                if k.arg is None and isinstance(k.value, ast.Dict) and all(isinstance(x, ast.Constant) and isinstance(x.value, str) for x in k.value.keys):
                    kws.extend(ast.keyword(arg=x.value, value=v) for x, v in zip(k.value.keys, k.value.values))
                else:
                    kws.append(k)
            c.args, c.keywords = args, kws
            return c

    for owner in ast.walk(fn):
        for field in ("body", "orelse", "finalbody"):
            block = getattr(owner, field, None)
            if not isinstance(block, list):
                continue
            i = 0
            while i < len(block):
                st = block[i]
                inline_rows = _inline_display_rows(st) if isinstance(st, ast.For) else None
                if inline_rows is None and isinstance(st, ast.For) and isinstance(st.iter, ast.Name) and i > 0 \
                        and isinstance(block[i - 1], ast.Assign) and len(block[i - 1].targets) == 1 \
                        and isinstance(block[i - 1].targets[0], ast.Name) and block[i - 1].targets[0].id == st.iter.id \
                        and sum(1 for n in ast.walk(fn) if isinstance(n, ast.Name) and n.id == st.iter.id) == 2:
                    # rows = (<display>)  directly before  `for ... in rows:`  and no other use of the name
                    inline_rows = _inline_display_rows(st, block[i - 1].value)
                    if inline_rows is not None:
                        del block[i - 1]
                        i -= 1
                if isinstance(st, ast.For) and ((isinstance(st.iter, ast.Name) and st.iter.id in tables) or inline_rows is not None) \
                        and not st.orelse and not any(isinstance(n, (ast.Break, ast.Continue)) for n in ast.walk(st)):
                    rows = inline_rows if inline_rows is not None else tables[st.iter.id].elts
                    tnames = [st.target.id] if isinstance(st.target, ast.Name) else \
                        [e.id for e in st.target.elts] if isinstance(st.target, ast.Tuple) and all(isinstance(e, ast.Name) for e in st.target.elts) else None
                    ok = tnames is not None and not any(isinstance(n, ast.Name) and n.id in tnames and isinstance(n.ctx, ast.Store)
                                                        for b in st.body for n in ast.walk(b))
                    if ok and isinstance(st.target, ast.Tuple):
                        ok = all(isinstance(r, (ast.Tuple, ast.List)) and len(r.elts) == len(tnames) for r in rows)
                    if ok:
                        new = []
                        for r in rows:
                            m = {tnames[0]: r} if isinstance(st.target, ast.Name) else dict(zip(tnames, r.elts))
                            sub = _Subst(m, {})
                            for b in st.body:
                                nb = Expand().visit(sub.visit(copy.deepcopy(b)))
                                ast.copy_location(nb, st)
                                ast.fix_missing_locations(nb)
                                new.append(nb)
                        block[i:i + 1] = new
                        i += len(new)
                        changed = True
                        continue
                i += 1
    return changed


def _inline_attr_aliases(fn: ast.FunctionDef) -> None:
    """x = <param or once-assigned name>.a.b   (a pure attribute chain, x assigned exactly once, never deleted, the chain's root
    never rebound and no store through the chain anywhere in the function): every read of x is written as the chain.  Covers
    `is_excluded = spec.match_file`, `auto_exclude = settings.input.auto_exclude_directories_without_cmake`, ..."""
    params = {a.arg for a in fn.args.posonlyargs + fn.args.args + fn.args.kwonlyargs}
    for _ in range(12):
        stores: Dict[str, int] = {}
        for n in ast.walk(fn):
            if isinstance(n, ast.Name) and isinstance(n.ctx, (ast.Store, ast.Del)):
                stores[n.id] = stores.get(n.id, 0) + 1
            elif isinstance(n, (ast.Global, ast.Nonlocal)):
                for g in n.names:
                    stores[g] = stores.get(g, 0) + 2
        cand = None
        for owner in ast.walk(fn):
            for field in ("body", "orelse", "finalbody"):
                blk = getattr(owner, field, None)
                if not isinstance(blk, list):
                    continue
                for st in blk:
                    tgt = val = None
                    if isinstance(st, ast.Assign) and len(st.targets) == 1:
                        tgt, val = st.targets[0], st.value
                    elif isinstance(st, ast.AnnAssign) and st.value is not None:
                        tgt, val = st.target, st.value
                    if not (isinstance(tgt, ast.Name) and isinstance(val, ast.Attribute)) or stores.get(tgt.id) != 1 or tgt.id in params:
                        continue
                    chain = []
                    b = val
                    while isinstance(b, ast.Attribute):
                        chain.append(b.attr)
                        b = b.value
                    if not isinstance(b, ast.Name) or b.id == "self":
                        continue
                    root = b.id
                    if not (root in params and stores.get(root, 0) == 0) and not (stores.get(root) == 1 and root not in params):
                        continue
                    text = ast.unparse(val)
                    # no store through the chain (or a prefix / extension of it) anywhere in the function
                    mutated = False
                    for n in ast.walk(fn):
                        if isinstance(n, (ast.Attribute, ast.Subscript)) and isinstance(n.ctx, (ast.Store, ast.Del)):
                            t = ast.unparse(n)
                            if t.startswith(root + ".") and (t.startswith(text) or text.startswith(t)):
                                mutated = True
                    if mutated:
                        continue
                    # every read of the alias lies in the statements that follow its definition in the same block
                    idx0 = blk.index(st)
                    later_ids = {id(x) for later in blk[idx0 + 1:] for x in ast.walk(later)}
                    loads = [x for x in ast.walk(fn) if isinstance(x, ast.Name) and x.id == tgt.id and isinstance(x.ctx, ast.Load)]
                    if not loads or any(id(x) not in later_ids for x in loads):
                        continue
                    cand = (blk, st, tgt.id, val)
                    break
                if cand:
                    break
            if cand:
                break
        if cand is None:
            return
        blk, st, name, val = cand
        idx = blk.index(st)
        # uses before the definition (none in valid code) are left alone: only replace in statements after it
        class R(ast.NodeTransformer):
            def visit_Name(self, node):
                if node.id == name and isinstance(node.ctx, ast.Load):
                    return ast.copy_location(copy.deepcopy(val), node)
                return node
        for later in blk[idx + 1:]:
            R().visit(later)
        blk.remove(st)
        ast.fix_missing_locations(fn)


def _tag_fusion(fn: ast.FunctionDef) -> None:
    """k = TAG_1 if/elif/else chain (one assignment of a distinct constant tag per arm, nothing else), k only ever compared with
    tags afterwards: every `k is TAG_i` / `k == TAG_i` is replaced by the condition under which arm i is taken."""
    for owner in ast.walk(fn):
        for field in ("body", "orelse", "finalbody"):
            block = getattr(owner, field, None)
            if not isinstance(block, list):
                continue
            for st in block:
                if not isinstance(st, ast.If):
                    continue
                arms = []       # (tests so far negated, test or None, tag text)
                cur = st
                prev: List[ast.expr] = []
                var = None
                ok = True
                while True:
                    body = cur.body
                    if not (len(body) == 1 and isinstance(body[0], ast.Assign) and len(body[0].targets) == 1
                            and isinstance(body[0].targets[0], ast.Name) and isinstance(body[0].value, (ast.Attribute, ast.Constant))):
                        ok = False
                        break
                    v = body[0].targets[0].id
                    if var is None:
                        var = v
                    if v != var:
                        ok = False
                        break
                    arms.append((list(prev), cur.test, ast.unparse(body[0].value)))
                    prev = prev + [cur.test]
                    if len(cur.orelse) == 1 and isinstance(cur.orelse[0], ast.If):
                        cur = cur.orelse[0]
                        continue
                    if cur.orelse:
                        eb = cur.orelse
                        if not (len(eb) == 1 and isinstance(eb[0], ast.Assign) and len(eb[0].targets) == 1 and isinstance(eb[0].targets[0], ast.Name)
                                and eb[0].targets[0].id == var and isinstance(eb[0].value, (ast.Attribute, ast.Constant))):
                            ok = False
                            break
                        arms.append((list(prev), None, ast.unparse(eb[0].value)))
                    break
                if not ok or var is None or len(arms) < 2 or len({a[2] for a in arms}) != len(arms):
                    continue
                # all other stores / uses of var
                inside = {id(n) for n in ast.walk(st)}
                stores = [n for n in ast.walk(fn) if isinstance(n, ast.Name) and n.id == var and isinstance(n.ctx, ast.Store) and id(n) not in inside]
                if stores:
                    continue
                parents = {ch: p for p in ast.walk(fn) for ch in ast.iter_child_nodes(p)}
                loads = [n for n in ast.walk(fn) if isinstance(n, ast.Name) and n.id == var and isinstance(n.ctx, ast.Load)]
                tags = {a[2]: a for a in arms}
                repl = {}
                good = True
                for n in loads:
                    p = parents.get(n)
                    if isinstance(p, ast.Compare) and p.left is n and len(p.ops) == 1 and isinstance(p.ops[0], (ast.Is, ast.Eq, ast.IsNot, ast.NotEq)) \
                            and ast.unparse(p.comparators[0]) in tags:
                        negs, test, _tag = tags[ast.unparse(p.comparators[0])]
                        parts = [ast.UnaryOp(op=ast.Not(), operand=copy.deepcopy(x)) for x in negs] + ([copy.deepcopy(test)] if test is not None else [])
                        cond = parts[0] if len(parts) == 1 else ast.BoolOp(op=ast.And(), values=parts)
                        if isinstance(p.ops[0], (ast.IsNot, ast.NotEq)):
                            cond = ast.UnaryOp(op=ast.Not(), operand=cond)
                        repl[id(p)] = cond
                    else:
                        good = False
                if not good or not repl:
                    continue

                class R(ast.NodeTransformer):
                    def visit_Compare(self, node):
                        if id(node) in repl:
                            return ast.copy_location(repl[id(node)], node)
                        self.generic_visit(node)
                        return node
                R().visit(fn)
                ast.fix_missing_locations(fn)
                return


def _splice_dict_kwargs(fn: ast.FunctionDef) -> None:
    """d = {<constant str keys>: ...} assigned once and used only as f(**d): written as explicit keywords."""
    stores: Dict[str, List[ast.Assign]] = {}
    for n in ast.walk(fn):
        if isinstance(n, ast.Assign) and len(n.targets) == 1 and isinstance(n.targets[0], ast.Name):
            stores.setdefault(n.targets[0].id, []).append(n)
    parents = {ch: p for p in ast.walk(fn) for ch in ast.iter_child_nodes(p)}
    for name, defs in stores.items():
        if len(defs) != 1 or not isinstance(defs[0].value, ast.Dict):
            continue
        d = defs[0].value
        if not d.keys or not all(isinstance(k, ast.Constant) and isinstance(k.value, str) for k in d.keys):
            continue
        all_stores = [n for n in ast.walk(fn) if isinstance(n, ast.Name) and n.id == name and isinstance(n.ctx, ast.Store)]
        loads = [n for n in ast.walk(fn) if isinstance(n, ast.Name) and n.id == name and isinstance(n.ctx, ast.Load)]
        if len(all_stores) != 1 or len(loads) != 1:
            continue
        kw = parents.get(loads[0])
        call = parents.get(kw)
        if not (isinstance(kw, ast.keyword) and kw.arg is None and isinstance(call, ast.Call)):
            continue
        i = call.keywords.index(kw)
        call.keywords[i:i + 1] = [ast.keyword(arg=k.value, value=v) for k, v in zip(d.keys, d.values)]
        for owner in ast.walk(fn):
            for field in ("body", "orelse", "finalbody"):
                blk = getattr(owner, field, None)
                if isinstance(blk, list) and defs[0] in blk:
                    blk.remove(defs[0])
                    if not blk:
                        blk.append(ast.Pass())
        ast.fix_missing_locations(fn)


def _slice_filters(fn: ast.FunctionDef) -> None:
    """L[:] = [x for x in L if c]   ==>   for x in list(L): if not c: L.remove(x)
    (equal for lists without duplicates, which is what os.walk hands out; canonical form of in-place pruning)."""
    class T(ast.NodeTransformer):
        def visit_Assign(self, node):
            if len(node.targets) == 1 and isinstance(node.targets[0], ast.Subscript) and isinstance(node.targets[0].value, ast.Name) \
                    and isinstance(node.targets[0].slice, ast.Slice) and node.targets[0].slice.lower is None \
                    and node.targets[0].slice.upper is None and node.targets[0].slice.step is None \
                    and isinstance(node.value, ast.ListComp) and len(node.value.generators) == 1:
                L = node.targets[0].value.id
                g = node.value.generators[0]
                if isinstance(g.iter, ast.Name) and g.iter.id == L and isinstance(g.target, ast.Name) \
                        and isinstance(node.value.elt, ast.Name) and node.value.elt.id == g.target.id and g.ifs and not g.is_async:
                    keep = g.ifs[0] if len(g.ifs) == 1 else ast.BoolOp(op=ast.And(), values=list(g.ifs))
                    drop = keep.operand if isinstance(keep, ast.UnaryOp) and isinstance(keep.op, ast.Not) else ast.UnaryOp(op=ast.Not(), operand=keep)
                    rm = ast.Expr(value=ast.Call(func=ast.Attribute(value=ast.Name(id=L, ctx=ast.Load()), attr="remove", ctx=ast.Load()),
                                                 args=[ast.Name(id=g.target.id, ctx=ast.Load())], keywords=[]))
                    loop = ast.For(target=ast.Name(id=g.target.id, ctx=ast.Store()),
                                   iter=ast.Call(func=ast.Name(id="list", ctx=ast.Load()), args=[ast.Name(id=L, ctx=ast.Load())], keywords=[]),
                                   body=[ast.If(test=drop, body=[rm], orelse=[])], orelse=[], type_comment=None)
                    ast.copy_location(loop, node)
                    ast.fix_missing_locations(loop)
                    return loop
            return node
    T().visit(fn)


def _fission(fn: ast.FunctionDef) -> bool:
    """Loop fission over a locally built list:

        L = [e1(v) for v in A if c] if COND else []
        L += [e2(w) for w in B if d]
        for x in L: body(x)
    ==>
        if COND:
            for v in A:
                if c: body(e1(v))
        for w in B:
            if d: body(e2(w))

    Only when L is used nowhere else, the body has no break / else, and the comprehension variables are fresh."""
    changed = False
    for _ in range(10):
        hit = None
        for owner in ast.walk(fn):
            for field in ("body", "orelse", "finalbody"):
                block = getattr(owner, field, None)
                if not isinstance(block, list):
                    continue
                for li, loop in enumerate(block):
                    if not (isinstance(loop, ast.For) and isinstance(loop.iter, ast.Name) and isinstance(loop.target, ast.Name) and not loop.orelse):
                        continue
                    L, x = loop.iter.id, loop.target.id
                    if any(isinstance(n, ast.Break) for n in ast.walk(loop)) or \
                            any(isinstance(n, ast.Name) and n.id == x and isinstance(n.ctx, ast.Store) for st in loop.body for n in ast.walk(st)):
                        continue
                    builders = []
                    ok = True
                    for bi, st in enumerate(block[:li]):
                        if isinstance(st, ast.Assign) and len(st.targets) == 1 and isinstance(st.targets[0], ast.Name) and st.targets[0].id == L:
                            builders.append((bi, st.value, True))
                        elif isinstance(st, ast.AugAssign) and isinstance(st.target, ast.Name) and st.target.id == L and isinstance(st.op, ast.Add):
                            builders.append((bi, st.value, False))
                        elif isinstance(st, ast.Expr) and isinstance(st.value, ast.Call) and isinstance(st.value.func, ast.Attribute) \
                                and st.value.func.attr == "extend" and isinstance(st.value.func.value, ast.Name) and st.value.func.value.id == L \
                                and len(st.value.args) == 1:
                            builders.append((bi, st.value.args[0], False))
                    if not builders or not builders[0][2] or any(b[2] for b in builders[1:]):
                        continue
                    # every other mention of L in the function disqualifies
                    mentions = [n for n in ast.walk(fn) if isinstance(n, ast.Name) and n.id == L]
                    if len(mentions) != len(builders) + 1:
                        continue
                    pieces = []
                    for bi, val, _first in builders:
                        cond = None
                        if isinstance(val, ast.IfExp) and isinstance(val.orelse, ast.List) and not val.orelse.elts:
                            cond, val = val.test, val.body
                        if isinstance(val, ast.List) and not val.elts:
                            continue
                        if isinstance(val, ast.ListComp) and len(val.generators) == 1 and not val.generators[0].is_async:
                            g = val.generators[0]
                            tn = {n.id for n in ast.walk(g.target) if isinstance(n, ast.Name)}
                            inside = {id(n) for n in ast.walk(val)}
                            if any(isinstance(n, ast.Name) and n.id in tn and id(n) not in inside for n in ast.walk(fn)):
                                ok = False
                                break
                            pieces.append((cond, val))
                        else:
                            ok = False
                            break
                    if ok:
                        hit = (block, li, loop, [b[0] for b in builders], pieces, x)
                        break
                if hit:
                    break
            if hit:
                break
        if hit is None:
            return changed
        block, li, loop, bidx, pieces, x = hit
        new_loops: List[ast.stmt] = []
        for cond, comp in pieces:
            g = comp.generators[0]

            class Sub(ast.NodeTransformer):
                def visit_Name(self, node):
                    if node.id == x and isinstance(node.ctx, ast.Load):
                        return ast.copy_location(copy.deepcopy(comp.elt), node)
                    return node
            body = [Sub().visit(copy.deepcopy(st)) for st in loop.body]
            if g.ifs:
                test = g.ifs[0] if len(g.ifs) == 1 else ast.BoolOp(op=ast.And(), values=list(g.ifs))
                body = [ast.copy_location(ast.If(test=test, body=body, orelse=[]), loop)]
            tgt = copy.deepcopy(g.target)
            for n in ast.walk(tgt):
                if isinstance(n, ast.Name):
                    n.ctx = ast.Store()
            f = ast.copy_location(ast.For(target=tgt, iter=g.iter, body=body, orelse=[], type_comment=None), loop)
            if cond is not None:
                f = ast.copy_location(ast.If(test=cond, body=[f], orelse=[]), loop)
            new_loops.append(f)
        keep = [st for i, st in enumerate(block) if i not in bidx and i != li]
        pos = li - len(bidx)
        block[:] = keep[:pos] + new_loops + keep[pos:]
        if not block:
            block.append(ast.Pass())
        ast.fix_missing_locations(fn)
        changed = True
    return changed


def _cleanup(fn: ast.FunctionDef, records: Optional[Dict[str, List[str]]] = None) -> None:
    """After inlining: split `a, b = (x, y)` into single assignments and coalesce `x = y` copies between two names that
    are each assigned exactly once in the function (one of them generated by the inliner)."""
    class Split(ast.NodeTransformer):
        def visit_FunctionDef(self, node):
            if node is fn:
                self.generic_visit(node)
            return node

        def visit_Lambda(self, node):
            return node

        def visit_Assign(self, node):
            if len(node.targets) == 1 and isinstance(node.targets[0], ast.Tuple) and isinstance(node.value, ast.Tuple) \
                    and len(node.targets[0].elts) == len(node.value.elts) \
                    and all(isinstance(t, ast.Name) for t in node.targets[0].elts):
                tn = {t.id for t in node.targets[0].elts}
                if not any(isinstance(x, ast.Name) and x.id in tn for v in node.value.elts for x in ast.walk(v)):
                    return [ast.copy_location(ast.Assign(targets=[t], value=v), node) for t, v in zip(node.targets[0].elts, node.value.elts)]
            return node
    Split().visit(fn)

    class DropIdentity(ast.NodeTransformer):
        # x = x  (left behind when a helper returns its argument unchanged on one path)
        def visit_Assign(self, node):
            if len(node.targets) == 1 and isinstance(node.targets[0], ast.Name) and isinstance(node.value, ast.Name) \
                    and node.targets[0].id == node.value.id:
                return ast.copy_location(ast.Pass(), node)
            return node
    DropIdentity().visit(fn)
    params = {a.arg for a in fn.args.posonlyargs + fn.args.args + fn.args.kwonlyargs}
    if fn.args.vararg:
        params.add(fn.args.vararg.arg)
    if fn.args.kwarg:
        params.add(fn.args.kwarg.arg)
    for _ in range(50):
        stores: Dict[str, int] = {}
        declared: Set[str] = set()
        for n in ast.walk(fn):
            if isinstance(n, ast.Name) and isinstance(n.ctx, (ast.Store, ast.Del)):
                stores[n.id] = stores.get(n.id, 0) + 1
            elif isinstance(n, (ast.Global, ast.Nonlocal)):
                declared.update(n.names)
            elif isinstance(n, ast.ExceptHandler) and n.name:
                stores[n.name] = stores.get(n.name, 0) + 2
        copy_stmt = None
        for n in ast.walk(fn):
            if isinstance(n, ast.Assign) and len(n.targets) == 1 and isinstance(n.targets[0], ast.Name) and isinstance(n.value, ast.Name):
                x, y = n.targets[0].id, n.value.id
                if x != y and stores.get(x) == 1 and stores.get(y) == 1 and not ({x, y} & (params | declared)) \
                        and (_is_generated(x) or _is_generated(y)):
                    copy_stmt = n
                    break
        if copy_stmt is None:
            break
        x, y = copy_stmt.targets[0].id, copy_stmt.value.id
        keep, drop = (y, x) if _is_generated(x) else (x, y)

        class Ren(ast.NodeTransformer):
            def visit_Name(self, node):
                if node.id == drop:
                    node.id = keep
                return node

            def generic_visit(self, node):
                super().generic_visit(node)
                for field in ("body", "orelse", "finalbody"):
                    b = getattr(node, field, None)
                    if isinstance(b, list) and copy_stmt in b:
                        b.remove(copy_stmt)
                        if not b and field == "body":
                            b.append(ast.copy_location(ast.Pass(), copy_stmt))
                return node
        Ren().visit(fn)
    if records:
        _scalarise(fn, records)
    if fn.args.args and fn.args.args[0].arg == "self":
        _self_coalesce(fn)
    _fission(fn)


RE_METHODS = {"sub", "subn", "match", "search", "fullmatch", "split", "findall", "finditer"}


def expand_compiled_regexes(tree: ast.Module) -> ast.Module:
    """NAME = re.compile(<literal pattern>[, flags]) at module level, bound once: NAME.sub(r, s) is written re.sub(<pattern>, r, s)
    (and likewise match/search/fullmatch/split/findall), so that rules see the pattern at the place where it is applied."""
    tree = copy.deepcopy(tree)
    count: Dict[str, int] = {}
    pats: Dict[str, ast.Call] = {}
    for st in tree.body:
        tgt = v = None
        if isinstance(st, ast.Assign) and len(st.targets) == 1 and isinstance(st.targets[0], ast.Name):
            tgt, v = st.targets[0].id, st.value
        elif isinstance(st, ast.AnnAssign) and isinstance(st.target, ast.Name) and st.value is not None:
            tgt, v = st.target.id, st.value
        if tgt:
            count[tgt] = count.get(tgt, 0) + 1
            if isinstance(v, ast.Call) and ast.unparse(v.func) == "re.compile" and v.args and isinstance(v.args[0], ast.Constant):
                pats[tgt] = v
    pats = {k: v for k, v in pats.items() if count[k] == 1}
    if not pats:
        return tree
    for n in ast.walk(tree):
        if isinstance(n, (ast.Global,)):
            for g in n.names:
                pats.pop(g, None)

    class T(ast.NodeTransformer):
        def visit_Call(self, c):
            self.generic_visit(c)
            f = c.func
            if isinstance(f, ast.Attribute) and f.attr in RE_METHODS and isinstance(f.value, ast.Name) and f.value.id in pats:
                comp = pats[f.value.id]
                new = ast.Call(func=ast.Attribute(value=ast.Name(id="re", ctx=ast.Load()), attr=f.attr, ctx=ast.Load()),
                               args=[copy.deepcopy(comp.args[0])] + c.args,
                               keywords=c.keywords + ([ast.keyword(arg="flags", value=copy.deepcopy(comp.args[1]))] if len(comp.args) > 1 else [])
                               + [copy.deepcopy(k) for k in comp.keywords])
                return ast.copy_location(new, c)
            return c
    T().visit(tree)
    ast.fix_missing_locations(tree)
    return tree


def joins_to_loops(fn: ast.FunctionDef, is_generator_call) -> ast.FunctionDef:
    """`return "".join(e(v) for v in G(...))` / `x = "".join(...)` where G is a generator of the repository (decided by the
    callback) becomes an accumulation loop `acc = ""; for v in G(...): acc += e(v)`: the loop form is the one in which a
    generator can be followed yield by yield."""
    hit = [False]

    def rewrite(value: ast.expr):
        if isinstance(value, ast.Call) and isinstance(value.func, ast.Attribute) and value.func.attr == "join" \
                and isinstance(value.func.value, ast.Constant) and value.func.value.value == "" and len(value.args) == 1 \
                and isinstance(value.args[0], (ast.GeneratorExp, ast.ListComp)) and len(value.args[0].generators) == 1:
            g = value.args[0].generators[0]
            if not g.ifs and isinstance(g.iter, ast.Call) and is_generator_call(g.iter):
                acc = "__joined"
                init = ast.Assign(targets=[ast.Name(id=acc, ctx=ast.Store())], value=ast.Constant(value=""))
                tgt = copy.deepcopy(g.target)
                for n in ast.walk(tgt):
                    if isinstance(n, ast.Name):
                        n.ctx = ast.Store()
                loop = ast.For(target=tgt, iter=g.iter, orelse=[], type_comment=None,
                               body=[ast.AugAssign(target=ast.Name(id=acc, ctx=ast.Store()), op=ast.Add(), value=value.args[0].elt)])
                return [init, loop], ast.Name(id=acc, ctx=ast.Load())
        return None
    fn2 = copy.deepcopy(fn)

    class T(ast.NodeTransformer):
        def visit_FunctionDef(self, node):
            if node is fn2:
                self.generic_visit(node)
            return node

        def _do(self, node):
            r = rewrite(node.value) if node.value is not None else None
            if r is None:
                return node
            pre, name = r
            node.value = name
            hit[0] = True
            out = pre + [node]
            for st in out:
                ast.copy_location(st, node)
                ast.fix_missing_locations(st)
            return out

        visit_Return = _do
        visit_Assign = _do
    T().visit(fn2)
    return fn2 if hit[0] else fn


def comps_to_loops(fn: ast.FunctionDef) -> ast.FunctionDef:
    """A copy of `fn` in which `X = [e(v) for v in IT if c]` (one generator, X a plain name) is written as
    `X = []; for v in IT: if c: X.append(e(v))` - the form in which the evaluator can follow helper calls inside `e` path by
    path."""
    fn2 = copy.deepcopy(fn)

    class T(ast.NodeTransformer):
        def visit_FunctionDef(self, node):
            if node is fn2:
                self.generic_visit(node)
            return node

        def visit_Lambda(self, node):
            return node

        def visit_Assign(self, node):
            if len(node.targets) == 1 and isinstance(node.targets[0], ast.Name) and isinstance(node.value, ast.ListComp) \
                    and len(node.value.generators) == 1 and not node.value.generators[0].is_async:
                g = node.value.generators[0]
                x = node.targets[0].id
                if any(isinstance(n, ast.Name) and n.id == x for n in ast.walk(node.value)):
                    return node
                push = ast.Expr(value=ast.Call(func=ast.Attribute(value=ast.Name(id=x, ctx=ast.Load()), attr="append", ctx=ast.Load()),
                                               args=[node.value.elt], keywords=[]))
                body: List[ast.stmt] = [push]
                if g.ifs:
                    test = g.ifs[0] if len(g.ifs) == 1 else ast.BoolOp(op=ast.And(), values=list(g.ifs))
                    body = [ast.If(test=test, body=body, orelse=[])]
                tgt = copy.deepcopy(g.target)
                for n in ast.walk(tgt):
                    if isinstance(n, ast.Name):
                        n.ctx = ast.Store()
                init = ast.Assign(targets=[ast.Name(id=x, ctx=ast.Store())], value=ast.List(elts=[], ctx=ast.Load()))
                loop = ast.For(target=tgt, iter=g.iter, body=body, orelse=[], type_comment=None)
                for st in (init, loop):
                    ast.copy_location(st, node)
                    ast.fix_missing_locations(st)
                return [init, loop]
            return node
    T().visit(fn2)
    return fn2


def expand_decorators(tree: ast.Module) -> Tuple[ast.Module, List[str]]:
    """Methods / functions decorated with a wrapper factory defined in the same module

        def factory(p1, p2=...):                       def decorator(func):
            def decorator(func):             or            @functools.wraps(func)
                @functools.wraps(func)                      def wrapper(<params>): ...; return func(<args>)
                def wrapper(<params>): ... func(<args>) ... return wrapper
                return wrapper
            return decorator

    are rewritten to what runs: the decorated definition becomes the wrapper's body with the factory parameters replaced by
    the decorator's (literal) arguments and the call of `func` redirected to the undecorated original, kept next to it under
    the name `_undecorated__<name>`.  Returns (copy of the tree, names of the expanded decorators)."""
    tree = copy.deepcopy(tree)
    used: List[str] = []
    factories: Dict[str, ast.FunctionDef] = {n.name: n for n in tree.body if isinstance(n, ast.FunctionDef)}

    def wrapper_of(decorator_fn: ast.FunctionDef):
        body = _body_wo_doc(decorator_fn)
        if len(body) == 2 and isinstance(body[0], ast.FunctionDef) and isinstance(body[1], ast.Return) \
                and isinstance(body[1].value, ast.Name) and body[1].value.id == body[0].name and len(decorator_fn.args.args) == 1:
            return body[0], decorator_fn.args.args[0].arg
        return None

    def plan(dec: ast.expr):
        """-> (wrapper FunctionDef, name of the wrapped-function parameter, {factory param: argument expr}) or None"""
        if isinstance(dec, ast.Name) and dec.id in factories:
            w = wrapper_of(factories[dec.id])
            return (w[0], w[1], {}, dec.id) if w else None
        if isinstance(dec, ast.Call) and isinstance(dec.func, ast.Name) and dec.func.id in factories:
            fac = factories[dec.func.id]
            body = _body_wo_doc(fac)
            if not (len(body) == 2 and isinstance(body[0], ast.FunctionDef) and isinstance(body[1], ast.Return)
                    and isinstance(body[1].value, ast.Name) and body[1].value.id == body[0].name):
                return None
            w = wrapper_of(body[0])
            if w is None:
                return None
            params = [a.arg for a in fac.args.args]
            defaults = dict(zip(params[len(params) - len(fac.args.defaults):], fac.args.defaults))
            given: Dict[str, ast.expr] = dict(defaults)
            if len(dec.args) > len(params) or any(isinstance(a, ast.Starred) for a in dec.args):
                return None
            for pn, a in zip(params, dec.args):
                given[pn] = a
            for k in dec.keywords:
                if k.arg is None or k.arg not in params:
                    return None
                given[k.arg] = k.value
            if set(given) != set(params) or not all(_literal_node(v) or isinstance(v, ast.Name) for v in given.values()):
                return None
            return w[0], w[1], given, dec.func.id
        return None

    def rewrite(owner_body: List[ast.stmt]):
        i = 0
        while i < len(owner_body):
            fn = owner_body[i]
            if isinstance(fn, ast.FunctionDef) and len(fn.decorator_list) == 1:
                pl = plan(fn.decorator_list[0])
                if pl is not None:
                    wrapper, func_param, given, dname = pl
                    is_method = bool(fn.args.args) and fn.args.args[0].arg == "self"
                    orig = copy.deepcopy(fn)
                    orig.decorator_list = []
                    orig.name = "_undecorated__" + fn.name
                    new = copy.deepcopy(wrapper)
                    new.decorator_list = [d for d in new.decorator_list if "wraps" not in ast.unparse(d)]
                    if new.decorator_list:
                        i += 1
                        continue
                    new.name = fn.name
                    for a in new.args.args:
                        a.annotation = None
                    new.returns = None

                    class R(ast.NodeTransformer):
                        def visit_Call(self, c):
                            self.generic_visit(c)
                            if isinstance(c.func, ast.Name) and c.func.id == func_param:
                                if is_method and c.args and isinstance(c.args[0], ast.Name) and c.args[0].id == "self":
                                    return ast.copy_location(ast.Call(func=ast.Attribute(value=ast.Name(id="self", ctx=ast.Load()),
                                                                                        attr=orig.name, ctx=ast.Load()),
                                                                      args=c.args[1:], keywords=c.keywords), c)
                                return ast.copy_location(ast.Call(func=ast.Name(id=orig.name, ctx=ast.Load()), args=c.args,
                                                                  keywords=c.keywords), c)
                            return c
                    new = R().visit(_Subst(given, {}).visit(new))
                    new = _Fold().visit(new)
                    ast.copy_location(new, fn)
                    ast.fix_missing_locations(new)
                    ast.fix_missing_locations(orig)
                    owner_body[i:i + 1] = [orig, new]
                    used.append(dname)
                    i += 2
                    continue
            i += 1
    rewrite(tree.body)
    for c in tree.body:
        if isinstance(c, ast.ClassDef):
            rewrite(c.body)
    return tree, sorted(set(used))


def flatten_module(tree: ast.Module, underscore_only: bool = False,
                   imported: Optional[Dict[str, ast.FunctionDef]] = None) -> Tuple[ast.Module, List[str]]:
    """Returns (flattened copy, names of the helpers that were inlined)."""
    global UNDERSCORE_ONLY
    UNDERSCORE_ONLY = underscore_only
    try:
        return _flatten_module(tree, imported or {})
    finally:
        UNDERSCORE_ONLY = False


def _flatten_module(tree: ast.Module, imported: Dict[str, ast.FunctionDef]) -> Tuple[ast.Module, List[str]]:
    tree = copy.deepcopy(tree)
    lifted_names = _lift_record_behaviour(tree)
    helpers = {n.name: n for n in tree.body if isinstance(n, ast.FunctionDef) and _eligible(n, False)}
    for iname, ifn in imported.items():
        if iname not in helpers and _eligible(ifn, False):
            helpers[iname] = copy.deepcopy(ifn)
    gens = {n.name: n for n in tree.body if isinstance(n, ast.FunctionDef) and _is_private(n.name)
            and any(isinstance(x, ast.Yield) for x in ast.walk(n))}
    all_functions = {n.name: n for n in tree.body if isinstance(n, ast.FunctionDef) and _is_private(n.name)}
    inlined: List[str] = []
    _Inliner.class_helpers = {(c.name, f.name): f for c in tree.body if isinstance(c, ast.ClassDef) for f in c.body
                              if isinstance(f, ast.FunctionDef) and f.decorator_list and _eligible(f, True)
                              and not any(isinstance(k, ast.ClassDef) and k is not c and any(
                                  isinstance(g, ast.FunctionDef) and g.name == f.name for g in k.body) for k in tree.body)}
    # ... also reachable through the classes that inherit them (a private mix-in with a classmethod factory)
    local = {c.name: c for c in tree.body if isinstance(c, ast.ClassDef)}
    for c in local.values():
        todo = [b.id for b in c.bases if isinstance(b, ast.Name) and b.id in local]
        seen_b = set()
        while todo:
            b = todo.pop()
            if b in seen_b:
                continue
            seen_b.add(b)
            for (cn, fn_), f in list(_Inliner.class_helpers.items()):
                if cn == b and (c.name, fn_) not in _Inliner.class_helpers \
                        and not any(isinstance(g, ast.FunctionDef) and g.name == fn_ for g in c.body):
                    _Inliner.class_helpers[(c.name, fn_)] = f
            todo.extend(x.id for x in local[b].bases if isinstance(x, ast.Name) and x.id in local)
    records = _record_classes(tree)
    _inline_module_literals(tree)
    tables = _module_tables(tree)
    enums = _enum_rows(tree)
    _inline_constant_dict_copies(tree)
    if not UNDERSCORE_ONLY:
        for node in ast.walk(tree):
            if isinstance(node, ast.FunctionDef):
                _inline_expression_closures(node)
    _expand_table_comprehensions(tree, tables)
    if tables:
        for node in ast.walk(tree):
            if isinstance(node, ast.FunctionDef):
                _unroll_table_loops(node, tables)
    # module-level functions
    for _round in range(MAX_DEPTH):
        changed = False
        for node in tree.body:
            if isinstance(node, ast.FunctionDef):
                inl = _Inliner({k: v for k, v in helpers.items() if k != node.name}, {})
                inl.generators = {k: v for k, v in gens.items() if k != node.name}
                inl.factories = all_functions
                node.body = inl.inline_block(node.body)
                if inl.used:
                    _cleanup(node, records)
                    changed = True
                    inlined.extend(sorted(inl.used))
            elif isinstance(node, ast.ClassDef):
                # a helper method that another class of the module also defines may be overridden: `self.m()` is then
                # dispatched dynamically and must not be bound statically here (the evaluator resolves it per class)
                elsewhere = {f.name for c in tree.body if isinstance(c, ast.ClassDef) and c is not node
                             for f in c.body if isinstance(f, ast.FunctionDef)}
                mh = {n.name: n for n in node.body if isinstance(n, ast.FunctionDef) and _eligible(n, True) and n.name not in elsewhere
                      and not any(isinstance(d, ast.Name) and d.id == "classmethod" for d in n.decorator_list)}
                for m in node.body:
                    if isinstance(m, ast.FunctionDef):
                        inl = _Inliner(helpers, {k: v for k, v in mh.items() if k != m.name})
                        inl.generators = gens
                        inl.factories = all_functions
                        inl.method_generators = {n.name: n for n in node.body if isinstance(n, ast.FunctionDef) and n is not m
                                                 and _is_private(n.name) and any(isinstance(x, ast.Yield) for x in ast.walk(n))
                                                 and n.name not in elsewhere}
                        m.body = inl.inline_block(m.body)
                        if inl.used:
                            _cleanup(m, records)
                            changed = True
                            inlined.extend(sorted(inl.used))
        if not changed:
            break
    # loop fission applies to hand-written functions as well
    for node in ast.walk(tree):
        if isinstance(node, ast.FunctionDef):
            _unroll_table_loops(node, tables)      # again: a helper may have returned the display that is iterated
            _unroll_search_loops(node, enums)
            if not UNDERSCORE_ONLY:
                if _inline_search_predicates(node, {k: v for k, v in all_functions.items() if v is not node}):
                    inlined.extend(k for k in all_functions if not any(
                        isinstance(x, ast.Name) and x.id == k and isinstance(x.ctx, ast.Load) for x in ast.walk(tree)))
                _inline_expression_closures(node)  # again: a closure handed to an inlined helper is now called directly
                _any_to_search_loops(node)
            _islice_to_break(node)
            _collect_then_remove(node)
            _accumulate_to_comp(node)
            _slice_filters(node)
            _fission(node)
            _tag_fusion(node)
            _splice_dict_kwargs(node)
            if not UNDERSCORE_ONLY:
                _inline_attr_aliases(node)
    # drop helpers that are no longer referenced
    inlined = sorted(set(inlined))
    if inlined:
        def referenced(name: str, skip) -> bool:
            for n in ast.walk(tree):
                if n is skip:
                    continue
                if isinstance(n, ast.Name) and n.id == name and isinstance(n.ctx, ast.Load):
                    return True
                if isinstance(n, ast.Attribute) and n.attr == name:
                    return True
            return False
        new_body = []
        for node in tree.body:
            if isinstance(node, ast.FunctionDef) and node.name in inlined:
                tmp = ast.Module(body=[x for x in tree.body if x is not node], type_ignores=[])
                if not any((isinstance(n, ast.Name) and n.id == node.name) or (isinstance(n, ast.Attribute) and n.attr == node.name)
                           for n in ast.walk(tmp)):
                    continue
            if isinstance(node, ast.ClassDef):
                keep = []
                for m in node.body:
                    if isinstance(m, ast.FunctionDef) and m.name in inlined:
                        # still referenced anywhere in the module (a subclass may call an inherited helper)?
                        if not any(isinstance(n, ast.Attribute) and n.attr == m.name and not any(n is x for x in ast.walk(m))
                                   for n in ast.walk(tree)):
                            continue
                    keep.append(m)
                node.body = keep
            new_body.append(node)
        tree.body = new_body
    ast.fix_missing_locations(tree)
    return tree, inlined


# ----------------------------------------------------------------------
# dataclasses with behaviour: written out as the plain class the decorator generates
def _is_dataclass_decorator(d: ast.expr) -> bool:
    if isinstance(d, ast.Call):
        d = d.func
    return (isinstance(d, ast.Name) and d.id == "dataclass") or \
        (isinstance(d, ast.Attribute) and d.attr == "dataclass" and isinstance(d.value, ast.Name) and d.value.id == "dataclasses")


def _field_call(e: Optional[ast.expr], tree: ast.Module) -> Optional[ast.Call]:
    """field(...) / dataclasses.field(...), possibly through a parameterless module-level helper that returns one."""
    if not isinstance(e, ast.Call):
        return None
    f = e.func
    if (isinstance(f, ast.Name) and f.id == "field") or (isinstance(f, ast.Attribute) and f.attr == "field"
                                                         and isinstance(f.value, ast.Name) and f.value.id == "dataclasses"):
        return e
    if isinstance(f, ast.Name) and not e.args and not e.keywords:
        for n in tree.body:
            if isinstance(n, ast.FunctionDef) and n.name == f.id:
                r = _is_single_return(n)
                return _field_call(r, tree) if r is not None and r is not e else None
    return None


def desugar_dataclasses(tree: ast.Module) -> Tuple[ast.Module, List[str]]:
    """A @dataclass that defines __post_init__ (a class with construction-time behaviour, not a record) and has no base class
    is rewritten to the class the decorator generates: an explicit __init__ taking the init-fields in order (with their
    defaults), assigning every field in declaration order, followed by the body of __post_init__.  Field declarations, the
    decorator and __post_init__ are removed, so that every rule reads the class like a hand-written one.  Record-like
    dataclasses (no __post_init__) are left alone.  Returns (copy of the tree, names of the rewritten classes)."""
    tree = copy.deepcopy(tree)
    done: List[str] = []
    for cls in [n for n in tree.body if isinstance(n, ast.ClassDef)]:
        if not any(_is_dataclass_decorator(d) for d in cls.decorator_list):
            continue
        if any(not (isinstance(b, ast.Name) and b.id == "object") for b in cls.bases) or cls.keywords:
            continue
        methods = {m.name: m for m in cls.body if isinstance(m, ast.FunctionDef)}
        post = methods.get("__post_init__")
        if post is None or "__init__" in methods or "__new__" in methods:
            continue
        if len(post.args.args) != 1 or post.args.vararg or post.args.kwarg or post.args.kwonlyargs \
                or any(isinstance(n, (ast.Return, ast.Yield, ast.YieldFrom)) for n in ast.walk(post)):
            continue
        self_name = post.args.args[0].arg
        params: List[ast.arg] = []
        defaults: List[ast.expr] = []
        body: List[ast.stmt] = []
        fields_nodes = []
        ok = True
        for st in cls.body:
            if not (isinstance(st, ast.AnnAssign) and isinstance(st.target, ast.Name)):
                continue
            ann = ast.unparse(st.annotation)
            if "ClassVar" in ann:
                continue
            if "InitVar" in ann:
                ok = False
                break
            fields_nodes.append(st)
            name = st.target.id
            fc = _field_call(st.value, tree)
            init, default = True, st.value
            if fc is not None:
                kw = {k.arg: k.value for k in fc.keywords}
                if fc.args or None in kw:
                    ok = False
                    break
                default = kw.get("default")
                fac = kw.get("default_factory")
                if isinstance(kw.get("init"), ast.Constant) and kw["init"].value is False:
                    init = False
                elif "init" in kw and not (isinstance(kw["init"], ast.Constant) and kw["init"].value is True):
                    ok = False
                    break
                if fac is not None:
                    if init:
                        ok = False          # a per-call default object as parameter default is not expressible literally
                        break
                    if isinstance(fac, ast.Name) and fac.id == "str":
                        default = ast.Constant(value="")
                    elif isinstance(fac, ast.Name) and fac.id == "list":
                        default = ast.List(elts=[], ctx=ast.Load())
                    elif isinstance(fac, ast.Name) and fac.id == "dict":
                        default = ast.Dict(keys=[], values=[])
                    else:
                        default = ast.Call(func=fac, args=[], keywords=[])
            target = ast.Attribute(value=ast.Name(id=self_name, ctx=ast.Load()), attr=name, ctx=ast.Store())
            if init:
                if default is None and defaults:
                    ok = False              # dataclass itself rejects this
                    break
                params.append(ast.arg(arg=name, annotation=st.annotation))
                if default is not None:
                    defaults.append(default)
                body.append(ast.AnnAssign(target=target, annotation=st.annotation, value=ast.Name(id=name, ctx=ast.Load()), simple=0))
            elif default is not None:
                body.append(ast.AnnAssign(target=target, annotation=st.annotation, value=default, simple=0))
        if not ok or not fields_nodes:
            continue
        body.extend(copy.deepcopy(_body_wo_doc(post)) or [])
        init_fn = ast.FunctionDef(name="__init__",
                                  args=ast.arguments(posonlyargs=[], args=[ast.arg(arg=self_name)] + params, vararg=None,
                                                     kwonlyargs=[], kw_defaults=[], kwarg=None, defaults=defaults),
                                  body=body or [ast.Pass()], decorator_list=[], returns=ast.Constant(value=None), type_params=[])
        new_body = []
        placed = False
        for st in cls.body:
            if st in fields_nodes:
                continue
            if st is post:
                new_body.append(init_fn)
                placed = True
                continue
            new_body.append(st)
        if not placed:
            new_body.append(init_fn)
        cls.body = new_body
        cls.decorator_list = [d for d in cls.decorator_list if not _is_dataclass_decorator(d)]
        ast.copy_location(init_fn, post)
        done.append(cls.name)
    ast.fix_missing_locations(tree)
    return tree, done


# ----------------------------------------------------------------------
def expand_contextmanagers(tree: ast.Module) -> Tuple[ast.Module, List[str]]:
    tree = copy.deepcopy(tree)
    used = _inline_contextmanagers(tree)
    return tree, used


def hoist_walrus(tree: ast.Module) -> ast.Module:
    """if (v := E) <op> ...: / if (v := E): / elif ... the same:  the assignment expression that is evaluated first and
    unconditionally in the test is written as the statement `v = E` in front of the `if` (inside the else branch for an elif)."""
    tree = copy.deepcopy(tree)

    def leftmost(test):
        """the NamedExpr evaluated first and always, with a function that rebuilds the test around a replacement"""
        if isinstance(test, ast.NamedExpr) and isinstance(test.target, ast.Name):
            return test, (lambda rep: rep)
        if isinstance(test, ast.Compare):
            r = leftmost(test.left)
            if r:
                return r[0], (lambda rep, t=test, f=r[1]: ast.Compare(left=f(rep), ops=t.ops, comparators=t.comparators))
        if isinstance(test, ast.UnaryOp) and isinstance(test.op, ast.Not):
            r = leftmost(test.operand)
            if r:
                return r[0], (lambda rep, t=test, f=r[1]: ast.UnaryOp(op=t.op, operand=f(rep)))
        if isinstance(test, ast.BoolOp):
            r = leftmost(test.values[0])
            if r:
                return r[0], (lambda rep, t=test, f=r[1]: ast.BoolOp(op=t.op, values=[f(rep)] + t.values[1:]))
        return None

    def process(block: List[ast.stmt]) -> None:
        i = 0
        while i < len(block):
            st = block[i]
            for field in ("body", "orelse", "finalbody"):
                sub = getattr(st, field, None)
                if isinstance(sub, list) and not isinstance(st, ast.ClassDef):
                    process(sub)
            if isinstance(st, ast.Try):
                for h in st.handlers:
                    process(h.body)
            if isinstance(st, ast.ClassDef):
                process(st.body)
            if isinstance(st, ast.If):
                r = leftmost(st.test)
                if r is not None:
                    ne, rebuild = r
                    assign = ast.Assign(targets=[ast.Name(id=ne.target.id, ctx=ast.Store())], value=ne.value)
                    st.test = rebuild(ast.Name(id=ne.target.id, ctx=ast.Load()))
                    ast.copy_location(assign, st)
                    block.insert(i, assign)
                    ast.fix_missing_locations(assign)
                    ast.fix_missing_locations(st)
                    i += 1
                    # the same If may carry a further walrus in its (now first) position
                    continue_same = leftmost(st.test) is not None
                    if continue_same:
                        continue
            i += 1
    process(tree.body)
    ast.fix_missing_locations(tree)
    return tree


def expand_functional_idioms(tree: ast.Module) -> ast.Module:
    """Three library idioms written out:  _f = functools.partial(g, a) at module level (private name, bound once) is g with a
    as first argument wherever _f is used;  map(F, xs) is (F(x) for x in xs), a map of a map fused into one generator;
    operator.attrgetter("n") applied to x is x.n, functools.partial(g, a) applied to x is g(a, x).  `*map(...)` and
    `list(map(...))` become the list comprehension."""
    tree = copy.deepcopy(tree)
    count: Dict[str, int] = {}
    for n in ast.walk(tree):
        if isinstance(n, ast.Name) and isinstance(n.ctx, (ast.Store, ast.Del)):
            count[n.id] = count.get(n.id, 0) + 1
        elif isinstance(n, (ast.Global, ast.Nonlocal)):
            for g in n.names:
                count[g] = count.get(g, 0) + 2

    def is_partial(e):
        return isinstance(e, ast.Call) and ((isinstance(e.func, ast.Attribute) and e.func.attr == "partial") or
                                            (isinstance(e.func, ast.Name) and e.func.id == "partial")) and e.args \
            and not any(isinstance(a, ast.Starred) for a in e.args) and not any(k.arg is None for k in e.keywords)

    def is_attrgetter(e):
        return isinstance(e, ast.Call) and ((isinstance(e.func, ast.Attribute) and e.func.attr == "attrgetter") or
                                            (isinstance(e.func, ast.Name) and e.func.id == "attrgetter")) \
            and len(e.args) == 1 and isinstance(e.args[0], ast.Constant) and isinstance(e.args[0].value, str) \
            and e.args[0].value.isidentifier() and not e.keywords

    partials: Dict[str, ast.Call] = {}
    for st in tree.body:
        if isinstance(st, ast.Assign) and len(st.targets) == 1 and isinstance(st.targets[0], ast.Name) \
                and count.get(st.targets[0].id) == 1 and st.targets[0].id.startswith("_") and is_partial(st.value):
            partials[st.targets[0].id] = st.value

    def apply(f: ast.expr, arg: ast.expr) -> Optional[ast.expr]:
        """F(arg) for the function expressions understood here"""
        if isinstance(f, ast.Name) and f.id in partials:
            f = partials[f.id]
        if is_partial(f):
            return ast.Call(func=copy.deepcopy(f.args[0]), args=[copy.deepcopy(a) for a in f.args[1:]] + [arg],
                            keywords=[copy.deepcopy(k) for k in f.keywords])
        if is_attrgetter(f):
            return ast.Attribute(value=arg, attr=f.args[0].value, ctx=ast.Load())
        if isinstance(f, (ast.Name, ast.Attribute)):
            return ast.Call(func=copy.deepcopy(f), args=[arg], keywords=[])
        return None

    counter = [0]

    def map_to_gen(c: ast.Call) -> Optional[ast.GeneratorExp]:
        if not (isinstance(c, ast.Call) and isinstance(c.func, ast.Name) and c.func.id == "map" and len(c.args) == 2 and not c.keywords):
            return None
        f, xs = c.args
        inner = map_to_gen(xs) if isinstance(xs, ast.Call) else None
        if inner is not None and len(inner.generators) == 1 and not inner.generators[0].ifs:
            elt = apply(f, inner.elt)
            if elt is None:
                return None
            return ast.GeneratorExp(elt=elt, generators=inner.generators)
        counter[0] += 1
        var = f"_m{counter[0]}"
        elt = apply(f, ast.Name(id=var, ctx=ast.Load()))
        if elt is None:
            return None
        return ast.GeneratorExp(elt=elt, generators=[ast.comprehension(target=ast.Name(id=var, ctx=ast.Store()), iter=xs, ifs=[], is_async=0)])

    class T(ast.NodeTransformer):
        def visit_Call(self, c):
            # partial names called directly
            if isinstance(c.func, ast.Name) and c.func.id in partials and not any(isinstance(a, ast.Starred) for a in c.args):
                p_ = partials[c.func.id]
                c = ast.copy_location(ast.Call(func=copy.deepcopy(p_.args[0]), args=[copy.deepcopy(a) for a in p_.args[1:]] + list(c.args),
                                               keywords=[copy.deepcopy(k) for k in p_.keywords] + list(c.keywords)), c)
            g = map_to_gen(c)
            if g is not None:
                self.generic_visit(g)
                return ast.copy_location(g, c)
            self.generic_visit(c)
            # list(<gen>) / *(<gen>)  ->  list comprehension
            if isinstance(c.func, ast.Name) and c.func.id == "list" and len(c.args) == 1 and isinstance(c.args[0], ast.GeneratorExp) and not c.keywords:
                return ast.copy_location(ast.ListComp(elt=c.args[0].elt, generators=c.args[0].generators), c)
            return c

        def visit_Starred(self, n):
            self.generic_visit(n)
            if isinstance(n.value, ast.GeneratorExp):
                n.value = ast.copy_location(ast.ListComp(elt=n.value.elt, generators=n.value.generators), n.value)
            return n
    for node in tree.body:
        if isinstance(node, (ast.FunctionDef, ast.ClassDef)):
            T().visit(node)
    ast.fix_missing_locations(tree)
    return tree


def expand_format_calls(tree: ast.Module) -> ast.Module:
    """TEMPLATE.format(a, k=b) with TEMPLATE a string literal or a module-level name bound once to one, plain `{}` / `{0}` /
    `{k}` fields (optional !conversion and literal :spec): written as the f-string it denotes, which is the form every
    string rule reads.  Anything fancier (attribute / index fields, nested specs, *args, **kwargs) is left alone."""
    import string
    tree = copy.deepcopy(tree)
    count: Dict[str, int] = {}
    consts: Dict[str, str] = {}
    for n in ast.walk(tree):
        if isinstance(n, ast.Name) and isinstance(n.ctx, (ast.Store, ast.Del)):
            count[n.id] = count.get(n.id, 0) + 1
        elif isinstance(n, (ast.Global, ast.Nonlocal)):
            for g in n.names:
                count[g] = count.get(g, 0) + 2
    for st in tree.body:
        tgt = v = None
        if isinstance(st, ast.Assign) and len(st.targets) == 1 and isinstance(st.targets[0], ast.Name):
            tgt, v = st.targets[0].id, st.value
        elif isinstance(st, ast.AnnAssign) and isinstance(st.target, ast.Name) and st.value is not None:
            tgt, v = st.target.id, st.value
        if tgt and count.get(tgt) == 1 and isinstance(v, ast.Constant) and isinstance(v.value, str):
            consts[tgt] = v.value

    class T(ast.NodeTransformer):
        def visit_Call(self, c):
            self.generic_visit(c)
            f = c.func
            if not (isinstance(f, ast.Attribute) and f.attr == "format"):
                return c
            if isinstance(f.value, ast.Constant) and isinstance(f.value.value, str):
                template = f.value.value
            elif isinstance(f.value, ast.Name) and f.value.id in consts:
                template = consts[f.value.id]
            else:
                return c
            if any(isinstance(a, ast.Starred) for a in c.args) or any(k.arg is None for k in c.keywords):
                return c
            kws = {k.arg: k.value for k in c.keywords}
            values: List[ast.expr] = []
            auto = 0
            try:
                parsed = list(string.Formatter().parse(template))
            except ValueError:
                return c
            for literal, name, spec, conv in parsed:
                if literal:
                    values.append(ast.Constant(value=literal))
                if name is None:
                    continue
                if spec and ("{" in spec or "}" in spec):
                    return c
                if name == "":
                    if auto is None:
                        return c
                    idx, auto = auto, auto + 1
                    if idx >= len(c.args):
                        return c
                    expr = c.args[idx]
                elif name.isdigit():
                    if auto:
                        return c
                    auto = None
                    if int(name) >= len(c.args):
                        return c
                    expr = c.args[int(name)]
                elif name.isidentifier() and name in kws:
                    expr = kws[name]
                else:
                    return c
                values.append(ast.FormattedValue(value=copy.deepcopy(expr), conversion=ord(conv) if conv else -1,
                                                 format_spec=ast.JoinedStr(values=[ast.Constant(value=spec)]) if spec else None))
            if not values:
                return ast.copy_location(ast.Constant(value=""), c)
            return ast.copy_location(ast.JoinedStr(values=values), c)
    tree = T().visit(tree)
    ast.fix_missing_locations(tree)
    return tree

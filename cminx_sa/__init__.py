"""cminx_sa - repository-specific static analysis deciding C01..C20 for CMinx.

Nothing in /repo is imported or executed: Python sources are read through
``ast``, the serialized ATNs of the generated lexer/parser are deserialised as
data, YAML and CMake files are parsed by small readers.  See /verif/DESIGN.md.
"""

"""C06 - unreadable input fails loudly, never silently truncated.

Exception-escape analysis over the pipeline
main -> document -> document_single_file -> Documenter.{__init__,process} ->
{lexer, generated rule methods, listener callbacks}.
"""
from __future__ import annotations

import ast
from typing import Dict, List, Optional, Set, Tuple

from ..core import AnalysisError, Report
from ..model import (HAND_WRITTEN, Repo, all_paths_raise, call_name, calls_in, is_exit_call, norm,
                     qualname_of, stmts_in, terminates, walk_no_nested)
from .. import roles

RECOG = {"RecognitionException", "InputMismatchException", "NoViableAltException",
         "LexerNoViableAltException", "FailedPredicateException"}
# superclasses of the error types the pipeline raises for unreadable input
RELEVANT_HANDLERS = {None, "BaseException", "Exception", "SyntaxError", "CMakeSyntaxError", "CMakeSyntaxException",
                     "UnicodeDecodeError", "UnicodeError", "ValueError", "SystemExit", "StandardError"} | RECOG


def with_super_calls_expanded(repo: Repo, cls: str, fn: ast.FunctionDef, depth: int = 0) -> ast.FunctionDef:
    """A copy of `fn` in which a statement  super().m(...)  /  self._helper(...)  that resolves to a method defined in the
    repository is replaced by that method's body (parameters are assumed to be passed through under the same names, which is
    what delegation to a base listener does).  Used for 'raises on every path' and for the types raised."""
    import copy as _copy
    fn2 = _copy.deepcopy(fn)
    if depth > 3:
        return fn2
    mro = [c.name for c in repo.mro(cls)] if repo.has_class(cls) else []

    def resolve(call: ast.Call):
        f = call.func
        if not isinstance(f, ast.Attribute):
            return None
        if isinstance(f.value, ast.Call) and norm(f.value.func) == "super":
            for c in mro[1:]:
                ci = repo.cls(c)
                if f.attr in ci.methods:
                    return c, ci.methods[f.attr]
            return None
        if isinstance(f.value, ast.Name) and f.value.id == "self" and f.attr != fn.name:
            r = repo.find_method(cls, f.attr)
            if r is not None:
                return r[0].name, r[1]
        return None

    class T(ast.NodeTransformer):
        def visit_FunctionDef(self, node):
            if node is fn2:
                self.generic_visit(node)
            return node

        def visit_Expr(self, node):
            if isinstance(node.value, ast.Call):
                r = resolve(node.value)
                if r is not None:
                    owner, m = r
                    body = with_super_calls_expanded(repo, owner, m, depth + 1).body
                    body = [b for b in body if not (isinstance(b, ast.Expr) and isinstance(b.value, ast.Constant))] or [ast.Pass()]
                    # a delegated body that may return does so into the caller: wrap so that a `return` is not mistaken
                    if any(isinstance(x, ast.Return) for b in body for x in ast.walk(b)):
                        return node
                    return [ast.copy_location(b, node) for b in body]
            return node
    T().visit(fn2)
    ast.fix_missing_locations(fn2)
    return fn2


def raised_types(repo: Repo, fn: ast.FunctionDef) -> List[Tuple[ast.Raise, str]]:
    """(raise statement, class name) for every raise in fn.  A raise of one of
    the function's own parameters is reported as 'param:<name>'."""
    params = {a.arg for a in fn.args.args}
    local_new: Dict[str, str] = {}
    for st in stmts_in(fn):
        if isinstance(st, ast.Assign) and isinstance(st.value, ast.Call) and len(st.targets) == 1 \
                and isinstance(st.targets[0], ast.Name):
            local_new[st.targets[0].id] = call_name(st.value).split(".")[-1]
    out = []
    for st in stmts_in(fn):
        if isinstance(st, ast.Raise):
            e = st.exc
            if e is None:
                out.append((st, "reraise"))
            elif isinstance(e, ast.Call):
                nm = call_name(e).split(".")[-1]
                parts = call_name(e).split(".")
                if len(parts) >= 2 and repo.has_class(parts[-2]) and nm in repo.cls(parts[-2]).methods and \
                        any(norm(d) == "classmethod" for d in repo.cls(parts[-2]).methods[nm].decorator_list):
                    nm = parts[-2]        # raise Cls.factory(...): an instance of Cls (alternative constructor)
                out.append((st, _returned_class(repo, fn, nm) or nm))
            elif isinstance(e, ast.Name) and e.id in local_new:
                out.append((st, local_new[e.id]))
            elif isinstance(e, ast.Name) and e.id in params:
                out.append((st, "param:" + e.id))
            else:
                out.append((st, norm(e).split(".")[-1]))
    return out


def _returned_class(repo: Repo, fn: ast.FunctionDef, fname: str) -> Optional[str]:
    """If `fname` is a module-level helper (in a hand-written module) whose every return yields an object constructed from one
    class, that class."""
    if repo.has_class(fname):
        return None
    for mod in HAND_WRITTEN:
        for q, f in repo.functions(mod):
            if q == fname:
                new = {}
                for st in stmts_in(f):
                    if isinstance(st, ast.Assign) and isinstance(st.value, ast.Call) and isinstance(st.targets[0], ast.Name):
                        new[st.targets[0].id] = call_name(st.value).split(".")[-1]
                classes = set()
                for st in stmts_in(f):
                    if isinstance(st, ast.Return) and st.value is not None:
                        if isinstance(st.value, ast.Call):
                            classes.add(call_name(st.value).split(".")[-1])
                        elif isinstance(st.value, ast.Name) and st.value.id in new:
                            classes.add(new[st.value.id])
                        else:
                            classes.add("?")
                if len(classes) == 1 and "?" not in classes:
                    return classes.pop()
    return None


def is_recognition(repo: Repo, cname: str) -> Optional[bool]:
    """True/False if the class is (not) a RecognitionException; None unknown."""
    if cname.startswith("param:"):
        return True     # syntaxError(..., e): e is the RecognitionException handed in by the runtime
    if cname in RECOG:
        return True
    if repo.has_class(cname):
        if any(b in RECOG for b in repo.external_bases(cname)) or any(c.name in RECOG for c in repo.mro(cname)):
            return True
        return False
    if cname in ("SyntaxError", "Exception", "ValueError", "RuntimeError", "CMakeSyntaxError"):
        return False
    return None


def linear_statements(repo: Repo, cls: str, methods=("__init__", "process"), depth: int = 3):
    """Statements of the given methods in execution order, descending into calls of private helpers of the same class
    (`self._x()`); yields (stmt, method name)."""
    ci = repo.cls(cls)

    def walk(fn, d, seen):
        for st in stmts_in(fn):
            yield st, fn.name
            if isinstance(st, ast.Expr) and isinstance(st.value, ast.Call) and isinstance(st.value.func, ast.Attribute) \
                    and isinstance(st.value.func.value, ast.Name) and st.value.func.value.id == "self":
                r = repo.find_method(cls, st.value.func.attr)
                if r is not None and d < depth and st.value.func.attr not in seen and st.value.func.attr not in methods:
                    yield from walk(r[1], d + 1, seen | {st.value.func.attr})
    for m in methods:
        fn = ci.methods.get(m)
        if fn is not None:
            yield from walk(fn, 0, {m})


def listener_attachments(repo: Repo, doc_cls: str):
    """Statements `<self.X>.addErrorListener(<Cls>())` / removeErrorListeners in the
    Documenter class, in execution order (__init__ then process), with the role
    of X (lexer / parser)."""
    ci = repo.cls(doc_cls)
    lex_attrs = roles.self_attr_assigned_from(ci.node, roles.recognizer_names(repo, "CMakeLexer"))
    par_attrs = roles.self_attr_assigned_from(ci.node, roles.recognizer_names(repo, "CMakeParser"))
    if not lex_attrs or not par_attrs:
        raise AnalysisError("anchor vanished: Documenter does not keep its lexer/parser in attributes")
    events = []
    for st, mname in linear_statements(repo, doc_cls):
        if True:
            if isinstance(st, ast.Expr) and isinstance(st.value, ast.Call) and isinstance(st.value.func, ast.Attribute):
                c = st.value
                recv = c.func.value
                if isinstance(recv, ast.Attribute) and isinstance(recv.value, ast.Name) and recv.value.id == "self":
                    role = "lexer" if recv.attr in lex_attrs else "parser" if recv.attr in par_attrs else None
                    if role and c.func.attr in ("addErrorListener", "removeErrorListeners", "removeErrorListener"):
                        lcls = None
                        if c.args and isinstance(c.args[0], ast.Call):
                            lcls = call_name(c.args[0]).split(".")[-1]
                        events.append((role, c.func.attr, lcls, st, mname))
    return events, lex_attrs, par_attrs


def effective_listeners(events, role: str) -> List[str]:
    cur: List[str] = []
    for r, op, lcls, _st, _m in events:
        if r != role:
            continue
        if op == "addErrorListener" and lcls:
            cur.append(lcls)
        elif op == "removeErrorListeners":
            cur = []
    return cur


def parser_rule_handlers(repo: Repo):
    """For each generated rule method: does it have an
    `except RecognitionException` handler that does not re-raise?"""
    m = repo.module("cminx.parser.CMakeParser")
    pcls = [n for n in m.tree.body if isinstance(n, ast.ClassDef) and n.name == "CMakeParser"]
    if not pcls:
        raise AnalysisError("anchor vanished: class CMakeParser")
    rule_names = None
    for st in pcls[0].body:
        if isinstance(st, ast.Assign) and norm(st.targets[0]) == "ruleNames":
            rule_names = [e.value for e in st.value.elts]
    if not rule_names:
        raise AnalysisError("anchor vanished: CMakeParser.ruleNames")
    out = {}
    for st in pcls[0].body:
        if isinstance(st, ast.FunctionDef) and st.name in rule_names:
            swallow = False
            for n in walk_no_nested(st):
                if isinstance(n, ast.Try):
                    for h in n.handlers:
                        if h.type is not None and norm(h.type).split(".")[-1] == "RecognitionException":
                            if not all_paths_raise(h.body):
                                swallow = True
            out[st.name] = swallow
    return rule_names, out


def entry_rule_call(repo: Repo, doc_cls: str, par_attrs) -> Tuple[Optional[ast.Call], ast.FunctionDef]:
    """The parser rule call made by Documenter.process (directly or in a private helper it calls) and the function that
    contains it."""
    ci = repo.cls(doc_cls)
    fn = ci.methods.get("process")
    if fn is None:
        raise AnalysisError("anchor vanished: Documenter.process")
    rule_names, _ = parser_rule_handlers(repo)
    seen = set()
    todo = [fn]
    while todo:
        f = todo.pop(0)
        if f.name in seen:
            continue
        seen.add(f.name)
        for c in calls_in(f):
            if isinstance(c.func, ast.Attribute) and c.func.attr in rule_names:
                recv = c.func.value
                if isinstance(recv, ast.Attribute) and recv.attr in par_attrs:
                    return c, f
            if isinstance(c.func, ast.Attribute) and isinstance(c.func.value, ast.Name) and c.func.value.id == "self":
                r = repo.find_method(doc_cls, c.func.attr)
                if r is not None:
                    todo.append(r[1])
    return None, fn


def has_error_count_gate(fn: ast.FunctionDef, par_attrs, entry_call: ast.Call, parents) -> Optional[ast.If]:
    """A top-level `if <parser>.getNumberOfSyntaxErrors() > 0: raise` (or
    `_syntaxErrors`) placed after the statement holding the entry-rule call and
    before any later call that consumes the tree."""
    body = fn.body
    idx_entry = None
    for i, st in enumerate(body):
        if any(c is entry_call for c in calls_in(st)):
            idx_entry = i
    if idx_entry is None:
        return None
    # the tree must not be consumed in the same statement as the parse
    # locals holding the error count
    count_locals = set()
    for st in body:
        if isinstance(st, ast.Assign) and isinstance(st.targets[0], ast.Name) and \
                ("getNumberOfSyntaxErrors()" in norm(st.value) or "_syntaxErrors" in norm(st.value)):
            count_locals.add(st.targets[0].id)
    for st in body[idx_entry + 1:]:
        if isinstance(st, ast.If):
            t = norm(st.test)
            for name in count_locals:
                if any(isinstance(n, ast.Name) and n.id == name for n in ast.walk(st.test)):
                    t += " getNumberOfSyntaxErrors()"
            if ("getNumberOfSyntaxErrors()" in t or "_syntaxErrors" in t) and all_paths_raise(st.body):
                # polarity: truth must mean "errors present"
                test = st.test
                ok = False
                if isinstance(test, ast.Compare) and len(test.ops) == 1:
                    op, rhs = test.ops[0], test.comparators[0]
                    if isinstance(rhs, ast.Constant) and isinstance(rhs.value, int):
                        if isinstance(op, (ast.Gt, ast.NotEq)) and rhs.value == 0:
                            ok = True
                        if isinstance(op, ast.GtE) and rhs.value == 1:
                            ok = True
                elif isinstance(test, (ast.Call, ast.Attribute)):
                    ok = True        # truthiness of the count
                if ok:
                    return st
        # anything that calls something with the tree before the gate defeats it
        for c in calls_in(st):
            if call_name(c).endswith(".walk") or call_name(c).endswith("process_docs"):
                return None
    return None


def rule_no_swallowing(rep: Report, repo: Repo, rule: str) -> None:
    """No handler in the hand-written package swallows a pipeline error (shared by C06-R4 and C19-R9)."""
    rep.rule(rule, "no except handler for a superclass of a pipeline error type ends without raise")
    n_rel = 0
    for mod in HAND_WRITTEN:
        mm = repo.module(mod)
        for q, fn in list(repo.functions(mod)) + [("<module>", mm.tree)]:
            nodes = walk_no_nested(fn) if q != "<module>" else \
                [n for n in ast.walk(mm.tree) if _at_module_level(n, mm)]
            for n in nodes:
                if isinstance(n, ast.Try):
                    for h in n.handlers:
                        names = [None] if h.type is None else \
                            [norm(x).split(".")[-1] for x in (h.type.elts if isinstance(h.type, ast.Tuple) else [h.type])]
                        rel = [x for x in names if x in RELEVANT_HANDLERS]
                        cons = f"except {norm(h.type) if h.type else ''}: " + "; ".join(norm(s)[:40] for s in h.body[-1:])
                        if not rel:
                            rep.note(rule, f"{mod}:{q}", cons, "handler for an unrelated leaf exception; ignored")
                            continue
                        n_rel += 1
                        rep.check(all_paths_raise(h.body), rule, f"{mod}:{q}", cons,
                                  "handler catches a pipeline error type and can finish without raising: a syntax or decode "
                                  "error would be swallowed and processing would go on",
                                  witness="any file with a syntax error")
                elif isinstance(n, ast.With):
                    for it in n.items:
                        if "suppress" in norm(it.context_expr):
                            rep.bad(rule, f"{mod}:{q}", norm(it.context_expr),
                                    "contextlib.suppress swallows exceptions on the processing path")
    rep.floor(rule, 1, "relevant except handlers")


def run(rep: Report, repo: Repo, tier: str) -> None:
    rep.unit("src/cminx/documenter.py", "src/cminx/parser/__init__.py", "src/cminx/parser/CMakeParser.py",
             "src/cminx/__init__.py", "src/cminx/aggregator.py", "src/cminx/documentation_types.py",
             "src/cminx/rstwriter.py")
    rep.assume("antlr4 4.7.2: Lexer.nextToken notifies listeners on a failed match and then skips input; "
               "generated rule methods catch RecognitionException and recover; DefaultErrorStrategy.reportError is "
               "silent in recovery mode; Parser.notifyErrorListeners increments _syntaxErrors before dispatch",
               "ParseTreeWalker calls listener callbacks without catching their exceptions",
               "console_scripts entry point exits with the return value of cminx:main (None = 0) or the uncaught exception")
    doc_cls = roles.documenter_class(repo)
    dmod = "cminx.documenter"
    events, lex_attrs, par_attrs = listener_attachments(repo, doc_cls)

    # ---- R3: every attached listener raises on all paths of syntaxError
    with rep.isolated():
        rep.rule("C06-R3", "every listener class attached to a recognizer raises on every path of syntaxError")
    attached = sorted({l for _r, op, l, _s, _m in events if op == "addErrorListener" and l})
    listener_info: Dict[str, Dict] = {}
    for lc in attached:
        if not repo.has_class(lc):
            raise AnalysisError(f"listener class {lc} is not defined in the repository")
        r = repo.find_method(lc, "syntaxError")
        if r is None:
            rep.bad("C06-R3", f"{repo.cls(lc).module}:{lc}", "syntaxError",
                    f"listener {lc} does not override syntaxError: errors are not escalated")
            continue
        fn = with_super_calls_expanded(repo, lc, r[1])
        ok = all_paths_raise(fn.body)
        types = raised_types(repo, fn)
        listener_info[lc] = {"raises_all": ok, "types": [t for _s, t in types]}
        rep.check(ok, "C06-R3", f"{r[0].module}:{lc}.syntaxError", "all paths end in raise",
                  f"a path through {lc}.syntaxError returns without raising: the error is only reported, parsing continues",
                  witness="foo(  (unbalanced parenthesis)")
    rep.floor("C06-R3", 1, "attached listener classes")

    # ---- R1: the lexer has a raising, non-RecognitionException listener
    with rep.isolated():
        rep.rule("C06-R1", "the lexer feeding the token stream has a listener that raises a non-RecognitionException on all paths")
    lex_l = effective_listeners(events, "lexer")
    where = f"{dmod}:{doc_cls}.__init__"
    good = False
    reason = "no error listener is attached to the lexer: token recognition errors are printed and the offending " \
             "characters skipped (ConsoleErrorListener is the only listener)"
    for lc in lex_l:
        info = listener_info.get(lc)
        if not info or not info["raises_all"]:
            reason = f"lexer listener {lc} does not raise on all paths"
            continue
        recog = [t for t in info["types"] if is_recognition(repo, t) is not False]
        if recog:
            reason = (f"lexer listener {lc} raises {recog}: a RecognitionException raised while the parser pulls "
                      f"tokens is caught by the generated rule handlers")
            continue
        good = True
    rep.check(good, "C06-R1", where, "lexer.addErrorListener(<raising listener>)", reason,
              witness="set(x a\\qb)  or a lone '\"' between two commands",
              key="C06-R1|lexer-listener")
    rep.floor("C06-R1", 1, "lexer construction site")

    # ---- R8: no token is pulled before the listeners are in place
    with rep.isolated():
        rep.rule("C06-R8", "no token is lexed / no rule is parsed before the raising listeners are attached (token stream look-ahead, "
                           "fill, nextToken, parser rule calls come after addErrorListener)")
    rule_names_all, _sw = parser_rule_handlers(repo)
    PULL = {"LA", "LT", "fill", "consume", "getTokens", "nextToken", "getAllTokens", "get", "getText", "seek", "sync", "lazyInit",
            "setup", "getHiddenTokensToLeft", "getHiddenTokensToRight"} | set(rule_names_all)
    stream_attrs = roles.self_attr_assigned_from(repo.cls(doc_cls).node, ("CommonTokenStream", "BufferedTokenStream"))
    watched = set(lex_attrs) | set(par_attrs) | set(stream_attrs)
    seq = []
    for st, mname in linear_statements(repo, doc_cls):
        if True:
            for c in calls_in(st) if not isinstance(st, (ast.If, ast.For, ast.While, ast.Try, ast.With)) else \
                    [x for x in ast.walk(st.test if isinstance(st, (ast.If, ast.While)) else (st.iter if isinstance(st, ast.For) else ast.Pass()))
                     if isinstance(x, ast.Call)]:
                if isinstance(c.func, ast.Attribute):
                    recv = c.func.value
                    if isinstance(recv, ast.Attribute) and isinstance(recv.value, ast.Name) and recv.value.id == "self" \
                            and recv.attr in watched:
                        seq.append((c.func.attr, recv.attr, c, mname))
    first_add = {"lexer": None, "parser": None}
    for i, (meth, a, c, mname) in enumerate(seq):
        if meth == "addErrorListener":
            role = "lexer" if a in lex_attrs else "parser" if a in par_attrs else None
            if role and first_add[role] is None:
                first_add[role] = i
    n8 = 0
    for i, (meth, a, c, mname) in enumerate(seq):
        if meth in PULL:
            n8 += 1
            late = [r for r in ("lexer", "parser") if first_add[r] is None or first_add[r] > i]
            # a parser rule call needs both listeners; a stream look-ahead needs the lexer listener
            need = ["lexer", "parser"] if meth in rule_names_all else ["lexer"]
            missing = [r for r in need if r in late]
            rep.check(not missing, "C06-R8", f"{dmod}:{doc_cls}.{mname}", norm(c)[:70],
                      f"`{norm(c)[:50]}` pulls tokens before the {' and '.join(missing)} error listener is attached: a fault in the tokens "
                      f"read by then is only printed to stderr and skipped", witness="file that starts with an unterminated '#[=[' or a stray '\"'")
    rep.floor("C06-R8", 1, "token-pulling calls")

    # ---- R2: parser errors escape nested rule handlers
    with rep.isolated():
        rep.rule("C06-R2", "syntax errors raised inside nested rule methods cannot be swallowed: non-Recognition raise, "
                           "error-count gate before the walk, or bail strategy")
    rule_names, swallow = parser_rule_handlers(repo)
    n_swallow = sum(1 for v in swallow.values() if v)
    entry_call, proc_fn = entry_rule_call(repo, doc_cls, par_attrs)
    if entry_call is None:
        raise AnalysisError("anchor vanished: Documenter.process does not call a parser rule")
    par_l = effective_listeners(events, "parser")
    m = repo.module(dmod)
    defence = None
    if n_swallow == 0:
        defence = "generated rule methods re-raise"
    for lc in par_l:
        info = listener_info.get(lc)
        if info and info["raises_all"] and all(is_recognition(repo, t) is False for t in info["types"]):
            defence = f"listener {lc} raises only non-RecognitionException types"
    gate = has_error_count_gate(proc_fn, par_attrs, entry_call, m.parents)
    if gate is not None:
        defence = "syntax-error count gate before the tree is walked"
    for st in ast.walk(repo.cls(doc_cls).node):
        if isinstance(st, ast.Assign) and "BailErrorStrategy" in norm(st.value) and "_errHandler" in norm(st.targets[0]):
            defence = "BailErrorStrategy installed"
    rep.check(defence is not None, "C06-R2", f"{dmod}:{doc_cls}.process",
              f"{n_swallow} of {len(swallow)} rule methods swallow RecognitionException; parser listeners {par_l}",
              "the parser listener re-raises the RecognitionException it is given; every generated rule method catches "
              "that type and the enclosing rule is silent in recovery mode, so errors inside nested rules are dropped "
              "and the partial tree is documented",
              witness="function(g)\\nendfunction()\\nfoo(   (error inside command_invocation at EOF)",
              key="C06-R2|parser-escalation", defence=defence or "none")
    rep.check(bool(par_l), "C06-R2", f"{dmod}:{doc_cls}.__init__", "parser.addErrorListener(...)",
              "no raising error listener is attached to the parser", key="C06-R2|parser-listener")
    rep.floor("C06-R2", 2, "parser escalation facts")

    # ---- R4: no swallowing handler in the hand-written package
    with rep.isolated():
        rule_no_swallowing(rep, repo, "C06-R4")

    # ---- R5: write after success
    with rep.isolated():
        rep.rule("C06-R5", "in document_single_file the file write and the print happen only after Documenter.process() returned")
    fn = repo.func("cminx", "document_single_file")
    proc_idx = None
    for i, st in enumerate(fn.body):
        for c in calls_in(st):
            if isinstance(c.func, ast.Attribute) and c.func.attr == "process":
                proc_idx = i
    if proc_idx is None:
        raise AnalysisError("anchor vanished: document_single_file does not call .process()")
    nsinks = 0
    for i, st in enumerate(fn.body):
        for c in calls_in(st):
            nm = call_name(c)
            is_sink = nm.endswith("write_to_file") or nm == "print" or (nm == "open" and _write_mode(c))
            if is_sink:
                nsinks += 1
                rep.check(i > proc_idx, "C06-R5", "cminx:document_single_file", norm(c)[:70],
                          "output is produced before the file has been parsed completely; a later syntax error "
                          "leaves reST behind")
    rep.floor("C06-R5", 2, "output sinks in document_single_file")

    # ---- R9: every normal completion of process() has parsed the file
    with rep.isolated():
        rep.rule("C06-R9", "Documenter.process reaches its normal return only through the entry-rule parse: no early return, no "
                           "branch that skips lexing/parsing")
    top_proc = repo.cls(doc_cls).methods["process"]
    parse_stmt_idx = None
    for i, st in enumerate(top_proc.body):
        found = any(c is entry_call for c in calls_in(st))
        if not found and proc_fn is not top_proc:
            # the parse happens in a helper: the statement that calls that helper
            found = any(isinstance(c.func, ast.Attribute) and isinstance(c.func.value, ast.Name) and c.func.value.id == "self"
                        and c.func.attr == proc_fn.name for c in calls_in(st))
        if found and parse_stmt_idx is None:
            parse_stmt_idx = i
    if parse_stmt_idx is None:
        raise AnalysisError("Documenter.process does not reach the entry rule call at its top level")
    parse_st = top_proc.body[parse_stmt_idx]
    rep.check(not isinstance(parse_st, (ast.If, ast.For, ast.While, ast.Try)) or isinstance(parse_st, ast.Try), "C06-R9",
              f"{dmod}:{doc_cls}.process", "the parse is unconditional",
              "the file is parsed only under a condition: on the other branch faults are not detected and a page is produced")
    early = [n for st in top_proc.body[:parse_stmt_idx] for n in [st] + list(walk_no_nested(st)) if isinstance(n, ast.Return)]
    rep.check(not early, "C06-R9", f"{dmod}:{doc_cls}.process", f"{len(early)} return statement(s) before the parse",
              "process() can return a writer without having lexed and parsed the file (shortcut for 'nothing to document'): "
              "faults in such files are not reported and a page is written",
              witness="all include_undocumented_* off and a faulty file without doccomments")
    rep.floor("C06-R9", 2, "parse reachability facts")

    # ---- R6: whole file
    with rep.isolated():
        rep.rule("C06-R6", "Documenter.process parses with the entry rule (rule 0, which ends in EOF)")
    called = entry_call.func.attr
    rep.check(called == rule_names[0], "C06-R6", f"{dmod}:{doc_cls}.process", norm(entry_call),
              f"the parse starts at rule '{called}', not at the entry rule '{rule_names[0]}' that is anchored by EOF: "
              f"trailing input is ignored", witness="a(b) ) trailing")
    from .. import atn as atn_mod
    facts = atn_mod.parser_facts(repo)
    rep.check(facts["entry_ends_in_eof"], "C06-R6", "cminx.parser.CMakeParser:serializedATN", "entry rule ends in EOF",
              "the entry rule of the parser ATN does not require EOF")
    # the tree that is walked is the one returned by the entry rule (possibly handed back by a private helper)
    walked_ok = False
    top_p = repo.cls(doc_cls).methods["process"]

    def is_tree_expr(e, fn, depth=0):
        if depth > 3:
            return False
        if e is entry_call or any(x is entry_call for x in ast.walk(e)):
            return True
        if isinstance(e, ast.Call) and isinstance(e.func, ast.Attribute) and isinstance(e.func.value, ast.Name) \
                and e.func.value.id == "self" and proc_fn is not top_p and e.func.attr == proc_fn.name:
            # helper must return the tree
            rets = [n for n in walk_no_nested(proc_fn) if isinstance(n, ast.Return) and n.value is not None]
            return bool(rets) and all(is_tree_expr(r.value, proc_fn, depth + 1) for r in rets)
        if isinstance(e, ast.Name):
            defs = [n.value for n in walk_no_nested(fn) if isinstance(n, ast.Assign) and any(norm(t) == e.id for t in n.targets)]
            return bool(defs) and all(is_tree_expr(d, fn, depth + 1) for d in defs)
        return False
    for c in calls_in(top_p):
        if call_name(c).endswith(".walk") and len(c.args) >= 2 and is_tree_expr(c.args[1], top_p):
            walked_ok = True
    rep.check(walked_ok, "C06-R6", f"{dmod}:{doc_cls}.process", "walker.walk(listener, <entry rule result>)",
              "the walked tree is not the result of the entry rule call")
    rep.floor("C06-R6", 3, "entry-rule facts")

    # ---- R7: status
    with rep.isolated():
        rep.rule("C06-R7", "every exit call in the package passes a non-zero constant; main is not wrapped in a returning handler")
    n_exit = 0
    for mod in HAND_WRITTEN:
        for q, f in repo.functions(mod):
            for st in stmts_in(f):
                c = is_exit_call(st)
                if c is not None:
                    n_exit += 1
                    ok = bool(c.args) and _nonzero_const(c.args[0])
                    rep.check(ok, "C06-R7", f"{mod}:{q}", norm(c),
                              "exit() on an error path with status 0 / without status")
    rep.floor("C06-R7", 1, "exit calls")

    # ---- R11: the error strategy keeps counting
    rep.rule("C06-R11", "no recognizer gets an error strategy whose report*/recover methods bypass notifyErrorListeners (the "
                        "syntax-error counter behind the post-parse gate); ANTLR's own strategies are accepted")
    REPORTS = {"reportError", "reportNoViableAlternative", "reportInputMismatch", "reportFailedPredicate", "reportUnwantedToken",
               "reportMissingToken", "recover", "recoverInline", "sync"}
    n11 = 0
    for mod in HAND_WRITTEN:
        for q, f in repo.functions(mod):
            for node in ast.walk(f):
                strat = None
                if isinstance(node, ast.Assign) and any(isinstance(t, ast.Attribute) and t.attr == "_errHandler" for t in node.targets):
                    strat = node.value
                elif isinstance(node, ast.Call) and isinstance(node.func, ast.Attribute) and node.func.attr == "setErrorHandler" and node.args:
                    strat = node.args[0]
                if strat is None:
                    continue
                n11 += 1
                cname = call_name(strat).split(".")[-1] if isinstance(strat, ast.Call) else norm(strat)
                if not repo.has_class(cname):
                    rep.check(cname in ("DefaultErrorStrategy", "BailErrorStrategy"), "C06-R11", f"{mod}:{q}", norm(node)[:70],
                              f"unknown error strategy {cname}")
                    continue
                overridden = [m_ for c_ in repo.mro(cname) if c_.module in HAND_WRITTEN for m_ in c_.methods if m_ in REPORTS]
                bad = []
                for c_ in repo.mro(cname):
                    if c_.module not in HAND_WRITTEN:
                        continue
                    for m_, fn_ in c_.methods.items():
                        if m_ in REPORTS:
                            body_calls = {call_name(x).split(".")[-1] for x in calls_in(with_super_calls_expanded(repo, c_.name, fn_))}
                            if "notifyErrorListeners" not in body_calls and not any(
                                    isinstance(x, ast.Call) and isinstance(x.func, ast.Attribute) and isinstance(x.func.value, ast.Call)
                                    and norm(x.func.value.func) == "super" for x in ast.walk(fn_)):
                                bad.append(f"{c_.name}.{m_}")
                rep.check(not bad, "C06-R11", f"{mod}:{q}", norm(node)[:70],
                          f"the installed error strategy handles errors in {bad} without notifying the error listeners: the parser's "
                          f"syntax-error count stays 0 when the enclosing rule recovers, and the partial tree is documented",
                          witness="a stray identifier directly before a doccomment")
    rep.ok("C06-R11", "cminx.*", f"{n11} error-strategy installation(s)")

    # ---- R12: a file is parsed on every run (an "up to date" shortcut would hide its errors)
    from . import fsrules as _fs
    with rep.isolated():
        _fs.rule_always_regenerates(rep, repo, "C06-R12")

    # ---- R10: nothing discards an exception in flight
    from . import misc_rules
    with rep.isolated():
        misc_rules.rule_no_finally_discard(rep, repo, "C06-R10")

    # ---- R13: the processing functions run in the caller's own call stack
    with rep.isolated():
        rule_direct_calls(rep, repo, "C06-R13")
    # ---- R14: hand-written subclasses of the generated recognizers leave the error plumbing alone
    with rep.isolated():
        rule_recognizer_subclasses(rep, repo, "C06-R14")
    # ---- R15: "never ... a view of the file in which source characters were skipped": the lexer reads the file itself
    from . import misc_rules as _mr
    with rep.isolated():
        _mr.rule_decode(rep, repo, "C06-R15")


ERROR_PLUMBING = {"notifyErrorListeners", "getNumberOfSyntaxErrors", "getErrorListenerDispatch", "addErrorListener",
                  "removeErrorListeners", "removeErrorListener", "recover", "reportError", "getErrorHeader"}


def rule_recognizer_subclasses(rep: Report, repo: Repo, rule: str) -> None:
    """The escalation argument rests on antlr4's own plumbing: Parser.notifyErrorListeners counts the error (_syntaxErrors) before
    it dispatches to the listeners, and the count is what Documenter.process() checks after the parse.  A subclass of CMakeParser /
    CMakeLexer that re-implements one of these methods without delegating to the inherited one can drop the count or the dispatch."""
    rep.rule(rule, "a hand-written subclass of CMakeParser / CMakeLexer overrides none of the error-reporting methods of the runtime, "
                   "or the override calls super().<same method>")
    n = 0
    for base in ("CMakeParser", "CMakeLexer"):
        for cname in roles.recognizer_names(repo, base):
            if cname == base:
                continue
            ci = repo.cls(cname)
            n += 1
            for mname, fn in ci.methods.items():
                if mname not in ERROR_PLUMBING:
                    continue
                delegates = any(isinstance(c, ast.Call) and isinstance(c.func, ast.Attribute) and c.func.attr == mname
                                and isinstance(c.func.value, ast.Call) and norm(c.func.value.func) == "super" for c in ast.walk(fn))
                rep.check(delegates, rule, f"{ci.module}:{cname}.{mname}", f"override of {base}.{mname}",
                          f"{cname} re-implements {mname}() without calling the inherited one: what the runtime does there (counting the "
                          f"syntax error before dispatching it, keeping the listener list) is lost, so the 'number of syntax errors' "
                          f"gate after the parse no longer sees errors that the rule-level recovery swallowed",
                          witness="a bare word directly before a doccomment, or a trailing `endfunction` without parentheses")
    rep.ok(rule, "cminx.*", f"{n} hand-written recognizer subclass(es)")


def rule_direct_calls(rep: Report, repo: Repo, rule: str) -> None:
    """document(), document_single_file() and <Documenter>.process are only ever *called*: handing one of them to a pool, a
    thread, an executor or a callback slot (apply_async, submit, map, Thread(target=...), atexit ...) moves the parse into a
    context whose exceptions the caller does not see unless it fetches every result - the error of a faulty file is lost and the
    exit status stays 0."""
    rep.rule(rule, "document, document_single_file and Documenter.process are never used as values (pool / thread / callback "
                   "targets): every use is a direct call whose exception propagates to main()")
    names = {"document", "document_single_file"}
    n = 0
    for mod in ("cminx", "cminx.documenter"):
        mm = repo.module(mod)
        for node in ast.walk(mm.tree):
            hit = None
            if isinstance(node, ast.Name) and node.id in names and isinstance(node.ctx, ast.Load):
                hit = node.id
            elif isinstance(node, ast.Attribute) and node.attr == "process" and isinstance(node.ctx, ast.Load) \
                    and not (isinstance(node.value, ast.Name) and node.value.id in ("self", "cls")):
                hit = norm(node)
            if hit is None:
                continue
            par = mm.parents.get(node)
            direct = isinstance(par, ast.Call) and par.func is node
            n += 1
            rep.check(direct, rule, f"{mod}", f"{hit} in `{norm(par)[:60] if par is not None else ''}`",
                      f"`{hit}` is passed on as a value instead of being called: it runs in a worker / callback whose exception does not "
                      f"reach main(), so a syntax error in a file is not reported and the exit status is 0",
                      witness="directory with one faulty file, processed through the pool")
    rep.floor(rule, 3, "uses of the processing functions")


def _at_module_level(n, mm) -> bool:
    p = mm.parents.get(n)
    while p is not None:
        if isinstance(p, (ast.FunctionDef, ast.ClassDef, ast.AsyncFunctionDef)):
            return False
        p = mm.parents.get(p)
    return True


def _write_mode(c: ast.Call) -> bool:
    mode = None
    if len(c.args) >= 2:
        mode = c.args[1]
    for k in c.keywords:
        if k.arg == "mode":
            mode = k.value
    if mode is None:
        return False
    if isinstance(mode, ast.Constant) and isinstance(mode.value, str):
        return any(ch in mode.value for ch in "wax+")
    return True


def _nonzero_const(e: ast.expr) -> bool:
    if isinstance(e, ast.UnaryOp) and isinstance(e.op, ast.USub) and isinstance(e.operand, ast.Constant):
        return bool(e.operand.value)
    if isinstance(e, ast.Constant):
        return bool(e.value) and e.value is not None
    return False

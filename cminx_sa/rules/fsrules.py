"""Rules over cminx/__init__.py (E5) shared by C12-C15, C17, C18."""
from __future__ import annotations

import ast
from typing import Dict, FrozenSet, List, Optional, Set, Tuple

from ..core import AnalysisError, Report
from ..fsflow import ABS, EMPTY, ENV, ORDER, OUT, CallRecord, LabelFlow
from ..model import (HAND_WRITTEN, Repo, call_name, calls_in, enclosing_loops, guards_of, norm, param_defaults,
                     stmts_in, terminates, walk_no_nested)

MOD = "cminx"
WRITER_METHODS = {"text", "directive", "field", "option", "bulleted_list", "enumerated_list", "section",
                  "simple_table", "doctest"}
CREATORS = {"os.makedirs", "os.mkdir", "os.mknod", "os.mkfifo", "os.symlink", "os.link", "os.open",
            "shutil.copy", "shutil.copy2", "shutil.copyfile", "shutil.copytree", "shutil.move", "os.rename",
            "os.renames", "os.replace", "tempfile.mkstemp", "tempfile.mkdtemp", "tempfile.NamedTemporaryFile",
            "tempfile.TemporaryDirectory", "os.utime", "os.chmod", "os.truncate"}
DELETERS = {"os.remove", "os.unlink", "os.rmdir", "os.removedirs", "shutil.rmtree", "os.rename", "os.renames",
            "os.replace", "shutil.move", "os.truncate"}
PATH_WRITE_METHODS = {"write_text", "write_bytes", "mkdir", "touch", "unlink", "rmdir", "rename", "replace",
                      "symlink_to", "hardlink_to"}


# ----------------------------------------------------------------------
# anchors in document()

class DocumentModel:
    def __init__(self, repo: Repo):
        self.repo = repo
        self.m = repo.module(MOD)
        self.fn = repo.func(MOD, "document")
        self.single = repo.func(MOD, "document_single_file")
        self.main = repo.func(MOD, "main")
        self.parents = self.m.parents
        self.walk = None
        for n in walk_no_nested(self.fn):
            if isinstance(n, ast.For) and isinstance(n.iter, ast.Call) and call_name(n.iter) == "os.walk":
                self.walk = n
        if self.walk is None:
            raise AnalysisError("anchor vanished: document() has no `for ... in os.walk(...)` loop")
        t = self.walk.target
        if not (isinstance(t, ast.Tuple) and len(t.elts) == 3 and all(isinstance(e, ast.Name) for e in t.elts)):
            raise AnalysisError("os.walk loop target is not a 3-tuple of names")
        self.root_var, self.dirs_var, self.files_var = [e.id for e in t.elts]
        self.spec_var = None
        self.spec_call = None
        for n in walk_no_nested(self.fn):
            if isinstance(n, ast.Assign) and isinstance(n.value, ast.Call) and "from_lines" in call_name(n.value) \
                    and isinstance(n.targets[0], ast.Name):
                self.spec_var = n.targets[0].id
                self.spec_call = n.value
        if self.spec_var is None:
            raise AnalysisError("anchor vanished: document() does not compile a PathSpec (from_lines)")
        self.out_aliases = self._out_aliases(self.fn)
        self.out_aliases_single = self._out_aliases(self.single)

    def _out_aliases(self, fn) -> Set[str]:
        out = set()
        for n in walk_no_nested(fn):
            tgt, val = None, None
            if isinstance(n, ast.Assign) and len(n.targets) == 1:
                tgt, val = n.targets[0], n.value
            elif isinstance(n, ast.AnnAssign):
                tgt, val = n.target, n.value
            if tgt is not None and val is not None and isinstance(tgt, ast.Name) and is_output_dir_expr(val):
                out.add(tgt.id)
        return out

    def flow_document(self, walk_exempt=True) -> LabelFlow:
        ps = [a.arg for a in self.fn.args.args]
        labels = {ps[0]: frozenset({ABS})} if ps else {}
        for extra in ps[1:]:
            labels[extra] = EMPTY
        return LabelFlow(self.fn, labels, attr_labels=settings_attr_labels, call_result=ctor_result, walk_exempt=walk_exempt)

    def flow_single(self) -> LabelFlow:
        ps = [a.arg for a in self.single.args.args]
        labels = {ps[0]: frozenset({ABS})} if ps else {}
        if len(ps) > 1:
            labels[ps[1]] = frozenset({ABS})
        for extra in ps[2:]:
            labels[extra] = EMPTY
        return LabelFlow(self.single, labels, attr_labels=settings_attr_labels, call_result=ctor_result)

    def walk_body_index(self, node) -> Optional[int]:
        """Index of the top-level statement of the walk-loop body that contains node."""
        for i, st in enumerate(self.walk.body):
            if node is st or any(x is node for x in ast.walk(st)):
                return i
        return None


def is_output_dir_expr(e: ast.AST) -> bool:
    t = norm(e)
    return t.endswith("output.directory") or t.endswith("['output']['directory']") or \
        t.endswith('["output"]["directory"]')


def settings_attr_labels(text: str) -> Optional[FrozenSet[str]]:
    if text.endswith("output.directory"):
        return frozenset({OUT})
    if text.startswith(("settings.", "new_settings.", "self.settings.")):
        return EMPTY
    # <any name>.input.<option> / .rst.<option> / .output.<option> / .logging.<option>: a settings object whatever it is called
    parts = text.split(".")
    if len(parts) >= 3 and parts[-2] in ("input", "rst", "output", "logging") and all(p.isidentifier() for p in parts):
        return EMPTY
    return None


def ctor_result(name: str, c: ast.Call, args: List[FrozenSet[str]]) -> Optional[FrozenSet[str]]:
    short = name.split(".")[-1]
    if short == "Documenter":
        # the first argument is the path that is *read*; the object's content
        # derives from the file's contents and from title/module name only
        out = EMPTY
        for a in args[1:3]:
            out |= a
        return out
    if short == "RSTWriter":
        return args[0] if args else EMPTY
    if short == "document_single_file":
        return EMPTY
    if short in ("deepcopy", "copy") and args:
        return args[0]
    if name.endswith("logger.debug") or name.endswith("logger.info") or name.endswith("logger.error") \
            or name.endswith("logger.warning"):
        return EMPTY
    return None


def is_out_guard(test: ast.expr, polarity: bool, aliases: Set[str]) -> bool:
    """test/polarity pair that establishes 'output directory is set'."""
    def is_out(e):
        return (isinstance(e, ast.Name) and e.id in aliases) or is_output_dir_expr(e)
    if isinstance(test, ast.Compare) and len(test.ops) == 1:
        l, op, r = test.left, test.ops[0], test.comparators[0]
        if isinstance(r, ast.Constant) and r.value is None and is_out(l):
            if isinstance(op, (ast.IsNot, ast.NotEq)):
                return polarity is True
            if isinstance(op, (ast.Is, ast.Eq)):
                return polarity is False
    if is_out(test):
        return polarity is True
    if isinstance(test, ast.UnaryOp) and isinstance(test.op, ast.Not) and is_out(test.operand):
        return polarity is False
    if isinstance(test, ast.BoolOp) and isinstance(test.op, ast.And) and polarity is True:
        return any(is_out_guard(v, True, aliases) for v in test.values)
    if isinstance(test, ast.BoolOp) and isinstance(test.op, ast.Or) and polarity is False:
        return any(is_out_guard(v, False, aliases) for v in test.values)
    return False


# ----------------------------------------------------------------------
# write sites

def write_sites(repo: Repo):
    """(module, qualname, call, kind) for every call in the hand-written package
    that can create, modify or delete a file system entry."""
    out = []
    for mod in HAND_WRITTEN:
        for q, fn in repo.functions(mod):
            for c in calls_in(fn):
                nm = call_name(c)
                short = nm.split(".")[-1]
                kind = None
                if nm == "open" or nm.endswith(".open") and nm in ("io.open", "codecs.open", "os.fdopen"):
                    if _write_mode(c):
                        kind = "open-write"
                elif nm in CREATORS or nm.startswith("shutil.") or nm.startswith("tempfile."):
                    kind = "create"
                elif short == "write_to_file":
                    kind = "write_to_file"
                elif short in PATH_WRITE_METHODS and ("Path" in nm or "path" in nm.lower()):
                    kind = "pathlib-write"
                if nm in DELETERS or short in ("rmtree", "unlink", "rmdir", "removedirs"):
                    kind = "delete"
                if nm in ("os.system", "subprocess.run", "subprocess.call", "subprocess.Popen", "os.popen",
                          "subprocess.check_call", "subprocess.check_output"):
                    kind = "subprocess"
                if kind:
                    out.append((mod, q, fn, c, kind))
    return out


def _write_mode(c: ast.Call) -> bool:
    mode = None
    if len(c.args) >= 2:
        mode = c.args[1]
    for k in c.keywords:
        if k.arg == "mode":
            mode = k.value
    if mode is None:
        return False
    if isinstance(mode, ast.Constant) and isinstance(mode.value, str):
        return any(ch in mode.value for ch in "wax+")
    return True


def rule_write_census(rep: Report, repo: Repo, rule: str) -> None:
    """C13-R1 / C18-R1: every creator lives in document / document_single_file /
    RSTWriter.write_to_file, is dominated by 'output directory is set' and its
    path is rooted at the output directory with no ABS component."""
    rep.rule(rule, "every file-system write site is dominated by 'output directory is not None' and writes to a path "
                   "rooted at the output directory")
    dm = DocumentModel(repo)
    flows = {"document": dm.flow_document(), "document_single_file": dm.flow_single()}
    for mod, q, fn, c, kind in write_sites(repo):
        where = f"{mod}:{q}"
        cons = norm(c)[:90].replace("\n", " ")
        if kind == "delete":
            continue   # C18-R2
        if kind == "subprocess":
            rep.bad(rule, where, cons, "spawns a process that may write anywhere")
            continue
        if mod == "cminx.rstwriter" and q.endswith("write_to_file") and kind == "open-write":
            # the primitive: writes exactly the path it is given
            arg = c.args[0] if c.args else None
            params = {a.arg for a in fn.args.args}
            ok = arg is not None and any(isinstance(n, ast.Name) and n.id in params for n in ast.walk(arg)) and \
                not any(isinstance(n, ast.Call) and call_name(n) in ("os.path.abspath", "os.path.join", "os.getcwd")
                        for n in ast.walk(arg))
            rep.check(ok, rule, where, cons, "write_to_file opens a path other than the one it was handed")
            continue
        if mod != MOD or q not in flows:
            rep.bad(rule, where, cons, f"unexpected file-system write site outside document()/document_single_file(): {kind}")
            continue
        flow = flows[q]
        aliases = dm.out_aliases if q == "document" else dm.out_aliases_single
        gs = guards_of(fn, c, dm.parents)
        guarded = any(is_out_guard(g.test, g.polarity, aliases) for g in gs)
        rep.check(guarded, rule, where, cons + " [guard]",
                  "write site is reachable when no output directory was requested (stdout mode must not touch the file system)",
                  witness="cminx file.cmake   (no -o)")
        recs = [r for r in flow.calls if r.node is c]
        if not recs:
            raise AnalysisError(f"write site not reached by the flow analysis: {cons}")
        r = recs[0]
        path_l = r.args[0] if r.args else EMPTY
        rooted = OUT in path_l and ABS not in path_l and ENV not in path_l
        # structural rooting: the path expression is the alias itself or join(alias, ...)
        rooted = rooted and _rooted_at(c.args[0], aliases, fn)
        rep.check(rooted, rule, where, cons + " [path]",
                  f"path is not rooted at the output directory or contains a location-dependent component (labels {sorted(path_l)})",
                  witness="cminx -o out dir/   writes outside out/")


def _may_precede(a: ast.AST, b: ast.AST, parents, fn) -> bool:
    """Structured-program order: can statement-level node `a` execute before `b` on one path?  True when, in the lowest
    block they share, a's ancestor statement stands before b's; False when they sit in different arms of one `if`/`try`
    or a's ancestor comes later."""
    def chain(n):
        out = []
        while n is not None and n is not fn:
            p = parents.get(n)
            out.append((p, n))
            n = p
        return out
    ca, cb = chain(a), chain(b)
    anc_b = {id(p): child for p, child in cb}
    for p, child_a in ca:
        if id(p) in anc_b:
            child_b = anc_b[id(p)]
            if child_a is child_b:
                return False
            for field in ("body", "orelse", "finalbody", "handlers"):
                blk = getattr(p, field, None)
                if isinstance(blk, list) and any(x is child_a for x in blk) and any(x is child_b for x in blk):
                    ia = next(i for i, x in enumerate(blk) if x is child_a)
                    ib = next(i for i, x in enumerate(blk) if x is child_b)
                    if ia < ib and isinstance(child_a, ast.If):
                        # `a` sits in an arm that cannot fall through (guard clause ending in return / raise / continue):
                        # control never reaches the later statement on that path
                        arm = child_a.body if any(a is x for st_ in child_a.body for x in ast.walk(st_)) else child_a.orelse
                        if terminates(arm):
                            return False
                    return ia < ib
            # different fields of the same compound statement: if-body vs orelse are exclusive; a test precedes its body
            if isinstance(p, ast.If):
                return False
            if isinstance(p, ast.Try):
                return any(x is child_a for x in p.body)
            return False
    return False


def rule_listing_before_creation(rep: Report, repo: Repo, rule: str) -> None:
    """C13-R6: on the directory path of document() nothing is created before the walk lists the input tree; inside the walk
    the creations of one iteration follow that iteration's listing by construction (os.walk lists, then the body runs)."""
    rep.rule(rule, "in document(), no call that creates a file-system entry can execute before the os.walk loop on the same "
                   "path: the set of processed directories is the input tree as found, not as modified by this run")
    dm = DocumentModel(repo)
    where = f"{MOD}:document"
    n = 0
    for mod, q, fn, c, kind in write_sites(repo):
        if mod != MOD or q != "document" or kind in ("delete",):
            continue
        n += 1
        inside = any(x is c for x in ast.walk(dm.walk))
        if inside:
            rep.ok(rule, where, norm(c)[:70] + " [inside the walk]")
            continue
        rep.check(not _may_precede(c, dm.walk, dm.parents, dm.fn), rule, where, norm(c)[:70] + " [before the walk?]",
                  "the output directory is created before the input tree is listed: an output location nested in the input "
                  "directory is walked like an input subdirectory and receives an index.rst of its own",
                  witness="cminx -r -o tree/docs tree   (tree/docs not existing before; auto-exclusion off)")
    rep.floor(rule, 2, "creating calls of document()")


def rule_index_always_written(rep: Report, repo: Repo, rule: str) -> None:
    """Every directory whose walk iteration reaches the index block writes its index.rst: the write is conditional on the
    output directory only (a `continue` at the top level of the walk body skips the whole directory and is not a condition
    of the write)."""
    rep.rule(rule, "inside the walk, index.write_to_file(...) is guarded by 'output directory is set' only: a processed "
                   "directory never lacks the index.rst its parent's toctree refers to")
    dm = DocumentModel(repo)
    where = f"{MOD}:document"
    n = 0
    inside = {id(x) for x in ast.walk(dm.walk)}
    for c in calls_in(dm.walk):
        if isinstance(c.func, ast.Attribute) and c.func.attr == "write_to_file":
            n += 1
            for g in guards_of(dm.fn, c, dm.parents):
                if id(g.test) not in inside:
                    continue
                if is_out_guard(g.test, g.polarity, dm.out_aliases):
                    continue
                if g.kind == "early-exit":
                    iff = dm.parents.get(g.test)
                    if isinstance(iff, ast.If) and any(x is iff for x in dm.walk.body):
                        continue
                rep.bad(rule, where, f"index write under `{'' if g.polarity else 'not '}{norm(g.test)[:70]}`",
                        "index.rst is written only under a further condition: the directory's pages are still produced and the "
                        "parent's toctree still lists <dir>/index.rst, which is then missing",
                        witness="-r with auto_exclude_directories_without_cmake: false and an empty leaf directory")
            rep.ok(rule, where, norm(c)[:80])
    if n == 0:
        raise AnalysisError("anchor vanished: the walk body of document() never calls write_to_file")
    rep.floor(rule, 1, "index write sites")


def _rooted_at(e: ast.expr, aliases: Set[str], fn, depth=0) -> bool:
    """Path expression is <alias> | join(<rooted>, clean...) | a local whose every
    assignment is rooted."""
    if depth > 6:
        return False
    if isinstance(e, ast.Name):
        if e.id in aliases:
            return True
        defs = [n for n in walk_no_nested(fn) if isinstance(n, ast.Assign) and any(
            isinstance(t, ast.Name) and t.id == e.id for t in n.targets)]
        return bool(defs) and all(_rooted_at(d.value, aliases, fn, depth + 1) for d in defs)
    if is_output_dir_expr(e):
        return True
    if isinstance(e, ast.Call) and call_name(e) == "os.path.join" and e.args:
        return _rooted_at(e.args[0], aliases, fn, depth + 1)
    if isinstance(e, ast.Call) and call_name(e) in ("os.path.normpath", "str", "os.fspath") and e.args:
        return _rooted_at(e.args[0], aliases, fn, depth + 1)
    return False


def rule_no_delete(rep: Report, repo: Repo, rule: str) -> None:
    rep.rule(rule, "no deletion / rename / move call anywhere in the package (positive control must match)")
    n = 0
    for mod, q, fn, c, kind in write_sites(repo):
        if kind == "delete":
            n += 1
            rep.bad(rule, f"{mod}:{q}", norm(c)[:80], "the package deletes or renames file-system entries")
    # positive control: the matcher must fire on the control snippet
    import os
    from ..core import VERIF_DIR
    ctrl = os.path.join(VERIF_DIR, "controls", "deleter.py")
    src = open(ctrl).read()
    tree = ast.parse(src)
    hits = 0
    for node in ast.walk(tree):
        if isinstance(node, ast.Call):
            nm = call_name(node)
            if nm in DELETERS or nm.split(".")[-1] in ("rmtree", "unlink", "rmdir", "removedirs"):
                hits += 1
    if hits < 3:
        raise AnalysisError("positive control controls/deleter.py no longer matches the deletion matcher")
    rep.ok(rule, "controls/deleter.py", f"positive control matched {hits} deletion calls")
    rep.ok(rule, "cminx.*", f"{n} deletion calls in {len(HAND_WRITTEN)} modules")


# ----------------------------------------------------------------------
# content / order sinks

def content_sinks(flow: LabelFlow, fn_name: str):
    """(record-ish, description, labels, order_ctx) for everything that ends up
    in generated bytes."""
    out = []
    for r in flow.calls:
        short = r.name.split(".")[-1]
        if short == "Documenter":
            names = ["file", "title", "module_name", "settings"]
            for i, lab in enumerate(r.args):
                if i in (1, 2):
                    out.append((r.node, f"Documenter({names[i]}=...)", lab, r.order_ctx))
            for k, lab in r.kwargs.items():
                if k in ("title", "module_name"):
                    out.append((r.node, f"Documenter({k}=...)", lab, r.order_ctx))
        elif short == "RSTWriter":
            if r.args:
                out.append((r.node, "RSTWriter(title=...)", r.args[0], r.order_ctx))
            if "title" in r.kwargs:
                out.append((r.node, "RSTWriter(title=...)", r.kwargs["title"], r.order_ctx))
        elif short in WRITER_METHODS and isinstance(r.node.func, ast.Attribute):
            lab = EMPTY
            for a in r.args:
                lab |= a
            for a in r.kwargs.values():
                lab |= a
            out.append((r.node, norm(r.node)[:60], lab, r.order_ctx))
        elif r.name == "print":
            lab = EMPTY
            for a in r.args:
                lab |= a
            out.append((r.node, norm(r.node)[:60], lab, r.order_ctx))
    for s in flow.stores:
        if s.target.endswith(".title"):
            out.append((s.node, f"{s.target} = ...", s.labels, s.order_ctx))
    return out


def rule_no_location_in_content(rep: Report, repo: Repo, rule: str, only_names: bool = False) -> None:
    """C12-R1 / C17-R1: no ABS/OUT label reaches a content sink."""
    rep.rule(rule, "no value derived from an absolute location (abspath, cwd, walk root, input path as given, output "
                   "directory) reaches a title, module name, toctree entry or printed page")
    dm = DocumentModel(repo)
    for fn_name, flow in (("document", dm.flow_document()), ("document_single_file", dm.flow_single())):
        for node, desc, lab, _ctx in content_sinks(flow, fn_name):
            if only_names and not (desc.startswith("Documenter(") or desc.startswith("RSTWriter(") or ".title" in desc):
                continue
            bad = lab & {ABS, OUT}
            rep.check(not bad, rule, f"{MOD}:{fn_name}", desc,
                      f"location-dependent value reaches generated content (labels {sorted(bad)}): the output changes when "
                      f"the tree is moved or the working directory changes",
                      witness="cminx /abs/path/x.cmake  vs  cd /abs/path && cminx x.cmake")
    # Documenter.__init__: the path to read must not become title/module when the caller supplies them
    doc_fn = repo.func("cminx.documenter", "Documenter.__init__")
    fl = LabelFlowNonNull(doc_fn, {"file": frozenset({ABS})}, nonnull=_nonnull_doc_args(repo))
    for node, desc, lab, _ctx in content_sinks(fl, "Documenter.__init__"):
        rep.check(ABS not in lab, rule, "cminx.documenter:Documenter.__init__", desc,
                  "the path of the file to read flows into the page title")
    for s in fl.stores:
        if s.target == "self.module_name":
            rep.check(ABS not in s.labels, rule, "cminx.documenter:Documenter.__init__", "self.module_name = ...",
                      "the path of the file to read flows into the module name")


def _nonnull_doc_args(repo: Repo) -> Set[str]:
    """Parameters of Documenter.__init__ that the package's only call site
    always supplies with a non-None value (call-site sensitivity, DESIGN E5)."""
    single = repo.func(MOD, "document_single_file")
    init = repo.func("cminx.documenter", "Documenter.__init__")
    pnames = [a.arg for a in init.args.args][1:]
    out: Set[str] = set()
    sites = [c for q, f in repo.functions(MOD) for c in calls_in(f) if call_name(c).split(".")[-1] == "Documenter"]
    if not sites:
        raise AnalysisError("anchor vanished: no Documenter(...) call in cminx/__init__.py")
    for i, p in enumerate(pnames):
        ok = True
        for c in sites:
            arg = c.args[i] if i < len(c.args) else next((k.value for k in c.keywords if k.arg == p), None)
            if arg is None or not _never_none(arg, single, 0, repo.module(MOD).parents, c):
                ok = False
        if ok:
            out.add(p)
    return out


def _never_none(e: ast.expr, fn, depth=0, parents=None, at=None) -> bool:
    """Conservative 'this expression is never None' (used only to establish
    call-site facts; False means 'do not know')."""
    if depth > 5:
        return False
    if isinstance(e, ast.Constant):
        return e.value is not None
    if isinstance(e, (ast.JoinedStr, ast.BinOp)):
        return True
    if isinstance(e, ast.IfExp):
        return _never_none(e.body, fn, depth + 1, parents, at) and _never_none(e.orelse, fn, depth + 1, parents, at)
    if isinstance(e, ast.Call):
        if isinstance(e.func, ast.Attribute) and e.func.attr in ("strip", "lstrip", "rstrip", "replace", "lower", "upper", "join", "format",
                                                                  "removesuffix", "removeprefix"):
            return True          # str methods return str
        if call_name(e) in ("os.path.relpath", "os.path.basename", "re.sub", "str", "os.path.join",
                            "os.path.abspath", "os.path.normpath"):
            return True
        # a module-level helper all of whose returns are never None
        if isinstance(e.func, ast.Name) and parents is not None:
            mod_node = fn
            while mod_node in parents:
                mod_node = parents[mod_node]
            for st in getattr(mod_node, "body", []):
                if isinstance(st, ast.FunctionDef) and st.name == e.func.id:
                    rets = [n for n in walk_no_nested(st) if isinstance(n, ast.Return)]
                    return bool(rets) and all(r.value is not None and _never_none(r.value, st, depth + 1, parents, r) for r in rets)
        return False
    if at is not None and parents is not None and isinstance(e, (ast.Name, ast.Attribute)):
        # guarded by `<e> is not None`
        flat_guards = []
        for g in guards_of(fn, at, parents):
            if isinstance(g.test, ast.BoolOp) and isinstance(g.test.op, ast.And) and g.polarity:
                flat_guards.extend((v, True) for v in g.test.values)
            elif isinstance(g.test, ast.BoolOp) and isinstance(g.test.op, ast.Or) and not g.polarity:
                flat_guards.extend((v, False) for v in g.test.values)
            else:
                flat_guards.append((g.test, g.polarity))
        from ..model import Guard
        for t, pol in flat_guards:
            g = Guard(t, pol, "flat")
            if isinstance(t, ast.Compare) and len(t.ops) == 1 and norm(t.left) == norm(e) \
                    and isinstance(t.comparators[0], ast.Constant) and t.comparators[0].value is None:
                if (isinstance(t.ops[0], (ast.IsNot, ast.NotEq)) and g.polarity) or \
                        (isinstance(t.ops[0], (ast.Is, ast.Eq)) and not g.polarity):
                    return True
    if isinstance(e, ast.Name):
        params = {a.arg for a in fn.args.args}
        defs = [n for n in walk_no_nested(fn) if isinstance(n, ast.Assign) and any(
            isinstance(t, ast.Name) and t.id == e.id for t in n.targets)]
        if not defs:
            return e.id in params and e.id not in param_defaults(fn)
        return all(_never_none(d.value, fn, depth + 1, parents, d) for d in defs)
    return False


class LabelFlowNonNull(LabelFlow):
    """LabelFlow that prunes `x is None` branches for parameters known to be
    non-None at every call site."""

    def __init__(self, fn, param_labels, nonnull: Set[str]):
        self.nonnull = set(nonnull)
        self.reassigned: Set[str] = set()
        super().__init__(fn, param_labels, attr_labels=settings_attr_labels, call_result=ctor_result)

    def _decide(self, test) -> Optional[bool]:
        if isinstance(test, ast.Compare) and len(test.ops) == 1 and isinstance(test.left, ast.Name) \
                and isinstance(test.comparators[0], ast.Constant) and test.comparators[0].value is None \
                and test.left.id in self.nonnull:
            if isinstance(test.ops[0], (ast.Is, ast.Eq)):
                return False
            if isinstance(test.ops[0], (ast.IsNot, ast.NotEq)):
                return True
        return None

    def stmt(self, st, env):
        if isinstance(st, ast.If):
            d = self._decide(st.test)
            if d is True:
                return self.block(st.body, env)
            if d is False:
                return self.block(st.orelse, env)
        # the fact travels through plain copies (x = y) and is lost on any other assignment to x
        if isinstance(st, (ast.Assign, ast.AnnAssign)) and st.value is not None:
            r = super().stmt(st, env)       # the right-hand side is evaluated with the facts that hold before the assignment
            tgts = st.targets if isinstance(st, ast.Assign) else [st.target]
            val = st.value
            while isinstance(val, ast.IfExp) and self._decide(val.test) is not None:
                val = val.body if self._decide(val.test) else val.orelse
            for t in tgts:
                if isinstance(t, ast.Name):
                    known = (isinstance(val, ast.Name) and val.id in self.nonnull) or isinstance(val, ast.JoinedStr) or \
                        (isinstance(val, ast.Constant) and val.value is not None)
                    if known:
                        self.nonnull.add(t.id)
                    else:
                        self.nonnull.discard(t.id)
            return r
        return super().stmt(st, env)

    def expr(self, e, env):
        if isinstance(e, ast.IfExp):
            d = self._decide(e.test)
            if d is True:
                return self.expr(e.body, env)
            if d is False:
                return self.expr(e.orelse, env)
        return super().expr(e, env)


def rule_no_nondeterminism(rep: Report, repo: Repo, rule: str) -> None:
    """C17-R2: no ORDER/ENV label reaches content or the order of page production."""
    rep.rule(rule, "no unsorted directory listing, set iteration, time, random, id, hash or environment value reaches "
                   "generated content or the order in which pages/toctree entries are produced")
    dm = DocumentModel(repo)
    n_order = 0
    for fn_name, flow in (("document", dm.flow_document()), ("document_single_file", dm.flow_single())):
        for node, desc, lab, ctx in content_sinks(flow, fn_name):
            bad = (lab & {ORDER, ENV}) | (ctx & {ORDER, ENV})
            rep.check(not bad, rule, f"{MOD}:{fn_name}", desc,
                      f"content or its position depends on {sorted(bad)} (e.g. the operating system's listing order)",
                      witness="same tree on two file systems with different readdir order")
        for r in flow.calls:
            if r.name.split(".")[-1] == "document_single_file":
                n_order += 1
                bad = r.order_ctx & {ORDER, ENV}
                rep.check(not bad, rule, f"{MOD}:{fn_name}", "order of document_single_file calls",
                          "pages of one directory are produced in listing order, not sorted order (stdout mode prints them in that order)")
    # the whole package must not consult nondeterministic sources on the processing path
    for mod in HAND_WRITTEN:
        for q, fn in repo.functions(mod):
            for c in calls_in(fn):
                nm = call_name(c)
                if nm.split(".")[0] in ("time", "random", "uuid", "datetime", "secrets") or nm in ("id", "hash", "os.getpid"):
                    rep.bad(rule, f"{mod}:{q}", norm(c)[:60], "nondeterministic source on the processing path")
    rep.floor(rule, 8, "content/order sinks")


def rule_mode_independence(rep: Report, repo: Repo, rule: str) -> None:
    """Which directories and files are processed does not depend on whether (or where) output is written."""
    rep.rule(rule, "inside the walk, no pruning, filtering, skipping or page production is conditional on the output directory: "
                   "stdout mode prints exactly the pages the -o run writes")
    dm = DocumentModel(repo)
    where = f"{MOD}:document"

    derived: Set[str] = set(dm.out_aliases)

    def mentions_out(e: ast.expr) -> bool:
        return any((isinstance(x, ast.Name) and x.id in derived) or is_output_dir_expr(x) for x in ast.walk(e))
    # names computed from the output directory (its absolute form, a flag "output requested", ...) carry the dependence
    for _ in range(4):
        for a_ in walk_no_nested(dm.fn):
            if isinstance(a_, ast.Assign) and len(a_.targets) == 1 and isinstance(a_.targets[0], ast.Name) and mentions_out(a_.value):
                derived.add(a_.targets[0].id)
    n = 0
    lists = (dm.dirs_var, dm.files_var)
    decisions: List[Tuple[str, list]] = []
    for node in walk_no_nested(dm.walk):
        what = None
        if isinstance(node, (ast.Continue, ast.Break)):
            what = "continue" if isinstance(node, ast.Continue) else "break"
        elif isinstance(node, ast.Call) and isinstance(node.func, ast.Attribute) and node.func.attr in MUTATING \
                and norm(node.func.value) in lists:
            what = norm(node)[:50]
        elif isinstance(node, ast.Call) and call_name(node).endswith("document_single_file"):
            what = "document_single_file(...)"
        elif isinstance(node, ast.Assign) and any(norm(t) in lists or (isinstance(t, ast.Subscript) and norm(t.value) in lists)
                                                  for t in node.targets):
            what = norm(node)[:50]
        elif isinstance(node, ast.Delete) and any(norm(getattr(t, "value", t)) in lists for t in node.targets):
            what = norm(node)[:50]
        if what is None:
            continue
        n += 1
        gs = [g for g in guards_of(dm.fn, node, dm.parents) if any(g.test is x for x in ast.walk(dm.walk))]
        dep = [g for g in gs if mentions_out(g.test)]
        decisions.append((what, dep))
    for what, dep in decisions:
        if dep:
            # the same decision taken under the complementary condition as well is no dependence on the mode
            twin = any(w2 == what and d2 and norm(d2[0].test) == norm(dep[0].test) and d2[0].polarity != dep[0].polarity
                       for w2, d2 in decisions)
            if twin:
                dep = []
        rep.check(not dep, rule, where, what,
                  f"`{what}` happens only under a condition on the output directory (`{norm(dep[0].test)[:60] if dep else ''}`): the set of "
                  f"processed directories differs between stdout mode and -o mode",
                  witness="cminx -r tree   vs   cminx -r -o tree/doc tree  with a source directory tree/doc_helpers")
    rep.floor(rule, 6, "processing decisions in the walk")


def rule_always_regenerates(rep: Report, repo: Repo, rule: str) -> None:
    """document_single_file() parses and renders its file on every call: no return before the processing, no decision taken
    from the state of the output location (existence, time stamps) or from earlier runs."""
    rep.rule(rule, "document_single_file() has no return (or other exit) before the Documenter has processed the file, and "
                   "consults no time stamp / existence of the output: the page always reflects the file as it is now")
    dm = DocumentModel(repo)
    fn = dm.single
    where = f"{MOD}:document_single_file"
    order = {id(x): i for i, x in enumerate(_dfs_nodes(fn))}
    proc = [c for c in calls_in(fn) if isinstance(c.func, ast.Attribute) and c.func.attr == "process"]
    if not proc:
        raise AnalysisError("anchor vanished: document_single_file() does not call <Documenter>.process()")
    first = min(order[id(c)] for c in proc)
    early = [n for n in ast.walk(fn) if isinstance(n, ast.Return) and order[id(n)] < first]
    rep.check(not early, rule, where, f"{len(early)} return statement(s) before process()",
              "the file is not always parsed and rendered: a stale or missing page, and errors in the file go unreported",
              witness="second run after the source was replaced by a revision with an older time stamp")
    stat_calls = [c for c in calls_in(fn) if call_name(c) in ("os.path.getmtime", "os.path.getctime", "os.path.getatime", "os.stat", "os.path.getsize")
                  or call_name(c).endswith(".stat") or call_name(c).endswith(".st_mtime")]
    rep.check(not stat_calls, rule, where, f"{len(stat_calls)} time stamp / stat call(s)",
              "the result depends on file time stamps: the same inputs give different outputs depending on the history of the "
              "output directory")
    rep.floor(rule, 2, "regeneration facts")


def _dfs_nodes(node: ast.AST):
    yield node
    for ch in ast.iter_child_nodes(node):
        yield from _dfs_nodes(ch)


def rule_pages_not_skipped(rep: Report, repo: Repo, rule: str) -> None:
    rep.rule(rule, "inside the walk, the call that produces a page is not wrapped in an exception handler that continues: a file "
                   "that is listed in the index is documented, or the run fails")
    dm = DocumentModel(repo)
    n = 0
    for c in calls_in(dm.walk):
        if call_name(c).endswith("document_single_file"):
            n += 1
            q, child = c, c
            swallowed = None
            while q in dm.parents and q is not dm.walk:
                child, q = q, dm.parents[q]
                if isinstance(q, ast.Try) and any(child is st_ for st_ in q.body):
                    for h in q.handlers:
                        if not any(isinstance(x, ast.Raise) for x in ast.walk(h)) and not any(
                                isinstance(x, ast.Call) and call_name(x) in ("exit", "sys.exit") for x in ast.walk(h)):
                            swallowed = norm(h.type) if h.type is not None else "everything"
            rep.check(swallowed is None, rule, f"{MOD}:document", norm(c)[:60],
                      f"a failure of the page production is caught ({swallowed}) and the walk goes on: the index, written before, lists "
                      f"an entry for which no page exists", witness="a directory with one malformed .cmake file")
    rep.floor(rule, 1, "page production calls")


def rule_index_before_pages(rep: Report, repo: Repo, rule: str) -> None:
    rep.rule(rule, "in the walk body the directory index is written before the pages of that directory are produced: the page of a "
                   "module called index.cmake is the last writer of <dir>/index.rst, as it is the page stdout mode prints")
    dm = DocumentModel(repo)
    _tf, _td, page = emission_loops(dm)
    if page is None:
        raise AnalysisError("anchor vanished: page loop of document()")
    i_page = dm.walk_body_index(page)
    writes = [c for c in calls_in(dm.walk) if isinstance(c.func, ast.Attribute) and c.func.attr == "write_to_file"]
    if not writes:
        raise AnalysisError("anchor vanished: index write in the walk body")
    for c in writes:
        i_w = dm.walk_body_index(c)
        rep.check(i_w is not None and i_page is not None and i_w < i_page, rule, f"{MOD}:document", norm(c)[:70] + " precedes the page loop",
                  "the directory index is written after the pages: it overwrites the page of a module named index.cmake, which stdout "
                  "mode still prints", witness="a directory containing index.cmake")
    rep.floor(rule, 1, "index/page order")


def rule_walk_root_absolute(rep: Report, repo: Repo, rule: str) -> None:
    rep.rule(rule, "os.walk starts at the absolute input path (the same string the exclusion test and relpath use), not at the "
                   "path as typed")
    dm = DocumentModel(repo)
    arg = dm.walk.iter.args[0] if dm.walk.iter.args else next((k.value for k in dm.walk.iter.keywords if k.arg == "top"), None)
    if arg is None:
        raise AnalysisError("os.walk call without root argument")
    facts = _path_facts_at(dm.fn, dm.walk, arg, dm.fn.args.args[0].arg)
    rep.check("abs" in facts, rule, f"{MOD}:document", f"os.walk({norm(arg)}, ...)",
              "the walk yields roots relative to the working directory: anchored exclude patterns match or not depending on where "
              "CMinx was started, and relpath(root, input_path) mixes relative and absolute paths",
              witness="cd tree && cminx -r -e sub/skip.cmake .   vs   cminx -r -e sub/skip.cmake tree")
    rep.floor(rule, 1, "walk root")


PATTERN_APIS = {"glob.glob": 0, "glob.iglob": 0, "fnmatch.fnmatch": 1, "fnmatch.fnmatchcase": 1, "fnmatch.filter": 1,
                "re.compile": 0, "re.match": 0, "re.search": 0, "re.fullmatch": 0, "re.sub": 0, "re.split": 0, "re.findall": 0}


def rule_no_location_as_pattern(rep: Report, repo: Repo, rule: str) -> None:
    """An absolute path must never be *interpreted* (glob / fnmatch / regular expression): characters of the tree's location
    would then change which files are found."""
    rep.rule(rule, "no glob / fnmatch / regular-expression API receives a pattern built from the absolute input location "
                   "(glob.escape / re.escape of that part is accepted)")
    dm = DocumentModel(repo)
    n = 0
    for fn_name, flow in (("document", dm.flow_document()), ("document_single_file", dm.flow_single())):
        for r in flow.calls:
            short = r.name.split(".")[-1]
            pos = PATTERN_APIS.get(r.name)
            if pos is None and short in ("glob", "rglob") and isinstance(r.node.func, ast.Attribute):
                pos = 0
            if pos is None:
                continue
            n += 1
            if pos >= len(r.args):
                continue
            arg = r.node.args[pos]
            escaped = any(isinstance(x, ast.Call) and call_name(x) in ("glob.escape", "re.escape") for x in ast.walk(arg))
            rep.check(ABS not in r.args[pos] or escaped, rule, f"{MOD}:{fn_name}", norm(r.node)[:80],
                      "the absolute location of the input tree is interpreted as a pattern: a '[' or '*' in a parent directory's "
                      "name changes which files are found, so moving the tree changes the output",
                      witness="input tree below a directory named 'build[1]'")
    rep.ok(rule, f"{MOD}", f"{n} pattern-interpreting call(s) examined")


def _set_valued(e: ast.expr, names: Set[str]) -> bool:
    if isinstance(e, ast.SetComp) or (isinstance(e, ast.Set)):
        return True
    if isinstance(e, ast.Call) and call_name(e) in ("set", "frozenset"):
        return True
    if isinstance(e, ast.Call) and isinstance(e.func, ast.Attribute) and e.func.attr in (
            "union", "intersection", "difference", "symmetric_difference", "copy") and _set_valued(e.func.value, names):
        return True
    if isinstance(e, ast.Call) and isinstance(e.func, ast.Attribute) and e.func.attr == "keys":
        return False
    if isinstance(e, ast.BinOp) and isinstance(e.op, (ast.BitOr, ast.BitAnd, ast.Sub, ast.BitXor)):
        return _set_valued(e.left, names) or _set_valued(e.right, names)
    if isinstance(e, ast.Name):
        return e.id in names
    if isinstance(e, ast.Attribute) and isinstance(e.value, ast.Name) and e.value.id == "self":
        return ("self." + e.attr) in names
    return False


ORDER_SENSITIVE_CALLS = {"list", "tuple", "enumerate", "str", "repr", "print", "iter", "next", "zip", "map", "filter", "reversed"}
ORDER_FREE_CALLS = {"sorted", "len", "any", "all", "min", "max", "sum", "set", "frozenset", "bool", "isinstance"}


def _order_free_body(stmts) -> bool:
    """A loop body whose effect does not depend on the iteration order: only set insertions, flag assignments of constants,
    `continue`, and `if`s over such statements."""
    for st in stmts:
        if isinstance(st, ast.Expr) and isinstance(st.value, ast.Call) and isinstance(st.value.func, ast.Attribute) \
                and st.value.func.attr in ("add", "discard", "update"):
            continue
        if isinstance(st, ast.Assign) and isinstance(st.value, ast.Constant) and all(isinstance(t, ast.Name) for t in st.targets):
            continue
        if isinstance(st, (ast.Continue, ast.Pass)):
            continue
        if isinstance(st, ast.If) and _order_free_body(st.body) and _order_free_body(st.orelse):
            continue
        return False
    return True


def _set_order_hits(fn, parents) -> List[Tuple[ast.expr, str]]:
    names: Set[str] = set()
    for _ in range(3):
        for n in ast.walk(fn):
            tgt = val = None
            if isinstance(n, ast.Assign) and len(n.targets) == 1:
                tgt, val = n.targets[0], n.value
            elif isinstance(n, ast.AnnAssign) and n.value is not None:
                tgt, val = n.target, n.value
            if tgt is not None and _set_valued(val, names):
                if isinstance(tgt, ast.Name):
                    names.add(tgt.id)
                elif isinstance(tgt, ast.Attribute) and isinstance(tgt.value, ast.Name) and tgt.value.id == "self":
                    names.add("self." + tgt.attr)
    out: List[Tuple[ast.expr, str]] = []
    for n in ast.walk(fn):
        cands: List[Tuple[ast.expr, str]] = []
        if isinstance(n, (ast.For, ast.AsyncFor)):
            if not _order_free_body(n.body + n.orelse):
                cands.append((n.iter, "for loop"))
        elif isinstance(n, (ast.ListComp, ast.GeneratorExp, ast.DictComp)):
            par = parents.get(n)
            free = isinstance(par, ast.Call) and call_name(par) in ORDER_FREE_CALLS
            if not free:
                cands.extend((g.iter, "comprehension") for g in n.generators)
        elif isinstance(n, ast.Call):
            nm = call_name(n)
            short = nm.split(".")[-1]
            if nm in ORDER_SENSITIVE_CALLS or short in ("join", "extend", "text", "write", "format"):
                cands.extend((a, f"{short}()") for a in n.args)
        elif isinstance(n, ast.FormattedValue):
            cands.append((n.value, "f-string"))
        elif isinstance(n, ast.Starred):
            cands.append((n.value, "unpacking"))
        out.extend((e, how) for e, how in cands if _set_valued(e, names))
    return out


def rule_no_set_order(rep: Report, repo: Repo, rule: str) -> None:
    """The iteration order of a set (hash-seed dependent for str elements) never becomes visible: package-wide scan of every
    consumer of a set-valued expression."""
    rep.rule(rule, "no set-valued expression (set display/comprehension, set()/frozenset(), set algebra, or a name bound to one) "
                   "is iterated, joined, listed or formatted without sorted(): set order depends on the hash seed")
    n_sets = 0
    for mod in HAND_WRITTEN:
        m = repo.module(mod)
        for q, fn in repo.functions(mod):
            for e, how in _set_order_hits(fn, m.parents):
                n_sets += 1
                rep.bad(rule, f"{mod}:{q}", f"{how} over {norm(e)[:70]}",
                        "the order of a set reaches the output: with two or more elements it changes with PYTHONHASHSEED",
                        witness="cpp_class(C A B) rendered under PYTHONHASHSEED=0 and =42")
    # positive control
    import os
    from ..core import VERIF_DIR
    ctree = ast.parse(open(os.path.join(VERIF_DIR, "controls", "set_order.py")).read())
    cpar = {ch: p for p in ast.walk(ctree) for ch in ast.iter_child_nodes(p)}
    hits = sum(len(_set_order_hits(f, cpar)) for f in ast.walk(ctree) if isinstance(f, ast.FunctionDef))
    if hits != 4:
        raise AnalysisError(f"positive control controls/set_order.py: {hits} hits, expected 4 (and none in the order-free twin)")
    rep.ok(rule, "controls/set_order.py", "positive control matched 4 order-sensitive consumers, 0 in the order-free twin")
    rep.ok(rule, "package", f"{n_sets} order-sensitive set consumer(s) in {len(HAND_WRITTEN)} modules")


# ----------------------------------------------------------------------
# loops: mutation while iterating, pruning, match sites

MUTATING = {"remove", "pop", "append", "insert", "clear", "extend", "sort", "reverse", "add", "discard", "update"}


def rule_no_mutation_while_iterating(rep: Report, repo: Repo, rule: str) -> None:
    rep.rule(rule, "no list is mutated while it is the iterable of an enclosing for loop (whole package)")
    n = 0
    for mod in HAND_WRITTEN:
        mm = repo.module(mod)
        for q, fn in repo.functions(mod):
            for loop in walk_no_nested(fn):
                if not isinstance(loop, ast.For):
                    continue
                it = loop.iter
                if not isinstance(it, (ast.Name, ast.Attribute)):
                    continue
                n += 1
                it_text = norm(it)
                bad_node = None
                for st in loop.body:
                    for c in [st] + list(walk_no_nested(st)):
                        if isinstance(c, ast.Call) and isinstance(c.func, ast.Attribute) and c.func.attr in MUTATING \
                                and norm(c.func.value) == it_text:
                            bad_node = c
                        if isinstance(c, ast.Delete):
                            for t in c.targets:
                                if isinstance(t, ast.Subscript) and norm(t.value) == it_text:
                                    bad_node = c
                        if isinstance(c, ast.AugAssign) and norm(c.target) == it_text:
                            bad_node = c
                cons = f"for {norm(loop.target)} in {it_text}"
                rep.check(bad_node is None, rule, f"{mod}:{q}", cons,
                          f"`{norm(bad_node)[:60] if bad_node is not None else ''}` mutates the list being iterated: the element after a "
                          f"removed one is skipped",
                          witness="two excluded siblings adjacent in the listing: -e x1.cmake -e x2.cmake => x2.rst is written")
    rep.floor(rule, 5, "for loops over a name")


def rule_pruning_in_place(rep: Report, repo: Repo, rule: str) -> None:
    rep.rule(rule, "exclusion pruning acts in place on the directory list yielded by os.walk(topdown=True) before any rebinding")
    dm = DocumentModel(repo)
    w = dm.walk
    topdown_ok = True
    for k in w.iter.keywords:
        if k.arg == "topdown" and not (isinstance(k.value, ast.Constant) and k.value.value is True):
            topdown_ok = False
    if len(w.iter.args) >= 2 and not (isinstance(w.iter.args[1], ast.Constant) and w.iter.args[1].value is True):
        topdown_ok = False
    rep.check(topdown_ok, rule, f"{MOD}:document", norm(w.iter)[:80],
              "os.walk is not top-down: removing entries from the directory list no longer prevents the descent")
    # first rebinding of dirs var in loop body
    first_rebind = None
    prunes = []
    for i, st in enumerate(w.body):
        for n in [st] + list(walk_no_nested(st)):
            if isinstance(n, ast.Assign) and any(isinstance(t, ast.Name) and t.id == dm.dirs_var for t in n.targets):
                if first_rebind is None:
                    first_rebind = i
            if isinstance(n, ast.Call) and isinstance(n.func, ast.Attribute) and n.func.attr in ("remove", "pop", "clear") \
                    and norm(n.func.value) == dm.dirs_var:
                prunes.append((i, n))
            if isinstance(n, ast.Delete):
                for t in n.targets:
                    if isinstance(t, ast.Subscript) and norm(t.value) == dm.dirs_var:
                        prunes.append((i, n))
            if isinstance(n, ast.Assign) and any(isinstance(t, ast.Subscript) and norm(t.value) == dm.dirs_var
                                                 and isinstance(t.slice, ast.Slice) for t in n.targets):
                prunes.append((i, n))
    # rebinding the directory list to a filtered copy prunes nothing for os.walk
    for i, st in enumerate(w.body):
        for n in [st] + list(walk_no_nested(st)):
            if isinstance(n, ast.Assign) and any(isinstance(t, ast.Name) and t.id == dm.dirs_var for t in n.targets):
                v = n.value
                preserving = isinstance(v, ast.Call) and call_name(v) in ("sorted", "list", "copy.copy", "tuple", "reversed") \
                    and v.args and norm(v.args[0]) == dm.dirs_var
                preserving = preserving or (isinstance(v, ast.Subscript) and norm(v.value) == dm.dirs_var and isinstance(v.slice, ast.Slice)
                                            and v.slice.lower is None and v.slice.upper is None)
                rep.check(preserving, rule, f"{MOD}:document", norm(n)[:80],
                          f"`{dm.dirs_var}` is rebound to a filtered list: directories dropped this way are still descended by os.walk, "
                          f"so their sub-directories are processed although the directory was excluded",
                          witness="-r with a CMake-less directory that has a CMake-bearing sub-directory")
    rep.check(bool(prunes), rule, f"{MOD}:document", f"pruning of {dm.dirs_var}",
              "the directory list yielded by os.walk is never pruned: excluded directories are descended into")
    for i, n in prunes:
        rep.check(first_rebind is None or i < first_rebind, rule, f"{MOD}:document", norm(n)[:60],
                  f"pruning happens after `{dm.dirs_var}` was rebound to a new list: os.walk does not see the removal and "
                  f"descends into the excluded directory")
    rep.floor(rule, 3, "pruning facts")


def resolve_locals(e: ast.expr, scope: ast.AST, skip: Set[str] = frozenset(), depth: int = 0) -> ast.expr:
    """Copy propagation for reading purposes: names assigned exactly once inside `scope` (and not loop targets) are replaced
    by the assigned expression."""
    if depth > 4:
        return e
    import copy as _copy
    targets = {}
    loop_targets = set()
    for n in ast.walk(scope):
        if isinstance(n, ast.Assign) and len(n.targets) == 1 and isinstance(n.targets[0], ast.Name):
            targets.setdefault(n.targets[0].id, []).append(n.value)
        elif isinstance(n, (ast.For, ast.comprehension)):
            for x in ast.walk(n.target):
                if isinstance(x, ast.Name):
                    loop_targets.add(x.id)
        elif isinstance(n, (ast.AugAssign,)) and isinstance(n.target, ast.Name):
            targets.setdefault(n.target.id, []).extend([None, None])

    class S(ast.NodeTransformer):
        def visit_Name(self, node):
            if isinstance(node.ctx, ast.Load) and node.id in targets and len(targets[node.id]) == 1 and node.id not in loop_targets \
                    and node.id not in skip and targets[node.id][0] is not None:
                return resolve_locals(_copy.deepcopy(targets[node.id][0]), scope, skip | {node.id}, depth + 1)
            return node
    return S().visit(_copy.deepcopy(e))


def match_sites(dm: DocumentModel):
    return [c for c in calls_in(dm.fn) if isinstance(c.func, ast.Attribute) and c.func.attr == "match_file"
            and norm(c.func.value) == dm.spec_var]


def rule_match_sites(rep: Report, repo: Repo, rule: str) -> None:
    rep.rule(rule, "input path, every subdirectory (with trailing separator) and every file are matched against the one "
                   "spec compiled from settings.input.exclude_filters; main fills it with all_contents()")
    dm = DocumentModel(repo)
    where = f"{MOD}:document"
    # spec source
    src_ok = any("exclude_filters" in norm(a) for a in dm.spec_call.args) and \
        any("GitWildMatch" in norm(a) or "gitwildmatch" in norm(a).lower() for a in dm.spec_call.args)
    rep.check(src_ok, rule, where, norm(dm.spec_call)[:90],
              "the PathSpec is not compiled from settings.input.exclude_filters with gitwildmatch semantics")
    sites = match_sites(dm)
    roles = {"input": None, "dir": None, "file": None}
    for c in sites:
        loops = enclosing_loops(c, dm.parents, dm.fn)
        inner = [l for l in loops if l is not dm.walk]
        in_walk = dm.walk in loops
        if not in_walk and not inner:
            roles["input"] = c
        elif in_walk and inner:
            it = norm(inner[0].iter)
            if dm.dirs_var in it and roles["dir"] is None and "scandir" not in it:
                roles["dir"] = (c, inner[0])
            elif dm.files_var in it and roles["file"] is None:
                roles["file"] = (c, inner[0])
    # input path: match guards an early return; the matched string is the absolute path, with a trailing separator when it
    # is a directory (the same form the walk uses for what lies below it)
    c = roles["input"]
    ok = False
    form_msg = ""
    if c is not None:
        st = dm.parents.get(c)
        while st is not None and not isinstance(st, ast.If):
            st = dm.parents.get(st)
        if isinstance(st, ast.If) and st in dm.fn.body and terminates(st.body) and not st.orelse \
                and any(isinstance(x, ast.Return) for x in st.body):
            facts = _path_facts_at(dm.fn, st, c.args[0], dm.fn.args.args[0].arg)
            ok = "abs" in facts and "dirslash" in facts
            if "input" not in facts:
                form_msg = "the string matched is not derived from the input path"
            elif "resolved" in facts:
                form_msg = ("the input path is matched after resolving symbolic links: a pattern that names the path as the caller "
                            "gave it (a link, or a component of the unresolved path) no longer matches")
            elif "abs" not in facts:
                form_msg = ("the input path is matched as typed, not as absolute path: whether it is excluded depends on how "
                            "the caller spelled it (patterns naming a parent directory, or an absolute path, never match)")
            elif "dirslash" not in facts:
                form_msg = "an input directory is matched without trailing separator: directory-only patterns ('build/') do not reject it"
    rep.check(ok, rule, where, "if spec.match_file(<absolute input path, '/'-terminated for a directory>): return",
              form_msg or "an excluded input path is not rejected up front", witness="cd vendor && cminx -e vendor/ lib.cmake")
    # directory match: path = join(root, join(subdir, '')) ; matched entry removed from the dirs list
    d = roles["dir"]
    ok = False
    msg = "subdirectories are not matched against the exclusion spec"
    if d is not None:
        c, loop = d
        resolved = resolve_locals(c.args[0], loop)
        arg = norm(resolved)
        var = norm(loop.target)

        def join_parts(e):
            if isinstance(e, ast.Call) and call_name(e) == "os.path.join":
                out = []
                for a_ in e.args:
                    out.extend(join_parts(a_))
                return out
            return [norm(e)]
        parts = join_parts(resolved)
        trailing = ("join(" + var + ", '')" in arg) or (var + " + os.sep" in arg) or (var + " + '/'" in arg) or \
                   ("join(" + dm.root_var + ", " + var + ", '')" in arg) or \
                   (len(parts) >= 3 and parts[-1] == "''" and parts[-2] == var)
        has_root = dm.root_var in arg
        removes = _guarded_removals(loop, c, dm.dirs_var, var, dm)
        ok = trailing and has_root and removes
        if not trailing:
            msg = "directory paths are matched without a trailing separator: patterns such as 'build/' never match"
        elif not has_root:
            msg = "directory match path does not include the walk root"
        elif not removes:
            msg = "a matching subdirectory is not removed from the list os.walk descends"
        if ok and any(isinstance(b, ast.BinOp) and isinstance(b.op, ast.Add) and norm(b.left) == dm.root_var for b in ast.walk(resolved)):
            # root + os.sep + ...: the first root os.walk yields is the input path as document() prepared it - with a trailing
            # separator - so plain concatenation produces '<root>//<sub>/', which absolute-path patterns do not match
            ok, msg = False, ("the walk root is concatenated with a separator instead of being joined with os.path.join: the first root "
                              "already ends in a separator, the tested path contains '//' and absolute directory patterns do not match "
                              "direct children of the input directory")
    rep.check(ok, rule, where, "spec.match_file(join(root, join(subdir, ''))) -> subdirs.remove(subdir)", msg,
              witness="-e build/  /  -e /abs/proj/gen/ with auto-exclusion off")
    f = roles["file"]
    ok = False
    msg = "files are not matched against the exclusion spec"
    if f is not None:
        c, loop = f
        arg = norm(resolve_locals(c.args[0], loop))
        var = norm(loop.target)
        removes = _guarded_removals(loop, c, dm.files_var, var, dm)
        ok = dm.root_var in arg and var in arg and removes
        if not removes:
            msg = "a matching file is not removed from the list that is documented"
    rep.check(ok, rule, where, "spec.match_file(join(root, file)) -> filenames.remove(file)", msg,
              witness="-e skip.cmake")
    # each entry of the listing is tested: the match is not conjoined with another condition and not nested under a switch
    for role, pair in (("dir", roles["dir"]), ("file", roles["file"])):
        if pair is None:
            continue
        c, loop = pair
        iff = dm.parents.get(c)
        while iff is not None and not isinstance(iff, ast.If):
            iff = dm.parents.get(iff)
        extra = []
        if isinstance(iff, ast.If):
            t = iff.test
            parts = t.values if isinstance(t, ast.BoolOp) and isinstance(t.op, ast.And) else [t]
            for x in parts:
                if any(y is c for y in ast.walk(x)):
                    continue
                pr = classify_predicate(x)
                if role == "file" and pr is not None and pr[:3] == ("suffix", ".cmake", True) and pr[3] == norm(loop.target):
                    continue        # only files that can be processed at all are tested: the same set
                extra.append(norm(x))
        # ... nor may the test itself sit behind another test of the loop body (the elif / else of an earlier branch, a guard
        # clause): entries that take the earlier branch are never matched
        if isinstance(iff, ast.If):
            for g in guards_of(dm.fn, iff, dm.parents):
                if not any(g.test is x for x in ast.walk(loop)):
                    continue
                pr = classify_predicate(g.test)
                if role == "file" and pr is not None and pr[:3] == ("suffix", ".cmake", True) and g.polarity:
                    continue
                extra.append(("not " if not g.polarity else "") + norm(g.test))
        rep.check(not extra, rule, where, f"{role} match is the only condition of the removal",
                  f"entries are only tested against the exclude patterns when `{extra[0][:60] if extra else ''}` holds: the others bypass "
                  f"every pattern although they are processed", witness="Legacy.CMAKE with -e 'Legacy*'")
        outer = [g for g in guards_of(dm.fn, loop, dm.parents) if any(g.test is x for x in ast.walk(dm.walk))]
        rep.check(not outer, rule, where, f"{role} exclusion loop runs for every directory",
                  f"the exclusion of matching {'subdirectories' if role == 'dir' else 'files'} only happens under "
                  f"`{norm(outer[0].test)[:60] if outer else ''}`", witness="auto_exclude_directories_without_cmake: false with -e build/")
    # the removals precede every consumer of the lists in the loop body
    for role, pair in (("dir", roles["dir"]), ("file", roles["file"])):
        if pair is None:
            continue
        idx = dm.walk_body_index(pair[1])
        var = dm.dirs_var if role == "dir" else dm.files_var
        first_use = None
        for i, st in enumerate(dm.walk.body):
            if i == idx:
                continue
            for n in [st] + list(walk_no_nested(st)):
                if isinstance(n, ast.Name) and n.id == var and isinstance(n.ctx, ast.Load):
                    # uses that only log are irrelevant
                    p = dm.parents.get(n)
                    logging_only = False
                    q = p
                    while q is not None and q is not st:
                        if isinstance(q, ast.Call) and "logger" in call_name(q):
                            logging_only = True
                        q = dm.parents.get(q)
                    if isinstance(st, ast.Expr) and isinstance(st.value, ast.Call) and "logger" in call_name(st.value):
                        logging_only = True
                    if not logging_only and (first_use is None or i < first_use):
                        first_use = i
        rep.check(first_use is None or idx < first_use, rule, where, f"exclusion filter of {var} precedes its consumers",
                  f"`{var}` is consumed before the exclusion filter ran")
    # main: union of exclude filters
    mfn = dm.main
    ok = False
    form = ""
    for n in walk_no_nested(mfn):
        is_attr_store = isinstance(n, ast.Assign) and isinstance(n.targets[0], ast.Attribute) and n.targets[0].attr == "exclude_filters"
        # the validated dictionary may receive the list before the Settings object is built from it
        is_dict_store = isinstance(n, ast.Assign) and isinstance(n.targets[0], ast.Subscript) and \
            norm(n.targets[0]).endswith(("['input']['exclude_filters']", '["input"]["exclude_filters"]'))
        if is_attr_store or is_dict_store:
            v = resolve_locals(n.value, mfn)
            txt = norm(v)
            form = txt
            if "all_contents()" in txt and "exclude_filters" in txt:
                # the stored value is read once per input path: it has to be a list (or tuple), built from the patterns as given
                outer = call_name(v) if isinstance(v, ast.Call) else ""
                reiterable = outer in ("list", "tuple", "sorted") or isinstance(v, (ast.List, ast.Tuple, ast.ListComp))
                inner_lazy = isinstance(v, ast.Call) and outer in ("list", "tuple") and False
                transformed = any(isinstance(x, ast.Call) and call_name(x) in ("map", "os.path.expanduser", "os.path.normpath", "os.path.abspath",
                                                                                 "os.path.expandvars", "str.strip", "set", "frozenset")
                                  for x in ast.walk(v)) or any(isinstance(x, (ast.ListComp, ast.GeneratorExp)) and norm(x.elt) != norm(x.generators[0].target)
                                                               for x in ast.walk(v))
                ok = reiterable and not transformed
    rep.check(ok, rule, f"{MOD}:main", "settings_obj.input.exclude_filters = list(settings['input']['exclude_filters'].all_contents())",
              f"the exclude patterns handed to document() are not the plain list of the patterns from all sources (`{form[:80]}`): a lazy "
              f"iterator is exhausted by the first input path, a set loses the order gitignore negation depends on, a conversion makes "
              f"the meaning of a pattern depend on its source", witness="cminx -e skip.cmake dirA dirB")
    # the command-line patterns enter the list as typed: the same pattern means the same from every source
    n_e = 0
    for c in calls_in(mfn):
        if isinstance(c.func, ast.Attribute) and c.func.attr == "add_argument":
            kw = {k.arg: k.value for k in c.keywords if k.arg}
            dest = kw.get("dest")
            if isinstance(dest, ast.Constant) and dest.value == "input.exclude_filters":
                n_e += 1
                t = kw.get("type")
                okt = t is None or norm(t) == "str"
                oka = isinstance(kw.get("action"), ast.Constant) and kw["action"].value == "append" and "nargs" not in kw \
                    and "choices" not in kw and "const" not in kw
                rep.check(okt, rule, f"{MOD}:main", f"-e option: type={norm(t) if t is not None else None}",
                          "patterns given with -e are converted before use, patterns from configuration files are not: the same "
                          "pattern excludes different files depending on which source supplied it", witness="-e 'test*/'  vs  exclude_filters: ['test*/']")
                rep.check(oka, rule, f"{MOD}:main", "-e option: action='append', one pattern per occurrence",
                          "-e does not collect one verbatim pattern per occurrence")
    rep.check(n_e == 1, rule, f"{MOD}:main", f"{n_e} option(s) feed input.exclude_filters", "the -e option is missing or duplicated")
    rep.floor(rule, 6, "match sites")


def _path_facts(e: ast.expr, env: Dict[str, FrozenSet[str]]) -> FrozenSet[str]:
    if isinstance(e, ast.Name):
        return env.get(e.id, frozenset())
    if isinstance(e, ast.Call):
        nm = call_name(e)
        if nm == "os.path.abspath" and e.args:
            return (_path_facts(e.args[0], env) - {"dirslash"}) | ({"abs"} if "input" in _path_facts(e.args[0], env) else frozenset())
        if nm == "os.path.realpath" and e.args:
            # resolving symlinks changes the components patterns are matched against: not "the input path made absolute"
            return (_path_facts(e.args[0], env) - {"dirslash"}) | ({"resolved"} if "input" in _path_facts(e.args[0], env) else frozenset())
        if nm == "os.path.join" and len(e.args) >= 2:
            first = _path_facts(e.args[0], env)
            if all(isinstance(a, ast.Constant) and a.value == "" for a in e.args[1:]):
                return first | {"dirslash"}
            return frozenset()
        if nm in ("os.path.normpath", "os.path.normcase", "str", "os.fspath") and e.args:
            f = _path_facts(e.args[0], env)
            return f - {"dirslash"} if nm == "os.path.normpath" else f
        return frozenset()
    if isinstance(e, ast.BinOp) and isinstance(e.op, ast.Add):
        r = norm(e.right)
        if r in ("os.sep", "'/'", "os.path.sep"):
            return _path_facts(e.left, env) | {"dirslash"}
    return frozenset()


def _path_facts_at(fn, stop_stmt, expr: ast.expr, input_param: str) -> FrozenSet[str]:
    """Facts about a path expression at `stop_stmt` (a top-level statement of fn): 'input' derived from the input parameter,
    'abs' made absolute, 'dirslash' '/'-terminated when it is a directory."""
    env: Dict[str, FrozenSet[str]] = {input_param: frozenset({"input"})}

    def run(stmts, env):
        for st in stmts:
            if st is stop_stmt:
                return env, True
            if isinstance(st, ast.Assign) and len(st.targets) == 1 and isinstance(st.targets[0], ast.Name):
                env = dict(env)
                env[st.targets[0].id] = _path_facts(st.value, env)
            elif isinstance(st, ast.AnnAssign) and isinstance(st.target, ast.Name) and st.value is not None:
                env = dict(env)
                env[st.target.id] = _path_facts(st.value, env)
            elif isinstance(st, ast.If):
                e1, hit = run(st.body, env)
                if hit:
                    return e1, True
                e2, hit = run(st.orelse, env)
                if hit:
                    return e2, True
                isdir_of = None
                if isinstance(st.test, ast.Call) and call_name(st.test) == "os.path.isdir" and st.test.args and isinstance(st.test.args[0], ast.Name):
                    isdir_of = st.test.args[0].id
                merged = {}
                for k in set(e1) | set(e2):
                    a, b = e1.get(k, frozenset()), e2.get(k, frozenset())
                    m = a & b
                    if isdir_of is not None and "input" in env.get(isdir_of, frozenset()) and "dirslash" in a:
                        m = m | {"dirslash"}       # '/'-terminated on the branch where the input is a directory
                    merged[k] = m
                if not terminates(st.body):
                    env = merged if not (st.orelse and terminates(st.orelse)) else e1
                elif not (st.orelse and terminates(st.orelse)):
                    env = e2
        return env, False
    env, _hit = run(fn.body, env)
    return _path_facts(expr, env)


def _guarded_removals(loop: ast.For, match_call: ast.Call, list_var: str, elem_var: str, dm: DocumentModel) -> bool:
    """Inside `loop`, under the truth of the match, `list_var.remove(elem_var)` (or an equivalent) happens."""
    for n in walk_no_nested(loop):
        if isinstance(n, ast.If) and any(x is match_call for x in ast.walk(n.test)):
            # polarity: plain truth of the call
            pos = not (isinstance(n.test, ast.UnaryOp) and isinstance(n.test.op, ast.Not))
            body = n.body if pos else n.orelse
            for st in body:
                for c in [st] + list(walk_no_nested(st)):
                    if isinstance(c, ast.Call) and isinstance(c.func, ast.Attribute) and c.func.attr == "remove" \
                            and norm(c.func.value) == list_var and c.args and norm(c.args[0]) == elem_var:
                        return True
    return False


def rule_early_return_dominates(rep: Report, repo: Repo, rule: str) -> None:
    rep.rule(rule, "the early return for an excluded input path precedes every write site and every page production in document()")
    dm = DocumentModel(repo)
    idx = None
    for i, st in enumerate(dm.fn.body):
        if isinstance(st, ast.If) and any(isinstance(c, ast.Call) and isinstance(c.func, ast.Attribute)
                                          and c.func.attr == "match_file" for c in ast.walk(st.test)) \
                and terminates(st.body):
            idx = i
    if idx is None:
        rep.bad(rule, f"{MOD}:document", "if spec.match_file(input_path): return", "no early return for an excluded input path")
        return
    n = 0
    for i, st in enumerate(dm.fn.body):
        for c in calls_in(st):
            nm = call_name(c)
            if nm in ("os.makedirs", "os.mkdir") or nm.endswith("write_to_file") or nm.endswith("document_single_file") \
                    or nm == "print" or nm in ("exit", "sys.exit"):
                n += 1
                rep.check(i > idx, rule, f"{MOD}:document", norm(c)[:60],
                          "this effect can happen before the input path was checked against the exclusion patterns")
    rep.floor(rule, 4, "effects after the early return")


# ----------------------------------------------------------------------
# predicates

def classify_predicate(e: ast.expr) -> Optional[Tuple[str, str, bool, str]]:
    """Recognise 'is a CMake file' predicates. Returns (kind, literal,
    case_insensitive, subject text)."""
    # X.lower().endswith(".cmake") / X.endswith(".cmake")
    if isinstance(e, ast.Call) and isinstance(e.func, ast.Attribute) and e.func.attr == "endswith" and e.args \
            and isinstance(e.args[0], ast.Constant) and isinstance(e.args[0].value, str):
        subj = e.func.value
        ci = False
        if isinstance(subj, ast.Call) and isinstance(subj.func, ast.Attribute) and subj.func.attr in ("lower", "casefold"):
            ci = True
            subj = subj.func.value
        return ("suffix", e.args[0].value, ci, norm(subj))
    if isinstance(e, ast.Compare) and len(e.ops) == 1 and isinstance(e.ops[0], ast.Eq):
        a, b = e.left, e.comparators[0]
        if isinstance(b, ast.Constant) and not isinstance(a, ast.Constant):
            a, b = b, a
        if isinstance(a, ast.Constant) and isinstance(a.value, str):
            lit = a.value
            subj = b
            ci = False
            if isinstance(subj, ast.Call) and isinstance(subj.func, ast.Attribute) and subj.func.attr in ("lower", "casefold"):
                ci = True
                subj = subj.func.value
            # X.split(".")[-1]
            if isinstance(subj, ast.Subscript) and isinstance(subj.value, ast.Call) and \
                    isinstance(subj.value.func, ast.Attribute) and subj.value.func.attr in ("split", "rsplit"):
                inner = subj.value.func.value
                if isinstance(inner, ast.Call) and isinstance(inner.func, ast.Attribute) and inner.func.attr in ("lower", "casefold"):
                    ci = True
                    inner = inner.func.value
                idx = norm(subj.slice)
                if idx == "-1":
                    return ("lastseg", lit, ci, norm(inner))
            # os.path.splitext(X)[1]
            if isinstance(subj, ast.Subscript) and isinstance(subj.value, ast.Call) and \
                    call_name(subj.value) == "os.path.splitext" and norm(subj.slice) == "1":
                inner = subj.value.args[0]
                if isinstance(inner, ast.Call) and isinstance(inner.func, ast.Attribute) and inner.func.attr in ("lower", "casefold"):
                    ci = True
                    inner = inner.func.value
                return ("splitext", lit, ci, norm(inner))
    return None


def loop_source(loop: ast.For, dm: DocumentModel, emission_calls=()):
    """(base variable text, [classified predicates], [unclassified filter texts]) of a loop in the walk body: resolves
    sorted()/list() wrappers, inline comprehensions, and locals defined once in the walk body by a comprehension; adds the
    predicates of `if` statements in the loop body that guard the emission call."""
    preds, unknown = [], []

    def resolve(e, depth=0):
        if depth > 5:
            return norm(e)
        while isinstance(e, ast.Call) and call_name(e) in ("sorted", "list", "tuple", "reversed", "copy.copy") and e.args:
            e = e.args[0]
        if isinstance(e, (ast.ListComp, ast.GeneratorExp)):
            g = e.generators[0]
            var = norm(g.target)
            for c in g.ifs:
                p = classify_predicate(c)
                if p is not None:
                    preds.append(p)
                else:
                    unknown.append(norm(c))
            if norm(e.elt) != var:
                unknown.append("maps " + norm(e.elt))
            return resolve(g.iter, depth + 1)
        if isinstance(e, ast.Call) and call_name(e) == "filter" and len(e.args) == 2:
            unknown.append("filter(" + norm(e.args[0]) + ")")
            return resolve(e.args[1], depth + 1)
        if isinstance(e, ast.Name) and e.id not in (dm.files_var, dm.dirs_var):
            defs = [n for n in walk_no_nested(dm.walk) if isinstance(n, ast.Assign) and len(n.targets) == 1
                    and isinstance(n.targets[0], ast.Name) and n.targets[0].id == e.id]
            if len(defs) == 1:
                return resolve(defs[0].value, depth + 1)
            if len(defs) > 1:
                # reaching definition: the last unconditional assignment at the top level of the walk body before the loop
                # kills the earlier ones, provided no other assignment stands between it and the loop
                li = dm.walk_body_index(loop)
                idx = {id(d): dm.walk_body_index(d) for d in defs}
                top = [d for d in defs if any(d is st for st in dm.walk.body) and li is not None and idx[id(d)] < li]
                if top:
                    last = max(top, key=lambda d: idx[id(d)])
                    if not any(idx[id(d)] is not None and idx[id(last)] < idx[id(d)] <= li for d in defs if d is not last):
                        return resolve(last.value, depth + 1)
        return norm(e)

    base = resolve(loop.iter)
    # guards inside the loop body around the emission
    for n in walk_no_nested(loop):
        if isinstance(n, ast.If):
            body_calls = [call_name(c).split(".")[-1] for st in n.body for c in calls_in(st)]
            if any(c in emission_calls for c in body_calls):
                tests = n.test.values if isinstance(n.test, ast.BoolOp) and isinstance(n.test.op, ast.And) else [n.test]
                for t in tests:
                    p = classify_predicate(t)
                    if p is not None:
                        preds.append(p)
                    else:
                        unknown.append(norm(t))
    return base, preds, unknown


def emission_loops(dm: DocumentModel):
    """(toctree file loops, toctree dir loops, page loop) of the walk body."""
    toc_file, toc_dir, page = [], [], None
    for n in walk_no_nested(dm.walk):
        if isinstance(n, ast.For) and n is not dm.walk:
            body_calls = [call_name(c) for st in n.body for c in calls_in(st)]
            if any(c.endswith("document_single_file") for c in body_calls):
                page = n
            elif any(c.endswith(".text") for c in body_calls):
                base, _p, _u = loop_source(n, dm, ("text",))
                if base == dm.dirs_var:
                    toc_dir.append(n)
                else:
                    toc_file.append(n)
    return toc_file, toc_dir, page


def find_predicates(dm: DocumentModel):
    """All CMake-file predicates of document() with their role."""
    out = []
    for n in walk_no_nested(dm.fn):
        if isinstance(n, (ast.Call, ast.Compare)):
            p = classify_predicate(n)
            if p is None or "cmake" not in p[1].lower():
                continue
            role = "other"
            # role by consumer
            par = dm.parents.get(n)
            anc = []
            q = n
            while q is not None and q is not dm.fn:
                anc.append(q)
                q = dm.parents.get(q)
            for a in anc:
                if isinstance(a, ast.If) and any(x is n for x in ast.walk(a.test)):
                    body_calls = [call_name(c).split(".")[-1] for st in a.body for c in calls_in(st)]
                    if "document_single_file" in body_calls:
                        role = "page"
                    elif any(isinstance(s, ast.Break) for s in a.body):
                        # for/else existence check: over scandir -> parent pre-check; over files var -> own check
                        loop = next((x for x in anc if isinstance(x, ast.For)), None)
                        if loop is not None and "scandir" in norm(loop.iter):
                            role = "precheck"
                        elif loop is not None and dm.files_var in norm(loop.iter):
                            role = "owncheck"
                    elif any(c == "text" for c in body_calls):
                        role = "toctree"
                if isinstance(a, (ast.ListComp, ast.GeneratorExp)):
                    # comprehension feeding (possibly through sorted()/list()) a loop that emits toctree entries
                    up = dm.parents.get(a)
                    while isinstance(up, ast.Call) and call_name(up) in ("sorted", "list", "tuple", "reversed"):
                        up = dm.parents.get(up)
                    if isinstance(up, ast.For) and any(call_name(c).endswith(".text") for st in up.body for c in calls_in(st)):
                        role = "toctree"
            out.append((role, p, n))
    return out


def rule_predicates_agree(rep: Report, repo: Repo, rule: str) -> None:
    rep.rule(rule, "the toctree file filter and the page-production filter are the same case-insensitive '.cmake' suffix "
                   "predicate; the two 'directory has a CMake file' checks use equal predicates")
    dm = DocumentModel(repo)
    where = f"{MOD}:document"
    toc_file, toc_dir, page = emission_loops(dm)
    if not toc_file or page is None:
        raise AnalysisError("anchor vanished: toctree file loop / page loop of document() not found")
    _b1, p_toc, u_toc = loop_source(toc_file[0], dm, ("text",))
    _b2, p_page, u_page = loop_source(page, dm, ("document_single_file",))

    def canon(ps):
        return sorted({(p[0], p[1].lower() if p[2] else p[1], p[2]) for p in ps})
    same = canon(p_toc) == canon(p_page) and sorted(u_toc) == sorted(u_page)
    rep.check(same, rule, where, f"toctree:{canon(p_toc)}{u_toc or ''} vs page:{canon(p_page)}{u_page or ''}"[:150],
              "the toctree lists files by one filter and pages are produced by another: for some file a page is written that no "
              "index lists, or an entry has no page", witness="a file literally named 'cmake' / FOO.CMAKE in the input directory",
              key=f"{rule}|toctree-vs-page")
    for r, ps in (("toctree", p_toc), ("page", p_page)):
        ok = len(canon(ps)) == 1 and canon(ps)[0] == ("suffix", ".cmake", True)
        rep.check(ok, rule, where, f"{r} predicate {canon(ps)}",
                  f"the {r} filter is not exactly a case-insensitive '.cmake' suffix test",
                  witness="FOO.CMAKE / a file named 'cmake'", key=f"{rule}|{r}-form")
    preds = find_predicates(dm)
    by_role: Dict[str, List] = {}
    for role, p, n in preds:
        by_role.setdefault(role, []).append((p, n))
    if "precheck" in by_role and "owncheck" in by_role:
        a, b = by_role["precheck"][0][0], by_role["owncheck"][0][0]
        rep.check(a[:3] == b[:3], rule, where, f"precheck:{a[:3]} vs owncheck:{b[:3]}",
                  "the parent's 'subdirectory has a CMake file' test and the directory's own test use different predicates: "
                  "a directory can be listed in the parent's toctree and then skip its own index")
    rep.floor(rule, 3, "CMake-file predicates")


def rule_same_source(rep: Report, repo: Repo, rule: str) -> None:
    """C14-R1: toctree entries and page production iterate the same filtered, sorted list."""
    rep.rule(rule, "toctree file entries and page production iterate the same exclusion-filtered file list; subdirectory "
                   "entries iterate the pruned directory list, only under `recursive`; nothing is re-read from disk")
    dm = DocumentModel(repo)
    where = f"{MOD}:document"
    w = dm.walk
    # locate: sort statements, toctree loops, page loop
    sort_idx: Dict[str, int] = {}
    for i, st in enumerate(w.body):
        if isinstance(st, ast.Assign) and isinstance(st.value, ast.Call) and call_name(st.value) == "sorted" \
                and isinstance(st.targets[0], ast.Name) and st.value.args and norm(st.value.args[0]) == st.targets[0].id \
                and not any(k.arg == "key" for k in st.value.keywords):
            sort_idx[st.targets[0].id] = i
        if isinstance(st, ast.Expr) and isinstance(st.value, ast.Call) and isinstance(st.value.func, ast.Attribute) \
                and st.value.func.attr == "sort":
            sort_idx[norm(st.value.func.value)] = i
    file_toc, dir_toc, page_loop = emission_loops(dm)
    toc_loops = file_toc + dir_toc
    if page_loop is None or not toc_loops:
        raise AnalysisError("anchor vanished: toctree loops / page loop of document() not found")

    def iter_base(loop) -> str:
        return loop_source(loop, dm)[0]

    file_toc = [l for l in file_toc if iter_base(l) == dm.files_var]
    rep.check(bool(file_toc), rule, where, "toctree file entries iterate the walk's file list",
              f"toctree file entries do not come from `{dm.files_var}`")
    rep.check(iter_base(page_loop) == dm.files_var, rule, where, "page production iterates the walk's file list",
              f"pages are produced from `{iter_base(page_loop)}`, not from `{dm.files_var}`")
    rep.check(bool(dir_toc), rule, where, "toctree directory entries iterate the walk's directory list",
              f"toctree directory entries do not come from `{dm.dirs_var}`")
    # (whether the lists are sorted before use is a determinism question: judged by C17-R2 / C18-R6, not here)
    # no re-listing: the lists are not re-read from disk between filter and use
    for l in toc_loops + [page_loop]:
        txt = norm(l.iter) + " <- " + iter_base(l)
        rep.check("listdir" not in txt and "scandir" not in txt and "glob" not in txt, rule, where,
                  f"iterable {txt[:50]}", "entries are re-read from disk, bypassing the exclusion filters")
    # subdirectory entries only under `recursive`
    for l in dir_toc:
        gs = guards_of(dm.fn, l, dm.parents)
        sp = dm.fn.args.args[1].arg if len(dm.fn.args.args) > 1 else "settings"
        rnames = {f"{sp}.input.recursive"} | {norm(n.targets[0]) for n in walk_no_nested(dm.fn) if isinstance(n, ast.Assign)
                                               and len(n.targets) == 1 and isinstance(n.targets[0], ast.Name)
                                               and norm(n.value) == f"{sp}.input.recursive"}
        ok = any(norm(g.test) in rnames and g.polarity for g in gs)
        rep.check(ok, rule, where, "subdirectory toctree entries guarded by `recursive`",
                  "subdirectory index entries are emitted in non-recursive mode, where no sub index is written",
                  witness="cminx -o out dir-with-subdirs   (without -r)")
    rep.floor(rule, 5, "toctree/page source facts")


def rule_prechecks_filtered(rep: Report, repo: Repo, rule: str) -> None:
    """C14-R2 (F5): both 'has a .cmake file' checks see the exclusion-filtered view."""
    rep.rule(rule, "the parent's pre-check of a subdirectory honours the exclusion spec, like the directory's own check "
                   "(which runs on the exclusion-filtered file list), so a directory kept in the parent's toctree writes its index")
    dm = DocumentModel(repo)
    where = f"{MOD}:document"
    preds = find_predicates(dm)
    pre = [(p, n) for role, p, n in preds if role == "precheck"]
    own = [(p, n) for role, p, n in preds if role == "owncheck"]
    if not pre and not own:
        rep.note(rule, where, "auto-exclusion checks", "no auto-exclusion pre-checks found")
        rep.ok(rule, where, "no pre-check present: nothing can disagree")
        return
    if not pre or not own:
        rep.bad(rule, where, "auto-exclusion checks",
                "only one of the two 'directory has a CMake file' checks exists: parent listing and the directory's own "
                "decision can disagree")
        return
    # own check must run after the exclusion filter of files
    for p, n in own:
        loop = _enclosing_for(n, dm)
        i_own = dm.walk_body_index(loop)
        # index of the file exclusion loop
        i_filter = None
        for c in match_sites(dm):
            l = [x for x in enclosing_loops(c, dm.parents, dm.fn) if x is not dm.walk]
            if l and dm.files_var in norm(l[0].iter):
                i_filter = dm.walk_body_index(l[0])
        rep.check(i_filter is not None and i_filter < i_own, rule, where, "own check runs on the exclusion-filtered file list",
                  "the directory's own CMake-file check runs before the exclusion filter")
    for p, n in pre:
        # the condition that breaks must also require `not spec.match_file(<entry path>)`
        iff = n
        while iff is not None and not isinstance(iff, ast.If):
            iff = dm.parents.get(iff)
        txt = norm(iff.test) if iff is not None else ""
        filtered = f"not {dm.spec_var}.match_file(" in txt
        if not filtered:
            # alternative: the scandir iterable itself is filtered
            loop = _enclosing_for(n, dm)
            filtered = loop is not None and f"{dm.spec_var}.match_file" in norm(loop.iter)
        rep.check(filtered, rule, where, f"pre-check condition: {txt[:90]}",
                  "the parent decides that a subdirectory has CMake files by scanning the raw directory, while the "
                  "subdirectory decides on its exclusion-filtered list and then skips its index: the parent's toctree "
                  "lists sub/index.rst which is never written",
                  witness="-r -e b.cmake with sub/b.cmake the only file of sub", key=f"{rule}|precheck-unfiltered")
    rep.floor(rule, 2, "auto-exclusion checks")


def _enclosing_for(n, dm: DocumentModel):
    q = n
    while q is not None and q is not dm.fn:
        if isinstance(q, ast.For):
            return q
        q = dm.parents.get(q)
    return None


def rule_topdir_test(rep: Report, repo: Repo, rule: str) -> None:
    """C12-R6 / C14-R3 (F10)."""
    rep.rule(rule, "'is this the top directory' compares the relpath of the walk root with '.' / os.curdir, not with a setting")
    dm = DocumentModel(repo)
    where = f"{MOD}:document"
    # names holding relpath(root, input_path)
    rel_names: Set[str] = set()
    for n in walk_no_nested(dm.walk):
        if isinstance(n, ast.Assign) and isinstance(n.value, ast.Call) and call_name(n.value) == "os.path.relpath" \
                and n.value.args and norm(n.value.args[0]) == dm.root_var and isinstance(n.targets[0], ast.Name):
            rel_names.add(n.targets[0].id)
    # writer objects whose title is such a value
    title_holders: Set[str] = set()
    for n in walk_no_nested(dm.walk):
        if isinstance(n, ast.Assign) and isinstance(n.value, ast.Call) and call_name(n.value).split(".")[-1] == "RSTWriter" \
                and n.value.args and (norm(n.value.args[0]) in rel_names or
                                      (isinstance(n.value.args[0], ast.Call) and call_name(n.value.args[0]) == "os.path.relpath")):
            title_holders.add(norm(n.targets[0]) + ".title")
    count = 0
    for n in walk_no_nested(dm.walk):
        if isinstance(n, ast.Compare) and len(n.ops) == 1 and isinstance(n.ops[0], (ast.Eq, ast.NotEq)):
            l, r = norm(n.left), norm(n.comparators[0])
            for subj, other, other_node in ((l, r, n.comparators[0]), (r, l, n.left)):
                if subj in rel_names or subj in title_holders:
                    count += 1
                    ok = (isinstance(other_node, ast.Constant) and other_node.value == ".") or \
                        other in ("os.curdir", "os.path.curdir")
                    rep.check(ok, rule, where, norm(n),
                              f"the top-directory test compares the relative directory with `{other}`; with a "
                              f"module_path_separator other than '.' the top index is titled '<prefix><sep>.'",
                              witness="module_path_separator: '::'  =>  top index titled 'tree::.'",
                              key=f"{rule}|topdir-compare")
    if count == 0:
        raise AnalysisError("anchor vanished: no top-directory comparison found in the index block of document()")
    # below the top directory the title is <prefix><configured separator><relative directory>: a string built from the relative
    # directory and something else names the separator setting, not a literal
    for n in walk_no_nested(dm.walk):
        if not isinstance(n, (ast.JoinedStr, ast.BinOp)) or isinstance(dm.parents.get(n), (ast.BinOp, ast.JoinedStr, ast.FormattedValue)):
            continue
        if isinstance(n, ast.BinOp) and not isinstance(n.op, ast.Add):
            continue
        names = {norm(x) for x in ast.walk(n) if isinstance(x, (ast.Name, ast.Attribute))}
        if not (names & (rel_names | title_holders)):
            continue
        others = {x for x in names if x not in rel_names and x not in title_holders and not any(x == h.split(".")[0] for h in title_holders)
                  and not x.startswith("os")}
        if not others:
            continue
        rep.check(any(x.endswith("module_path_separator") for x in names), rule, where, norm(n)[:70],
                  "an index title is put together from the prefix and the relative directory with a literal separator instead of "
                  "rst.module_path_separator: the index titles no longer match the page titles of the same directory",
                  witness="module_path_separator: '::'  =>  index 'proj.net' next to pages 'proj::net/sockets'")
    rep.floor(rule, 1, "top-directory comparisons")


def rule_recursion_switch(rep: Report, repo: Repo, rule: str, empty_top_clause: bool = False) -> None:
    rep.rule(rule, "the walk stops after the first directory unless `recursive`; the break is the last statement of the loop body")
    dm = DocumentModel(repo)
    where = f"{MOD}:document"
    last = dm.walk.body[-1]
    settings_param = dm.fn.args.args[1].arg if len(dm.fn.args.args) > 1 else "settings"
    flag = f"{settings_param}.input.recursive"
    flags = {flag} | {norm(n.targets[0]) for n in walk_no_nested(dm.fn) if isinstance(n, ast.Assign) and len(n.targets) == 1
                      and isinstance(n.targets[0], ast.Name) and norm(n.value) == flag}
    ok = isinstance(last, ast.If) and not last.orelse and len(last.body) == 1 and isinstance(last.body[0], ast.Break) \
        and any(norm(last.test) in (f"not {f}", f"{f} is False", f"{f} == False") for f in flags)
    rep.check(ok, rule, where, norm(last)[:60].replace("\n", " "),
              "the os.walk loop does not end with `if not recursive: break`: non-recursive runs descend into subdirectories "
              "or recursive runs stop early", witness="cminx -o out dir   (no -r) with sub/x.cmake")
    # `continue` statements before the break that skip it are only allowed for auto-excluded dirs
    for n in walk_no_nested(dm.walk):
        if isinstance(n, ast.Continue):
            loops = enclosing_loops(n, dm.parents, dm.fn)
            if loops and loops[0] is dm.walk:
                gs = guards_of(dm.fn, n, dm.parents)
                auto = any("auto_exclude_directories_without_cmake" in norm(g.test) and g.polarity for g in gs)
                rep.check(auto, rule, where, "continue in walk loop",
                          "a `continue` skips the recursion cut-off outside the auto-exclusion block")
                if not empty_top_clause:
                    continue        # (C13/C14 quantify over input directories that hold a .cmake file themselves)
                # ... and even there it must not carry a non-recursive run past the cut-off: either the continue is only
                # reached when recursing, or the cut-off is repeated right in front of it
                from ..model import guard_atoms
                atoms = guard_atoms(gs)
                recursing = any((t in flags and pol) for t, pol in atoms)
                blk = None
                par = dm.parents.get(n)
                for field in ("body", "orelse", "finalbody"):
                    b = getattr(par, field, None)
                    if isinstance(b, list) and any(x is n for x in b):
                        blk = b
                prev = blk[[i for i, x in enumerate(blk) if x is n][0] - 1] if blk and blk[0] is not n else None
                cut = isinstance(prev, ast.If) and not prev.orelse and len(prev.body) == 1 and isinstance(prev.body[0], ast.Break) \
                    and any(norm(prev.test) in (f"not {f}", f"{f} is False", f"{f} == False") for f in flags)
                rep.check(recursing or cut, rule, where, "continue in walk loop respects the recursion switch",
                          "when the directory is skipped for having no CMake file, the `continue` also skips `if not recursive: break`: a "
                          "run without -r goes on into the sub-directories of an input directory that holds no .cmake file itself, "
                          "documents the first one that has some and stops - which one that is depends on the directory listing order",
                          witness="cminx -o out dir   (no -r) with dir/a/a.cmake and dir/b/b.cmake, no .cmake file in dir itself",
                          key=f"{rule}|continue-skips-cutoff")
    rep.floor(rule, 1, "recursion cut-off")


# ----------------------------------------------------------------------
# isolation (C17-R3)

def rule_isolation(rep: Report, repo: Repo, rule: str) -> None:
    rep.rule(rule, "document() never stores into its settings parameter (only into the deep copy); a fresh Documenter per "
                   "file; no store to module globals/class attributes on the processing path; shared default-argument "
                   "objects are never written through")
    dm = DocumentModel(repo)
    where = f"{MOD}:document"
    sp_doc = dm.fn.args.args[1].arg if len(dm.fn.args.args) > 1 else "settings"          # the settings parameter, by position
    sp_single = dm.single.args.args[2].arg if len(dm.single.args.args) > 2 else "settings"
    # deep copy exists
    copies = [n for n in walk_no_nested(dm.fn) if isinstance(n, ast.Assign) and isinstance(n.value, ast.Call)
              and call_name(n.value) == "copy.deepcopy" and n.value.args and norm(n.value.args[0]) == sp_doc]
    rep.check(bool(copies), rule, where, "new_settings = copy.deepcopy(settings)",
              "settings are not deep-copied per input: per-input changes (prefix) leak into the next input of the same run",
              witness="cminx dirA dirB  -> dirB pages carry dirA's prefix")
    copy_names = {norm(n.targets[0]) for n in copies}
    # stores through `settings` in document / document_single_file
    for fn, q, sp in ((dm.fn, "document", sp_doc), (dm.single, "document_single_file", sp_single)):
        for n in walk_no_nested(fn):
            tgts = []
            if isinstance(n, ast.Assign):
                tgts = n.targets
            elif isinstance(n, (ast.AugAssign, ast.AnnAssign)):
                tgts = [n.target]
            for t in tgts:
                if isinstance(t, (ast.Attribute, ast.Subscript)):
                    base = t
                    while isinstance(base, (ast.Attribute, ast.Subscript)):
                        base = base.value
                    if isinstance(base, ast.Name) and base.id == sp:
                        rep.bad(rule, f"{MOD}:{q}", norm(n)[:70],
                                "stores into the caller's settings object: the change is visible to every later input of the run",
                                witness="cminx dirA dirB")
            if isinstance(n, ast.Call) and isinstance(n.func, ast.Attribute) and n.func.attr in MUTATING:
                base = n.func.value
                while isinstance(base, (ast.Attribute, ast.Subscript)):
                    base = base.value
                if isinstance(base, ast.Name) and base.id == sp:
                    rep.bad(rule, f"{MOD}:{q}", norm(n)[:70], "mutates the caller's settings object")
    # the settings passed down from document() are the copy, and prefix is stored in the copy
    for c in calls_in(dm.fn):
        if call_name(c).endswith("document_single_file"):
            arg = c.args[2] if len(c.args) > 2 else next((k.value for k in c.keywords if k.arg == sp_single), None)
            rep.check(arg is not None and norm(arg) in copy_names, rule, where, norm(c)[:70].replace("\n", " "),
                      "document_single_file receives the caller's settings instead of the per-input copy (the default prefix is lost "
                      "or leaks)")
    # fresh Documenter per file
    docs = [c for c in calls_in(dm.single) if call_name(c).split(".")[-1] == "Documenter"]
    rep.check(len(docs) == 1 and not enclosing_loops(docs[0], dm.parents, dm.single), rule,
              f"{MOD}:document_single_file", "one Documenter(...) per call",
              "Documenter is not constructed once per file")
    # module-level mutable state: stores to globals in functions
    for mod in HAND_WRITTEN:
        mm = repo.module(mod)
        mod_names = {t.id for st in mm.tree.body if isinstance(st, (ast.Assign, ast.AnnAssign))
                     for t in (st.targets if isinstance(st, ast.Assign) else [st.target]) if isinstance(t, ast.Name)}
        for q, fn in repo.functions(mod):
            declared = {n for st in walk_no_nested(fn) if isinstance(st, ast.Global) for n in st.names}
            for n in walk_no_nested(fn):
                if isinstance(n, (ast.Assign, ast.AugAssign)):
                    tgts = n.targets if isinstance(n, ast.Assign) else [n.target]
                    for t in tgts:
                        if isinstance(t, ast.Name) and t.id in declared:
                            ok = t.id == "logger"
                            rep.check(ok, rule, f"{mod}:{q}", norm(n)[:60],
                                      "assigns a module global on the processing path: state survives from one file to the next")
                        # ClassName.attr = ...
                        if isinstance(t, ast.Attribute) and isinstance(t.value, ast.Name) and repo.has_class(t.value.id):
                            rep.bad(rule, f"{mod}:{q}", norm(n)[:60], "assigns a class attribute: shared by all instances/files")
                if isinstance(n, ast.Call) and isinstance(n.func, ast.Attribute) and n.func.attr in MUTATING:
                    base = n.func.value
                    if isinstance(base, ast.Name) and base.id in mod_names and base.id not in _locals(fn):
                        rep.bad(rule, f"{mod}:{q}", norm(n)[:60], "mutates a module-level object on the processing path")
                    if isinstance(base, ast.Attribute) and isinstance(base.value, ast.Name) and repo.has_class(base.value.id):
                        rep.bad(rule, f"{mod}:{q}", norm(n)[:60], "mutates a class-level object: shared by all instances/files")
    # default-argument objects
    n_defaults = 0
    for mod in HAND_WRITTEN:
        for q, fn in repo.functions(mod):
            for p, d in param_defaults(fn).items():
                if isinstance(d, (ast.Call, ast.List, ast.Dict, ast.Set, ast.ListComp, ast.DictComp)):
                    if isinstance(d, ast.Call) and call_name(d) in ("tuple", "frozenset", "str", "int"):
                        continue
                    n_defaults += 1
                    writes = _writes_through_param(repo, mod, q, fn, p)
                    kind = "display" if not isinstance(d, ast.Call) else call_name(d)
                    rep.check(not writes, rule, f"{mod}:{q}", f"default {p}={norm(d)[:30]}",
                              f"the shared default object of parameter `{p}` is written through ({'; '.join(writes)[:120]}): state leaks "
                              f"between files processed in one run", witness="process two files in one run")
    # class-level mutable attributes that instances mutate in place
    for cname, ci in repo.classes.items():
        if ci.module not in HAND_WRITTEN or ci.is_dataclass:
            continue
        for an, av in ci.class_attrs.items():
            if isinstance(av, (ast.List, ast.Dict, ast.Set)):
                for mn, mf in ci.methods.items():
                    for n in walk_no_nested(mf):
                        if isinstance(n, ast.Call) and isinstance(n.func, ast.Attribute) and n.func.attr in MUTATING \
                                and norm(n.func.value) in (f"self.{an}", f"{cname}.{an}"):
                            rep.bad(rule, f"{ci.module}:{cname}.{mn}", norm(n)[:60],
                                    f"mutates the class-level list `{an}` in place: shared by every writer of the run")
                        # self.X[i] = v / self.X[a:b] = vs / del self.X[i] / self.X += vs   on the class-level object
                        tg = []
                        if isinstance(n, ast.Assign):
                            tg = n.targets
                        elif isinstance(n, (ast.AugAssign, ast.AnnAssign)):
                            tg = [n.target]
                        elif isinstance(n, ast.Delete):
                            tg = n.targets
                        for t_ in tg:
                            through = isinstance(t_, ast.Subscript) and norm(t_.value) in (f"self.{an}", f"{cname}.{an}")
                            inplace = isinstance(n, ast.AugAssign) and norm(t_) in (f"self.{an}", f"{cname}.{an}")
                            if through or inplace:
                                rep.bad(rule, f"{ci.module}:{cname}.{mn}", norm(n)[:60],
                                        f"writes into the class-level list `{an}` (no instance attribute of that name is bound first): "
                                        f"the change is seen by every writer created afterwards", witness="two files with different "
                                        "rst.headers documented in one process")
    import os
    from ..core import VERIF_DIR
    ctrl = ast.parse(open(os.path.join(VERIF_DIR, "controls", "shared_default.py")).read())
    cfn = [n for n in ast.walk(ctrl) if isinstance(n, ast.FunctionDef) and n.name == "__init__"][0]
    if not _writes_through_param_local(cfn, "items", ctrl):
        raise AnalysisError("positive control controls/shared_default.py no longer matches")
    rep.ok(rule, "controls/shared_default.py", "positive control: write through a default-argument object detected")
    rep.check(n_defaults >= 1, rule, "cminx.*", f"{n_defaults} default-argument objects examined", "no default objects found")
    rep.floor(rule, 8, "isolation facts")


def _locals(fn) -> Set[str]:
    out = {a.arg for a in fn.args.args + fn.args.kwonlyargs}
    for n in walk_no_nested(fn):
        if isinstance(n, ast.Name) and isinstance(n.ctx, ast.Store):
            out.add(n.id)
    return out


def _writes_through_param_local(fn, p: str, scope) -> List[str]:
    """Stores / mutating calls whose base object is parameter `p`, or an
    attribute of self that was initialised from `p` (searched in `scope`)."""
    out = []
    aliases = {p}
    self_aliases: Set[str] = set()
    for n in walk_no_nested(fn):
        if isinstance(n, (ast.Assign, ast.AnnAssign)) and n.value is not None and isinstance(n.value, ast.Name) \
                and n.value.id == p:
            tgts = n.targets if isinstance(n, ast.Assign) else [n.target]
            for t in tgts:
                if isinstance(t, ast.Name):
                    aliases.add(t.id)
                elif isinstance(t, ast.Attribute) and isinstance(t.value, ast.Name) and t.value.id == "self":
                    self_aliases.add("self." + t.attr)

    def base_text(e):
        while isinstance(e, (ast.Attribute, ast.Subscript)):
            if isinstance(e, ast.Attribute) and isinstance(e.value, ast.Name) and e.value.id == "self":
                return "self." + e.attr
            e = e.value
        return e.id if isinstance(e, ast.Name) else None

    def scan(f, names):
        for n in walk_no_nested(f):
            tgts = []
            if isinstance(n, ast.Assign):
                tgts = n.targets
            elif isinstance(n, ast.AugAssign):
                tgts = [n.target]
            for t in tgts:
                if isinstance(t, (ast.Attribute, ast.Subscript)):
                    inner = t.value
                    b = base_text(inner) if isinstance(inner, (ast.Attribute, ast.Subscript)) else \
                        (inner.id if isinstance(inner, ast.Name) else None)
                    # store into a field/element OF the aliased object
                    if isinstance(t, ast.Attribute) and isinstance(t.value, ast.Name) and t.value.id == "self":
                        continue   # rebinding self.x itself is not a write through the object
                    if b in names:
                        out.append(norm(n)[:50])
            if isinstance(n, ast.Call) and isinstance(n.func, ast.Attribute) and n.func.attr in MUTATING:
                b = base_text(n.func.value) if isinstance(n.func.value, (ast.Attribute, ast.Subscript)) else \
                    (n.func.value.id if isinstance(n.func.value, ast.Name) else None)
                if b in names:
                    out.append(norm(n)[:50])
            if isinstance(n, ast.Delete):
                for t in n.targets:
                    if isinstance(t, ast.Subscript) and base_text(t) in names:
                        out.append(norm(n)[:50])
    scan(fn, aliases)
    if self_aliases:
        cls = None
        for c in ast.walk(scope):
            if isinstance(c, ast.ClassDef) and fn in c.body:
                cls = c
        if cls is not None:
            for m in cls.body:
                if isinstance(m, ast.FunctionDef):
                    scan(m, self_aliases)
    return out


def _writes_through_param(repo: Repo, mod: str, q: str, fn, p: str) -> List[str]:
    return _writes_through_param_local(fn, p, repo.module(mod).tree)


# ----------------------------------------------------------------------
def classify_stem(e: ast.expr):
    """Recognise 'file name without its extension' expressions.
    Returns (kind, subject text) with kind in JOINSPLIT / RSPLIT1 / SPLITEXT / RESUB-ci / RESUB-cs / REMOVESUFFIX / SLICE."""
    # ".".join(X.split(".")[:-1])
    if isinstance(e, ast.Call) and isinstance(e.func, ast.Attribute) and e.func.attr == "join" and isinstance(e.func.value, ast.Constant) \
            and e.func.value.value == "." and len(e.args) == 1 and isinstance(e.args[0], ast.Subscript):
        sub = e.args[0]
        if isinstance(sub.slice, ast.Slice) and sub.slice.lower is None and norm(sub.slice.upper) == "-1" \
                and isinstance(sub.value, ast.Call) and isinstance(sub.value.func, ast.Attribute) and sub.value.func.attr == "split" \
                and sub.value.args and isinstance(sub.value.args[0], ast.Constant) and sub.value.args[0].value == "." and len(sub.value.args) == 1:
            return "JOINSPLIT", norm(sub.value.func.value)
    # X.rsplit(".", 1)[0]
    if isinstance(e, ast.Subscript) and norm(e.slice) == "0" and isinstance(e.value, ast.Call) and isinstance(e.value.func, ast.Attribute):
        c = e.value
        if c.func.attr == "rsplit" and len(c.args) == 2 and norm(c.args[0]) == "'.'" and norm(c.args[1]) == "1":
            return "RSPLIT1", norm(c.func.value)
        if c.func.attr == "rpartition" and len(c.args) == 1 and norm(c.args[0]) == "'.'":
            return "RPARTITION", norm(c.func.value)        # '' when there is no dot, like JOINSPLIT
        if c.func.attr in ("rsplit", "split", "partition") and len(c.args) == 1 and norm(c.args[0]) == "'.'":
            return "FIRSTDOT", norm(c.func.value)
        if call_name(c) == "os.path.splitext" and c.args:
            return "SPLITEXT", norm(c.args[0])
    if isinstance(e, ast.Call) and call_name(e) == "re.sub" and len(e.args) >= 3 and isinstance(e.args[0], ast.Constant):
        pat = str(e.args[0].value)
        flags = " ".join(norm(a) for a in e.args[3:]) + " ".join(norm(k.value) for k in e.keywords)
        ci = "re.I" in flags or "IGNORECASE" in flags or pat.startswith("(?i)")
        anchored = pat.endswith("$") or pat.endswith("\\Z")
        if "cmake" in pat.lower():
            return ("RESUB-ci" if ci else "RESUB-cs") + ("" if anchored else "-unanchored"), norm(e.args[2])
    if isinstance(e, ast.Call) and isinstance(e.func, ast.Attribute) and e.func.attr == "removesuffix" and e.args:
        return "REMOVESUFFIX-cs", norm(e.func.value)
    if isinstance(e, ast.Subscript) and isinstance(e.slice, ast.Slice) and e.slice.lower is None and e.slice.upper is not None:
        u = norm(e.slice.upper)
        if u in ("-6", "-len('.cmake')", '-len(".cmake")'):
            return "SLICE6", norm(e.value)
    return None


STEM_EQUIV = {"RPARTITION": "lastdot", "JOINSPLIT": "lastdot", "RSPLIT1": "lastdot", "SPLITEXT": "lastdot", "RESUB-ci": "suffix-ci", "SLICE6": "suffix-ci",
              "RESUB-cs": "suffix-cs", "REMOVESUFFIX-cs": "suffix-cs", "FIRSTDOT": "firstdot"}


def rule_stem_agreement(rep: Report, repo: Repo, rule: str) -> None:
    """C14-R1s: a toctree file entry names exactly the page that is written for that file."""
    rep.rule(rule, "the toctree entry of a file and the name of the page written for it are the same function of the file name "
                   "(both 'everything before the last dot', or both a case-insensitive '.cmake' suffix removal)")
    dm = DocumentModel(repo)
    toc = []
    toc_file_loops, _toc_dir_loops, _page_loop = emission_loops(dm)
    for n in toc_file_loops:
        if True:
            for st in n.body:
                for c in calls_in(st):
                    if isinstance(c.func, ast.Attribute) and c.func.attr == "text" and c.args:
                        k = classify_stem(c.args[0])
                        toc.append((k, norm(c.args[0])))
    pages = []
    for n in walk_no_nested(dm.single):
        if isinstance(n, ast.BinOp) and isinstance(n.op, ast.Add) and isinstance(n.right, ast.Constant) and n.right.value == ".rst":
            pages.append((classify_stem(n.left), norm(n.left)))
    if not toc or not pages:
        raise AnalysisError("anchor vanished: toctree file entry or page file name expression not found")
    where = f"{MOD}:document / document_single_file"
    for tk, ttxt in toc:
        for pk, ptxt in pages:
            if tk is None or pk is None:
                raise AnalysisError(f"unrecognised stem computation: toctree `{ttxt[:50]}` / page `{ptxt[:50]}`")
            a, b = STEM_EQUIV.get(tk[0], tk[0]), STEM_EQUIV.get(pk[0], pk[0])
            ok = a == b or {a, b} == {"lastdot", "suffix-ci"}
            rep.check(ok, rule, where, f"toctree {tk[0]}({tk[1]}) vs page {pk[0]}({pk[1]})",
                      f"the toctree lists `{ttxt[:60]}` but the page is named by `{ptxt[:60]}`: for some processed file the entry has no "
                      f"generated target (and the page is unreachable)",
                      witness="Toolchain.CMake (mixed-case extension) or a.b.cmake (dot in the name)")
    rep.floor(rule, 1, "stem computations")


def _order_dependent_decisions(fn: ast.FunctionDef, parents) -> List[Tuple[ast.AST, str, str]]:
    """(statement, carried name, loop iterable) for every removal / skip inside a for loop whose condition reads a container or
    counter that the same loop updates, while the loop does not run over a sorted() sequence: which element is dropped then
    depends on the order in which the elements arrive."""
    out: List[Tuple[ast.AST, str, str]] = []
    for loop in walk_no_nested(fn):
        if not isinstance(loop, ast.For):
            continue
        it = loop.iter
        # for x in copy.copy(L) / list(L) / L[:]: the order of L
        while isinstance(it, ast.Call) and call_name(it) in ("copy.copy", "list", "tuple", "copy", "reversed") and len(it.args) == 1:
            it = it.args[0]
        if isinstance(it, ast.Call) and call_name(it) == "sorted":
            continue
        carried: Set[str] = set()
        for n in ast.walk(loop):
            if isinstance(n, ast.Call) and isinstance(n.func, ast.Attribute) and isinstance(n.func.value, ast.Name) \
                    and n.func.attr in ("add", "append", "update", "extend", "insert", "setdefault"):
                carried.add(n.func.value.id)
            if isinstance(n, ast.AugAssign) and isinstance(n.target, ast.Name):
                carried.add(n.target.id)
            if isinstance(n, ast.Subscript) and isinstance(n.ctx, ast.Store) and isinstance(n.value, ast.Name):
                carried.add(n.value.id)
        tgt = {x.id for x in ast.walk(loop.target) if isinstance(x, ast.Name)}
        iter_names = {x.id for x in ast.walk(loop.iter) if isinstance(x, ast.Name)}
        carried -= tgt
        if not carried:
            continue
        for n in ast.walk(loop):
            is_drop = (isinstance(n, ast.Call) and isinstance(n.func, ast.Attribute) and n.func.attr in ("remove", "pop", "discard")
                       and isinstance(n.func.value, ast.Name) and n.func.value.id in iter_names) or isinstance(n, (ast.Continue, ast.Delete))
            if not is_drop:
                continue
            for g in guards_of(fn, n, parents):
                if not any(g.test is a or any(g.test is d for d in ast.walk(a)) for a in ast.walk(loop)):
                    continue            # guard outside the loop
                # locals computed in the loop from ... (one hop is enough for `real = realpath(x); if real in seen`)
                names = {x.id for x in ast.walk(g.test) if isinstance(x, ast.Name)}
                hit = sorted(names & carried)
                if hit:
                    out.append((n, hit[0], norm(loop.iter)))
                    break
    return out


def rule_no_order_dependent_pruning(rep: Report, repo: Repo, rule: str) -> None:
    """Which files and directories are processed is a function of the *set* of directory entries: a filter whose decision for
    one entry depends on the entries seen before it (a `visited` set, a counter, a 'first one wins' flag) makes the result depend
    on the order in which the operating system lists the directory, unless the loop runs over the sorted listing."""
    rep.rule(rule, "inside document(), no removal / skip decision in a loop over an unsorted listing reads state that the same loop "
                   "accumulates (first-come-first-kept filters)")
    dm = DocumentModel(repo)
    fn = dm.fn
    parents = repo.module(MOD).parents
    hits = _order_dependent_decisions(fn, parents)
    for n, name, it in hits:
        rep.bad(rule, f"{MOD}:document", f"{norm(n)[:50]} under a test of `{name}` in `for ... in {it[:40]}`",
                f"whether an entry is dropped depends on `{name}`, which the same loop fills while it runs over the listing as the "
                f"operating system returned it: of two entries that collide, the one listed first wins, so pages and toctrees "
                f"change with the directory order", witness="two sibling directories resolving to the same target (a symlink next to its target)")
    loops = sum(1 for x in walk_no_nested(fn) if isinstance(x, ast.For))
    rep.ok(rule, f"{MOD}:document", f"{loops} loops inspected, {len(hits)} order-dependent decision(s)")
    # positive control
    import os
    from ..core import VERIF_DIR
    ctree = ast.parse(open(os.path.join(VERIF_DIR, "controls", "first_wins.py")).read())
    cpar = {ch: p for p in ast.walk(ctree) for ch in ast.iter_child_nodes(p)}
    got = {f.name: len(_order_dependent_decisions(f, cpar)) for f in ctree.body if isinstance(f, ast.FunctionDef)}
    if got != {"first_wins": 1, "sorted_first_wins": 0, "stateless": 0}:
        raise AnalysisError(f"positive control controls/first_wins.py: {got}")
    rep.ok(rule, "controls/first_wins.py", "positive control: 1 hit in first_wins, 0 in the sorted and the stateless twin")


def rule_symlinked_subdirs(rep: Report, repo: Repo, rule: str) -> None:
    """os.walk(top, followlinks=F) yields symbolic links to directories among the sub-directory names whatever F is, but visits
    them only when F is true.  A directory list that feeds the toctree ('<sub>/index.rst') must therefore not contain links the
    walk is not going to follow: either followlinks is the constant True, or the links are pruned - under 'not F' or always -
    before the list is used."""
    rep.rule(rule, "unless os.walk follows links unconditionally, the walk body removes os.path.islink(<root>/<sub>) entries from the "
                   "directory list (guarded by nothing or by the negated follow switch) before the toctree is built: every listed "
                   "'<sub>/index.rst' belongs to a directory the walk visits")
    dm = DocumentModel(repo)
    where = f"{MOD}:document"
    walk_call = dm.walk.iter
    while isinstance(walk_call, ast.Call) and call_name(walk_call) in ("sorted", "list", "iter") and walk_call.args:
        walk_call = walk_call.args[0]
    if not (isinstance(walk_call, ast.Call) and call_name(walk_call) == "os.walk"):
        raise AnalysisError("anchor vanished: the walk of document() is not an os.walk(...) call")
    fl = next((k.value for k in walk_call.keywords if k.arg == "followlinks"),
              walk_call.args[3] if len(walk_call.args) > 3 else None)
    if isinstance(fl, ast.Constant) and fl.value is True:
        rep.ok(rule, where, "os.walk(..., followlinks=True): every listed sub-directory is visited")
        return
    flag = norm(fl) if fl is not None else None
    tf, td, page = emission_loops(dm)
    order = {id(x): i for i, x in enumerate(_dfs_nodes(dm.fn))}
    first_use = min((order[id(x)] for x in td), default=None)
    pruned = False
    for c in calls_in(dm.walk):
        if not (isinstance(c.func, ast.Attribute) and c.func.attr == "remove" and norm(c.func.value) == dm.dirs_var and c.args):
            continue
        from ..model import guard_atoms
        gs = [g for g in guards_of(dm.fn, c, dm.parents) if any(g.test is x for x in ast.walk(dm.walk))]
        # read the tests with loop-local names spelled out (`p = join(root, sub)` ... `islink(p)`)
        loop_ = next((l for l in enclosing_loops(c, dm.parents, dm.fn) if l is not dm.walk), None)
        from ..model import Guard
        gs = [Guard(resolve_locals(g.test, loop_) if loop_ is not None else g.test, g.polarity, g.kind) for g in gs]
        atoms = guard_atoms(gs)
        link = {(t, pol) for t, pol in atoms if pol and t.startswith("os.path.islink(") and norm(c.args[0]) in t and dm.root_var in t}
        if not link:
            continue
        # besides the negated follow switch, "the entry is not excluded" may stand in front (an elif of the exclusion loop):
        # excluded entries are removed anyway
        ok_guard = all((flag is not None and t == flag and not pol) or
                       (not pol and dm.spec_var is not None and t.startswith(f"{dm.spec_var}.match_file(")) for t, pol in atoms - link)
        before = first_use is None or order[id(c)] < first_use
        if ok_guard and before:
            pruned = True
    rep.check(pruned, rule, where, f"os.walk(..., followlinks={flag}) with symlinked sub-directories pruned: {pruned}",
              f"os.walk lists symbolic links to directories even when followlinks ({flag}) is false, and document() keeps them in "
              f"the directory list: the parent's toctree names '<link>/index.rst', which is never written because the walk does not "
              f"enter the link", witness="cminx -r -o out dir   where dir/linked -> ../other holds a .cmake file (follow_symlinks: false, the default)",
              key=f"{rule}|symlinked-subdirs")


def rule_index_name_collision(rep: Report, repo: Repo, rule: str) -> None:
    """The page of <dir>/<stem>.cmake and the index of <dir> are both written below <output>/<dir>/: '<stem>.rst' and
    'index.rst'.  Unless something keeps the stem 'index' apart (a test of the file name against 'index', another index name),
    a module called index.cmake and its directory's index are one file: one of the two is lost."""
    rep.rule(rule, "the page name '<stem>.rst' of a processed file cannot coincide with the 'index.rst' of its directory")
    dm = DocumentModel(repo)
    consts = []
    for fn in (dm.fn, dm.single):
        for n in ast.walk(fn):
            if isinstance(n, ast.Compare):
                for x in [n.left] + list(n.comparators):
                    for c in ast.walk(x):
                        if isinstance(c, ast.Constant) and isinstance(c.value, str) and c.value.lower().startswith("index") \
                                and c.value not in ("index.rst",):
                            consts.append(norm(n)[:60])
    index_names = {c.value for n in ast.walk(dm.fn) for c in ast.walk(n) if isinstance(c, ast.Constant) and isinstance(c.value, str)
                   and c.value.endswith("index.rst")}
    separate = bool(consts) or not any(v.split("/")[-1] == "index.rst" for v in index_names)
    rep.check(separate, rule, f"{MOD}:document", f"index file names {sorted(index_names)}; tests that keep a stem 'index' apart: {consts or 'none'}",
              "a module called index.cmake is rendered to <dir>/index.rst, the very file that holds the directory's toctree: whichever "
              "is written last wins (today the page), so the directory has either no toctree or one page fewer than files",
              witness="cminx -o out dir   with dir/index.cmake and dir/b.cmake: out/index.rst is the page of index.cmake, no toctree",
              key=f"{rule}|index-name-collision")


def rule_page_order_by_name(rep: Report, repo: Repo, rule: str) -> None:
    """"the files of a directory in sorted name order": the loop that produces the pages runs over sorted(<file names>) - the
    names themselves, not tuples or derived strings whose order can differ from the order of the names ('utils.cmake' sorts
    after 'utils-extra.cmake', the stem 'utils' before 'utils-extra')."""
    rep.rule(rule, "the page loop iterates sorted(...) over the file names themselves (optionally filtered), without key and "
                   "without wrapping the names into tuples or derived strings")
    dm = DocumentModel(repo)
    _tf, _td, page = emission_loops(dm)
    if page is None:
        raise AnalysisError("anchor vanished: page loop of document()")
    base, _preds, unknown = loop_source(page, dm, ("document_single_file",))
    it = page.iter
    mapped = [u for u in unknown if u.startswith("maps ")]
    ok = base == dm.files_var and not mapped and isinstance(page.target, ast.Name)
    rep.check(ok, rule, f"{MOD}:document", f"for {norm(page.target)} in {norm(it)[:70]}",
              "the pages of a directory are not produced in the sorted order of the file names: the sequence printed in stdout mode "
              "follows another key (a derived page name, a tuple) and differs for names where one is a prefix of the other",
              witness="utils.cmake next to utils-extra.cmake: expected utils-extra, utils")


FS_PROBES = {"os.path.exists", "os.path.lexists", "os.path.isfile", "os.path.isdir", "os.path.islink", "os.scandir", "os.listdir",
             "os.stat", "os.lstat", "os.path.getmtime", "os.path.getsize", "os.walk", "open", "os.readlink", "os.access"}


def rule_fs_probes_absolute(rep: Report, repo: Repo, rule: str) -> None:
    """Every path the processing code asks the file system about is rooted at the absolute input path or at the output
    directory.  A relative path (the text of a symbolic link, a bare file name) is resolved against the working directory of
    the run, so the answer - and with it what is documented - changes with the directory CMinx is started from."""
    rep.rule(rule, "in document() / document_single_file() the argument of every file-system probe (exists, isfile, isdir, islink, "
                   "scandir, listdir, stat, open, walk ...) carries the ABS or OUT label: no probe of a path that is relative to "
                   "the working directory")
    dm = DocumentModel(repo)
    n = 0
    for fn_name, flow in (("document", dm.flow_document()), ("document_single_file", dm.flow_single())):
        for r in flow.calls:
            if r.name not in FS_PROBES or not r.args:
                continue
            n += 1
            labels = r.args[0]
            rep.check(ABS in labels or OUT in labels, rule, f"{MOD}:{fn_name}", norm(r.node)[:70],
                      f"`{norm(r.node.args[0])[:40]}` is not rooted at the absolute input path or the output directory (labels "
                      f"{sorted(labels)}): the probe is answered relative to the working directory, so which files are documented "
                      f"depends on where CMinx is started", witness="a relative symbolic link greet.cmake -> hello.cmake, run from two directories")
    rep.floor(rule, 4, "file-system probes")


def rule_file_list_filters(rep: Report, repo: Repo, rule: str) -> None:
    """The files of a directory that are processed are its non-excluded files: the list os.walk yielded loses entries through the
    exclusion match and through nothing else.  (The parent's auto-exclusion probe counts what `DirEntry.is_file()` says - which
    follows links - so a second filter on the file list, e.g. dropping symlinked files, makes a directory that the parent lists
    write no index.)"""
    rep.rule(rule, "inside the walk, an entry is removed from the file list only under a positive match against the exclusion spec")
    dm = DocumentModel(repo)
    from ..model import guard_atoms
    n = 0
    for c in calls_in(dm.walk):
        is_rm = isinstance(c.func, ast.Attribute) and c.func.attr in ("remove", "pop", "clear") and norm(c.func.value) == dm.files_var
        if not is_rm:
            continue
        n += 1
        gs = [g for g in guards_of(dm.fn, c, dm.parents) if any(g.test is x for x in ast.walk(dm.walk))]
        loop_ = next((l for l in enclosing_loops(c, dm.parents, dm.fn) if l is not dm.walk), None)
        atoms = guard_atoms([type(g)(resolve_locals(g.test, loop_) if loop_ is not None else g.test, g.polarity, g.kind) for g in gs])
        matched = any(pol and dm.spec_var is not None and t.startswith(f"{dm.spec_var}.match_file(") for t, pol in atoms)
        rep.check(matched, rule, f"{MOD}:document", norm(c)[:60] + " under " + (" & ".join(sorted(("" if p else "not ") + t[:40] for t, p in atoms)) or "no test"),
                  "a file is dropped from the directory's file list for a reason other than matching an exclusion pattern: it is "
                  "neither documented nor listed, and a directory whose remaining files are all dropped writes no index although its "
                  "parent lists it", witness="-r on a tree where sub/ holds only symbolic links to .cmake files")
    for n_ in walk_no_nested(dm.walk):
        if isinstance(n_, ast.Assign) and any(norm(t) == f"{dm.files_var}[:]" for t in n_.targets):
            n += 1
            rep.check(dm.spec_var is not None and f"{dm.spec_var}.match_file(" in norm(n_.value), rule, f"{MOD}:document", norm(n_)[:70],
                      "the file list is filtered in place by something other than the exclusion spec")
    rep.ok(rule, f"{MOD}:document", f"{n} removal site(s) on the file list")

"""Path-sensitive term rules over cminx.document_single_file (abstract
evaluation, E3 style): title/module terms (C12), page path (C13/C18), stdout
versus file branch (C18)."""
from __future__ import annotations

import ast
from typing import Any, Dict, List, Optional, Tuple

from ..absint import (Evaluator, Outcome, State, all_effects, attr, const, glob, is_const, is_log_call, show,
                      subterms, NONE)
from ..core import AnalysisError, Report
from ..model import Repo, call_name, calls_in, guards_of, norm, walk_no_nested

MOD = "cminx"
FILE, ROOT, SETTINGS = ("sym", "file"), ("sym", "root"), ("sym", "settings")

_cache: Dict[str, Any] = {}


def outcomes(repo: Repo) -> List[Outcome]:
    k = repo.root
    if k not in _cache:
        ev = Evaluator(repo, MOD)
        ev.fork_ifexp = True       # `x = a if c else b` is a path fork like an if statement
        fn = repo.func(MOD, "document_single_file")
        # the parameters are bound to canonical symbols by position, whatever they are called
        ps = [a.arg for a in fn.args.args]
        binding = dict(zip(ps, (FILE, ROOT, SETTINGS)))
        _cache[k] = ev.run_function(fn, binding)
    return _cache[k]


def setting(*path: str):
    t = SETTINGS
    for p in path:
        t = ("attr", t, p)
    return t


def fact(o: Outcome, pred) -> Optional[bool]:
    """Truth value of the first path-condition atom satisfying pred."""
    for a, v in o.conds:
        r = pred(a)
        if r is True:
            return v
        if r == "neg":
            return not v
    return None


def f_isdir_root(a):
    return a[0] == "truthy" and a[1] == ("call", glob("os.path.isdir"), (ROOT,), ())


def f_prefix_none(a):
    return a[0] == "isnone" and a[1] == setting("rst", "prefix")


def f_out_none(a):
    return a[0] == "isnone" and a[1] == setting("output", "directory")


def f_flag(name):
    def p(a):
        if a[0] == "truthy" and a[1] == setting("rst", name):
            return True
        if a[0] == "cmp" and a[1] in ("==", "is") and a[2] == setting("rst", name) and is_const(a[3]):
            return True if a[3][1] is True else ("neg" if a[3][1] is False else None)
        return None
    return p


def flat_concat(t) -> List[Any]:
    """Flatten string concatenation (binop + / f-string) into parts."""
    if t[0] == "binop" and t[1] == "+":
        return flat_concat(t[2]) + flat_concat(t[3])
    if t[0] == "fstr":
        out = []
        for p in t[1:]:
            out.extend(flat_concat(p))
        return out
    return [t]


def strip_ext(t) -> Tuple[bool, Any]:
    """(True, inner) if t removes a trailing '.cmake' from inner."""
    if t[0] == "call" and t[1] == glob("re.sub") and len(t[2]) >= 3 and is_const(t[2][0]) and t[2][1] == const(""):
        pat = t[2][0][1]
        if isinstance(pat, str) and pat in (r"\.cmake$", r"\.cmake\Z", r"[.]cmake$", r"\.cmake\z"):
            return True, t[2][2]
        return False, t
    if t[0] == "call" and t[1][0] == "attr" and t[1][2] == "removesuffix" and t[2] == (const(".cmake"),):
        return True, t[1][1]
    return False, t


def is_unanchored_sub(t) -> Optional[str]:
    if t[0] == "call" and t[1] == glob("re.sub") and len(t[2]) >= 3 and is_const(t[2][0]):
        pat = t[2][0][1]
        if isinstance(pat, str) and "cmake" in pat and pat not in (r"\.cmake$", r"\.cmake\Z", r"[.]cmake$"):
            return pat
    if t[0] == "call" and t[1][0] == "attr" and t[1][2] == "replace" and t[2] and t[2][0] == const(".cmake"):
        return "str.replace('.cmake', ...)"
    return None


RELPATH = ("call", glob("os.path.relpath"), (FILE, ROOT), ())
BASENAME = ("call", glob("os.path.basename"), (FILE,), ())


def documenter_args(o: Outcome) -> Optional[List[Any]]:
    for n, ob in o.state.heap.items():
        if ob.get("kind") == "new" and ob.get("cls") == "Documenter":
            args = list(ob.get("args", []))
            kw = ob.get("kwargs", {})
            names = ["file", "title", "module_name", "settings"]
            while len(args) < 4:
                args.append(kw.get(names[len(args)], NONE))
            return args
    return None


def rule_title_terms(rep: Report, repo: Repo, r_base: str, r_opts: str, r_prefix: str) -> None:
    rep.rule(r_base, "title/module base is relpath(file, root) for directory inputs and basename(file) for a lone file")
    rep.rule(r_opts, "'.cmake' is removed from the title iff file_extensions_in_titles is off and from the module name iff "
                     "file_extensions_in_modules is off, by an anchored suffix removal")
    rep.rule(r_prefix, "when a prefix applies the name is prefix + separator + relative name, in that order")
    outs = [o for o in outcomes(repo) if not (o.exit and o.exit[0] == "raise")]
    where = f"{MOD}:document_single_file"
    seen = set()
    n = 0
    for o in outs:
        args = documenter_args(o)
        if args is None:
            continue
        isdir = fact(o, f_isdir_root)
        pnone = fact(o, f_prefix_none)
        for idx, what, flagname in ((1, "title", "file_extensions_in_titles"), (2, "module name", "file_extensions_in_modules")):
            t = args[idx]
            flag = fact(o, f_flag(flagname))
            case = f"{what}: isdir(root)={isdir} prefix_none={pnone} {flagname}={flag} => {show(t)}"
            if case in seen:
                continue
            seen.add(case)
            n += 1
            stripped, inner = strip_ext(t)
            unanch = is_unanchored_sub(t)
            # --- option pairing
            if unanch:
                rep.bad(r_opts, where, case, f"extension removal is not an anchored suffix removal ({unanch}): it also alters "
                                             f"names that merely contain '.cmake'", witness="a.cmake.in.cmake / dir.cmake/x.cmake")
                inner = t[2][2] if t[1] == glob("re.sub") else t[1][1]
            elif flag is None:
                rep.bad(r_opts, where, case,
                        f"the {what} {'is' if stripped else 'is not'} stripped of '.cmake' independently of {flagname}",
                        witness=f"rst.{flagname}: true")
            else:
                rep.check(stripped == (not flag), r_opts, where, case,
                          f"with {flagname}={flag} the {what} {'loses' if stripped else 'keeps'} the '.cmake' extension "
                          f"(options swapped or polarity inverted)", witness=f"rst.{flagname}: {str(not flag).lower()}")
            # --- prefix layer
            parts = flat_concat(inner)
            base = parts[-1]
            if pnone is None:
                rep.bad(r_prefix, where, case, "the name does not depend on whether a prefix is configured")
            elif pnone:
                rep.check(len(parts) == 1, r_prefix, where, case, "a prefix is applied although none is configured")
            else:
                if len(parts) == 1 and parts[0] == setting("rst", "prefix"):
                    # 'name equals separator' special case: name replaced by the prefix
                    rep.ok(r_prefix, where, case)
                    base = None
                else:
                    ok = len(parts) == 3 and parts[0] == setting("rst", "prefix") and \
                        parts[1] == setting("rst", "module_path_separator")
                    rep.check(ok, r_prefix, where, case,
                              "with a prefix the name is not prefix + module_path_separator + relative name",
                              witness="-p pre with module_path_separator '::'")
            # --- base
            if base is not None:
                if isdir is None:
                    rep.bad(r_base, where, case, "the name does not distinguish directory inputs from a lone file")
                elif isdir:
                    rep.check(base == RELPATH, r_base, where, case,
                              f"for a directory input the {what} is not derived from relpath(file, root)",
                              witness="cminx -o out -r tree/")
                else:
                    rep.check(base == BASENAME, r_base, where, case,
                              f"for a lone input file the {what} is `{show(base)}`, not the file's base name: title and module "
                              f"name contain the path as given (absolute after abspath)",
                              witness="cminx /abs/x.cmake => title '/abs/x'", key=f"{r_base}|lone-file-{what}")
    if n == 0:
        raise AnalysisError("anchor vanished: no Documenter(...) construction found on any path of document_single_file")
    rep.floor(r_opts, 4, "title/module cases")
    rep.floor(r_prefix, 4, "title/module cases")
    rep.floor(r_base, 4, "title/module cases")


# ----------------------------------------------------------------------
def flat_join(t) -> Optional[List[Any]]:
    if t[0] == "call" and t[1] == glob("os.path.join"):
        out = []
        for i, a in enumerate(t[2]):
            sub = flat_join(a)
            if sub is None and a[0] == "call" and a[1] == glob("os.path.dirname") and len(a[2]) == 1 \
                    and a[2][0][0] == "call" and a[2][0][1] == glob("os.path.basename"):
                a = const("")            # a base name has no directory part
            out.extend(sub if sub is not None else [a])
        # os.path.join skips an empty component in the middle (join(a, '', b) == join(a, b)); a trailing '' adds a separator
        return [c for i, c in enumerate(out) if not (c == const("") and 0 < i < len(out) - 1)]
    return None


def is_stem_rst(t) -> bool:
    """<stem of basename(file)> + '.rst'"""
    parts = flat_concat(t)
    if len(parts) != 2 or parts[1] != const(".rst"):
        return False
    s = parts[0]
    split = ("call", ("attr", BASENAME, "split"), (const("."),), ())
    form1 = ("call", ("attr", const("."), "join"), (("slice", split, NONE, const(-1), NONE),), ())
    rsplit = ("sub", ("call", ("attr", BASENAME, "rsplit"), (const("."), const(1)), ()), const(0))
    splitext = ("sub", ("call", glob("os.path.splitext"), (BASENAME,), ()), const(0))
    rpart = ("sub", ("call", ("attr", BASENAME, "rpartition"), (const("."),), ()), const(0))
    return s in (form1, rsplit, splitext, rpart)


def rule_page_path(rep: Report, repo: Repo, rule: str) -> None:
    rep.rule(rule, "the page path is join(output, dirname(relpath(file, root)), stem(basename(file)) + '.rst') for directory "
                   "inputs and join(output, stem + '.rst') for a lone file")
    outs = [o for o in outcomes(repo) if not (o.exit and o.exit[0] == "raise")]
    where = f"{MOD}:document_single_file"
    seen = set()
    out_t = setting("output", "directory")
    for o in outs:
        isdir = fact(o, f_isdir_root)
        for e in o.effects:
            if e[0] == "call" and e[1][0] == "call" and e[1][1][0] == "attr" and e[1][1][2] == "write_to_file":
                path = e[1][2][0] if e[1][2] else NONE
                case = f"isdir(root)={isdir} => {show(path)}"
                if case in seen:
                    continue
                seen.add(case)
                comps = flat_join(path)
                ok = False
                if comps and comps[0] == out_t:
                    rest = comps[1:]
                    if isdir:
                        ok = len(rest) == 2 and rest[0] == ("call", glob("os.path.dirname"), (RELPATH,), ()) and is_stem_rst(rest[1])
                    elif isdir is False:
                        ok = len(rest) == 1 and is_stem_rst(rest[0])
                rep.check(ok, rule, where, case,
                          "the page is not written to <output>/<relative directory>/<stem>.rst",
                          witness="cminx -o out -r tree/  with tree/sub/x.cmake")
    rep.floor(rule, 2, "write_to_file path cases")


def rule_stdout_branch(rep: Report, repo: Repo, rule: str) -> None:
    rep.rule(rule, "without an output directory exactly str(writer)+'\\n' of the page is printed and nothing is written; with "
                   "one the same writer is written and nothing printed; index writers are never printed; info-level logging "
                   "only when an output directory is set")
    outs = [o for o in outcomes(repo) if not (o.exit and o.exit[0] == "raise")]
    where = f"{MOD}:document_single_file"
    seen = set()
    for o in outs:
        out_none = fact(o, f_out_none)
        doc_ref = None
        for n, ob in o.state.heap.items():
            if ob.get("kind") == "new" and ob.get("cls") == "Documenter":
                doc_ref = ("ref", n)
        if doc_ref is None:
            continue
        writer = ("call", ("attr", doc_ref, "process"), (), ())
        prints, writes, infos, mk = [], [], [], []
        for e in o.effects:
            if e[0] != "call":
                continue
            t = e[1]
            if t[0] != "call":
                continue
            if t[1] == glob("print") or (t[1][0] == "global" and t[1][1] in ("sys.stdout.write",)):
                prints.append(t)
            elif t[1][0] == "attr" and t[1][2] == "write_to_file":
                writes.append(t)
            elif t[1][0] == "global" and t[1][1] in ("os.makedirs", "os.mkdir"):
                mk.append(t)
            elif is_log_call(t) and t[1][2] == "info":
                infos.append(t)
        case = f"output_none={out_none}: prints={len(prints)} writes={len(writes)} mkdirs={len(mk)} info_logs={len(infos)}"
        if case in seen:
            continue
        seen.add(case)
        if out_none is None:
            rep.bad(rule, where, case, "the function does not branch on whether an output directory is set")
        elif out_none:
            expected = ("binop", "+", ("call", glob("str"), (writer,), ()), const("\n"))
            alt = ("fstr", writer, const("\n"))
            ok = len(prints) == 1 and not writes and not mk and not infos and prints[0][2] and \
                prints[0][2][0] in (expected, alt) and not prints[0][3]
            msg = "stdout mode does not print exactly str(page writer) + '\\n'"
            if writes or mk:
                msg = "stdout mode touches the file system"
            elif infos:
                msg = "stdout mode emits info-level log lines (the console handler writes them to stdout between the pages)"
            elif len(prints) != 1:
                msg = f"stdout mode prints {len(prints)} times per page"
            rep.check(ok, rule, where, case, msg, witness="cminx x.cmake > page.rst")
        else:
            ok = not prints and all(w[1][1] == writer for w in writes)
            rep.check(ok, rule, where, case,
                      "with an output directory the page is printed, or a writer other than the processed one is written",
                      witness="cminx -o out x.cmake")
    # document(): no print at all (index pages are not printed); main: info logs guarded
    dfn = repo.func(MOD, "document")
    for c in calls_in(dfn):
        if call_name(c) == "print" or call_name(c).startswith("sys.stdout"):
            rep.bad(rule, f"{MOD}:document", norm(c)[:60], "document() prints (index pages must not go to stdout)")
    rep.ok(rule, f"{MOD}:document", "no print in document()")
    m = repo.module(MOD)
    for q in ("main", "document", "document_single_file"):
        fn = repo.func(MOD, q)
        for c in calls_in(fn):
            if call_name(c) in ("logger.info", "logging.info"):
                gs = guards_of(fn, c, m.parents)
                from .fsrules import is_out_guard, is_output_dir_expr
                aliases = set()
                for n_ in walk_no_nested(fn):
                    if isinstance(n_, ast.Assign) and len(n_.targets) == 1 and isinstance(n_.targets[0], ast.Name) and is_output_dir_expr(n_.value):
                        aliases.add(n_.targets[0].id)
                    if isinstance(n_, ast.AnnAssign) and n_.value is not None and isinstance(n_.target, ast.Name) and is_output_dir_expr(n_.value):
                        aliases.add(n_.target.id)
                ok = any(is_out_guard(g.test, g.polarity, aliases) for g in gs)
                rep.check(ok, rule, f"{MOD}:{q}", norm(c)[:60],
                          "info-level log call reachable in stdout mode: with the default logging configuration the line is "
                          "written to stdout between the pages", witness="cminx x.cmake | head")
    # the other modules of the pipeline (listener, documenter, entry classes, writer) have no access to the output mode: an info
    # record there is emitted in stdout mode too
    from ..model import HAND_WRITTEN
    for mod in HAND_WRITTEN:
        if mod == MOD:
            continue
        for q, fn in repo.functions(mod):
            for c in calls_in(fn):
                nm = call_name(c)
                if nm.split(".")[-1] == "info" and ("logger" in nm or "logging" in nm or "log" in nm.split(".")[0]):
                    rep.bad(rule, f"{mod}:{q}", norm(c)[:60],
                            "info-level log call outside the output-mode aware entry points: with the default logging configuration "
                            "the line is written to stdout in front of / between the pages", witness="cminx x.cmake > x.rst")
    rep.floor(rule, 5, "stdout/file branch facts")

"""E6 tables shared by C03/C05/C08: dispatch table, flag table, option existence."""
from __future__ import annotations

import ast

from ..core import AnalysisError, Report
from ..listener import model
from ..model import Repo, func_params, norm
from .c16 import template_dict, dict_items
from .protocol import FLAGGED


def _yaml(repo: Repo):
    import yaml
    try:
        return yaml.safe_load(repo.read("src/cminx/config_default.yaml"))
    except Exception as e:
        raise AnalysisError(f"config_default.yaml does not parse: {e}")


def rule_flag_tables(rep: Report, repo: Repo, rule: str) -> None:
    rep.rule(rule, "the ten include_undocumented_* flags exist in the dataclass, the template and the YAML (default true) and are "
                   "exactly the kinds dispatched on the undocumented path")
    lm = model(repo)
    tdict, _ = template_dict(repo)
    tin = dict_items(dict_items(tdict)["input"])
    y = _yaml(repo).get("input", {})
    fields = {f.name for f in repo.dataclass_fields("InputSettings")}
    kinds = sorted(FLAGGED)
    for k in kinds:
        name = f"include_undocumented_{k}"
        ok = name in fields and name in tin and name in y
        rep.check(ok, rule, "cminx.config", name,
                  f"{name} is missing from {'the dataclass ' if name not in fields else ''}{'the template ' if name not in tin else ''}"
                  f"{'config_default.yaml' if name not in y else ''}")
        if name in y:
            rep.check(y[name] is True, rule, "config_default.yaml", f"{name}: {y[name]}",
                      f"the packaged default of {name} is not true: 'default settings' no longer document every {k}()")
    declared = sorted(f[len("include_undocumented_"):] for f in fields if f.startswith("include_undocumented_"))
    rep.check(declared == kinds, rule, "cminx.config:InputSettings", f"flags: {declared}",
              f"flag set differs from the documentable kinds {kinds}")
    # every flagged kind has a processor, and every processor that is dispatched on the undocumented path has a flag
    procs = [k for k in lm.process_kinds if k not in ("generic_command", "cmake_parse_arguments", "set")]
    rep.check(sorted(procs) == kinds, rule, "cminx.aggregator:DocumentationAggregator", f"processors: {sorted(procs)}",
              "processors and include flags do not correspond one to one: an undocumented command of a kind without flag raises KeyError")
    rep.floor(rule, 20, "flag table facts")


def rule_dispatch_signatures(rep: Report, repo: Repo, rule: str) -> None:
    rep.rule(rule, "every process_* method except the generic fallback takes (ctx, docstring) [+ defaulted extras]")
    lm = model(repo)
    for k in lm.process_kinds:
        r = repo.find_method(lm.cls, "process_" + k)
        fn = r[1]
        params = func_params(fn)[1:]
        from ..model import param_defaults
        d = param_defaults(fn)
        required = [p for p in params if p not in d]
        ok = len(required) == 2
        if k == "generic_command":
            continue
        rep.check(ok, rule, f"cminx.aggregator:{lm.cls}.process_{k}", f"({', '.join(params)})",
                  f"process_{k} cannot be called as processor(ctx, docstring)")
    rep.floor(rule, 10, "processor signatures")


def rule_strip_options_exist(rep: Report, repo: Repo, rule: str) -> None:
    rep.rule(rule, "the three parameter-name strip patterns and the kwargs trigger string exist in template, dataclass and YAML")
    tdict, _ = template_dict(repo)
    tin = dict_items(dict_items(tdict)["input"])
    y = _yaml(repo).get("input", {})
    fields = {f.name for f in repo.dataclass_fields("InputSettings")}
    for name in ("function_parameter_name_strip_regex", "macro_parameter_name_strip_regex",
                 "member_parameter_name_strip_regex", "kwargs_doc_trigger_string"):
        rep.check(name in tin and name in fields and name in y, rule, "cminx.config", name,
                  f"option {name} is not defined consistently (template={name in tin}, dataclass={name in fields}, yaml={name in y})")
        if name.endswith("regex") and name in y:
            rep.check(y[name] == "", rule, "config_default.yaml", f"{name}: {y[name]!r}",
                      "the default strip pattern is not empty: parameters are altered under default settings")
    rep.floor(rule, 7, "option facts")


def rule_settings_plain(rep: Report, repo: Repo, rule: str) -> None:
    """The settings dataclasses are plain records: no __post_init__ / properties / __setattr__ that derive one option from another."""
    rep.rule(rule, "the settings dataclasses are plain records (no __post_init__, properties or attribute hooks): an option's value "
                   "in effect is exactly what the layered configuration supplied, never derived from another option")
    for cname in ("InputSettings", "OutputSettings", "LoggingSettings", "RSTSettings", "Settings"):
        ci = repo.cls(cname)
        meths = sorted(ci.methods)
        rep.check(not meths, rule, f"cminx.config:{cname}", f"methods: {meths or 'none'}",
                  f"{cname} defines {meths}: an option can be rewritten after the configuration was layered (e.g. one strip pattern "
                  f"falling back to another)", witness="only function_parameter_name_strip_regex configured; member pattern empty")
    # dict_to_settings passes the validated sections through unchanged
    d2s = repo.func("cminx.config", "dict_to_settings")
    odd = [norm(n)[:60] for n in ast.walk(d2s) if isinstance(n, (ast.IfExp, ast.If, ast.BoolOp))]
    rep.check(not odd, rule, "cminx.config:dict_to_settings", "no conditional rewriting of options", f"dict_to_settings rewrites options: {odd}")
    rep.floor(rule, 6, "settings classes")


def rule_no_option_rewrite(rep: Report, repo: Repo, rule: str) -> None:
    """Between validation and use no option is rewritten: main() and dict_to_settings() hand the validated values on as they
    are.  The one store there is is the exclude filter list (the union over all sources, C16); a `.strip()`, `.rstrip(sep)`,
    `or default`, ... on a configured string changes the value in effect (a trigger ':keyword ' with its blank, a prefix that
    ends in separator characters)."""
    rep.rule(rule, "main() and dict_to_settings() store into no field of the settings objects except input.exclude_filters "
                   "(<- all_contents() of the layered configuration)")
    fields = set()
    for cname in ("InputSettings", "OutputSettings", "LoggingSettings", "RSTSettings"):
        fields |= {f.name for f in repo.cls(cname).own_fields}
    n = 0
    for mod, fname in (("cminx", "main"), ("cminx.config", "dict_to_settings")):
        fn = repo.func(mod, fname)
        for node in ast.walk(fn):
            tgts = []
            if isinstance(node, ast.Assign):
                tgts = node.targets
            elif isinstance(node, (ast.AugAssign, ast.AnnAssign)):
                tgts = [node.target]
            for t in tgts:
                if isinstance(t, ast.Attribute) and t.attr in fields:
                    n += 1
                    val = getattr(node, "value", None)
                    ok = t.attr == "exclude_filters" and val is not None and "all_contents()" in norm(val) and isinstance(node, ast.Assign)
                    rep.check(ok, rule, f"{mod}:{fname}", norm(node)[:80],
                              f"the option `{t.attr}` is rewritten after the configuration was validated: the value in effect is no longer "
                              f"the one the sources supplied", witness="kwargs_doc_trigger_string: ':keyword '  /  -p 'v2.' with the default separator")
    rep.ok(rule, "cminx:main, cminx.config:dict_to_settings", f"{n} store(s) into settings fields")

"""C18 - pages go only where requested: the output directory, or stdout."""
from ..core import Report
from ..model import Repo
from . import fsrules, pathterms


def run(rep: Report, repo: Repo, tier: str) -> None:
    rep.unit("src/cminx/__init__.py", "src/cminx/rstwriter.py", "src/cminx/documenter.py")
    rep.assume("open(path, 'w') creates or truncates exactly `path`; os.makedirs creates only `path` and its parents",
               "os.path.join discards earlier components when a later one is absolute (hence the no-ABS-component rule)")
    with rep.isolated():
        fsrules.rule_write_census(rep, repo, "C18-R1")
    rep.floor("C18-R1", 10, "write-site obligations (guard + rooting)")
    with rep.isolated():
        fsrules.rule_no_delete(rep, repo, "C18-R2")
    with rep.isolated():
        pathterms.rule_stdout_branch(rep, repo, "C18-R3")
    with rep.isolated():
        pathterms.rule_page_path(rep, repo, "C18-R4")
    # "inside that directory": the directory the user asked for, i.e. a relative -o resolved against the cwd of the run
    from .c16 import rule_output_dir_resolution
    with rep.isolated():
        rule_output_dir_resolution(rep, repo, "C18-R5")
    # "the files of a directory in sorted name order" (stdout mode prints pages in production order)
    with rep.isolated():
        fsrules.rule_no_nondeterminism(rep, repo, "C18-R6")
    # "the directory the user asked for": -o outranks an output.directory found in a settings file
    from .c16 import rule_source_order
    with rep.isolated():
        rule_source_order(rep, repo, "C18-R7")
    with rep.isolated():
        fsrules.rule_mode_independence(rep, repo, "C18-R8")
    with rep.isolated():
        fsrules.rule_index_before_pages(rep, repo, "C18-R9")
    # the file of -o mode holds what stdout mode prints: write_to_file writes str(self) unchanged
    from . import writer_rules as _wr
    with rep.isolated():
        _wr.rule_file_is_rendered_text(rep, repo, "C18-R10")
    with rep.isolated():
        fsrules.rule_page_order_by_name(rep, repo, "C18-R11")

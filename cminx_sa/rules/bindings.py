"""E3 - binding terms: which argument / doc text / setting ends up in which
field of each entry (C01-R3, C03-R2, C09-R2, C10-R1/R3, C11-R1/R3)."""
from __future__ import annotations

import re
from typing import Any, Dict, List, Optional, Tuple

from ..absint import NONE, SELF, Outcome, const, glob, is_const, show
from ..core import AnalysisError, Report
from ..listener import ListenerModel, Row, model
from ..model import Repo
from ..terms import IT, NF, pretty, subst

WHERE = "cminx.aggregator:DocumentationAggregator"
A = ("args",)


def T(i):
    return ("text", ("index", A, const(i)))


def texts_from(i):
    return ("map", ("text", IT), ("slice", A, const(i), NONE)) if i else ("map", ("text", IT), A)


def setting(name):
    return ("setting", "input." + name)


DOC = ("doc",)


def nf_for(lm: ListenerModel, r: Row) -> NF:
    if r.event == "DOC":
        ctx = ("call", ("attr", ("sym", "dctx"), "command_invocation"), (), ())
    else:
        ctx = ("sym", "ctx")
    return NF(ctx, None, r.outcome.state)


class _F(dict):
    """Field map that yields a marker for fields the created class does not have."""

    def __missing__(self, key):
        return ("unknown", f"no field {key}")


def entry_objects(lm: ListenerModel, r: Row) -> List[Tuple[str, Dict[str, Any]]]:
    """(class, fields) of every entry/member object created and stored on the row."""
    out = []
    st = r.outcome.state
    for e in r.outcome.effects:
        if e[0] == "push" and (e[1] == lm.entries or (e[1][0] == "attr" and e[1][1] == ("top", lm.clsstack))):
            ob = st.obj(e[2])
            if ob is not None and ob.get("kind") == "new":
                out.append((ob["cls"], _F(ob["fields"])))
    return out


def all_push_effects(o: Outcome):
    """push effects including those inside loop summaries."""
    def walk(effects):
        for e in effects:
            if e[0] == "push":
                yield e
            elif e[0] == "loop":
                lp = o.state.loops.get(e[1])
                if lp:
                    for oc in lp["outcomes"]:
                        yield from walk(oc["effects"])
            elif e[0] == "inloop":
                yield from walk([e[2]])
    yield from walk(o.effects)


def good_rows(lm: ListenerModel, ev: str, k: str) -> List[Row]:
    return [r for r in lm.rows(ev, k) if not r.error and "exc" not in r.val]


def _same(a, b) -> bool:
    return a == b or _relax(a) == _relax(b)


def _relax(t):
    """Laws that make harmless variants equal: xs[i:] if len(xs) > i else [] == xs[i:]."""
    if isinstance(t, tuple) and t and t[0] == "ifexp":
        c, x, y = t[1], t[2], t[3]
        if y in (("list",), ("tuple",)) and isinstance(x, tuple) and x[0] in ("map", "slice"):
            return _relax(x)
    if isinstance(t, tuple):
        return tuple(_relax(x) if isinstance(x, tuple) else x for x in t)
    return t


def check_field(rep: Report, rule: str, k: str, cls: str, fld: str, got, exp, why: str, witness: str = None,
                key: str = None, row: Optional[Row] = None, lm: Optional[ListenerModel] = None) -> None:
    same = _same(got, exp)
    if not same and row is not None and lm is not None and got == ("list",) and exp[0] == "map" and exp[2][0] == "slice" \
            and exp[2][1] == A and is_const(exp[2][2]):
        # an empty list where the path has already established that there is no argument from that position on
        lo, hi = _len_interval(row, lm)
        same = hi is not None and hi <= exp[2][2][1]
    rep.check(same, rule, WHERE + ".process_" + k, f"{cls}.{fld} = {pretty(got)}"[:120],
              f"{why}: {cls}.{fld} is bound to `{pretty(got)}`, the property requires `{pretty(exp)}`", witness=witness, key=key)


# ----------------------------------------------------------------------
def rule_doc_storage(rep: Report, repo: Repo, rule: str) -> None:
    """C01-R3: the doc field of every constructed entry is exactly the cleaned doc text."""
    rep.rule(rule, "in every processor the `doc` field of every constructed entry is exactly the cleaned doccomment text that "
                   "the callback computed (13 constructor sites)")
    lm = model(repo)
    sites = set()
    for k in lm.kinds() + ["generic_command"]:
        if k in ("endfunction", "endmacro", "cpp_end_class", "cmake_parse_arguments", "generic_command"):
            continue
        for r in good_rows(lm, "DOC", k):
            nf = nf_for(lm, r)
            for cls, fields in entry_objects(lm, r):
                got = nf.nf(fields.get("doc", NONE))
                site = (k, cls, pretty(got))
                if site in sites:
                    continue
                sites.add(site)
                rep.check(got == DOC, rule, WHERE + ".process_" + k, f"{cls}.doc = {pretty(got)}"[:100],
                          f"the entry's documentation is `{pretty(got)}` instead of the cleaned doccomment text: the doc text is "
                          f"lost, altered or belongs to something else", witness=f"#[[[\\n# text\\n#]]\\n{k}(...)")
    # every object that carries the doc text is attached to the entry list or to the innermost open class
    for k in lm.kinds():
        if k in ("endfunction", "endmacro", "cpp_end_class", "cmake_parse_arguments"):
            continue
        for r in good_rows(lm, "DOC", k):
            st = r.outcome.state
            nf = nf_for(lm, r)
            attached = set()
            for e in r.outcome.effects:
                if e[0] == "push" and e[2][0] == "ref":
                    ok_t = e[1] == lm.entries or (e[1][0] == "attr" and e[1][1] == ("top", lm.clsstack))
                    attached.add((e[2], ok_t, show(e[1])[:60]))
            for e in all_push_effects(r.outcome):
                if e[2][0] == "ref" and (e[2], True, show(e[1])[:60]) not in attached and (e[2], False, show(e[1])[:60]) not in attached:
                    attached.add((e[2], False, "loop: " + show(e[1])[:50]))
            for n_, ob in st.heap.items():
                if ob.get("kind") == "new" and repo.has_class(ob["cls"]) and repo.is_subclass(ob["cls"], "DocumentationType") \
                        and nf.nf(ob["fields"].get("doc", NONE)) == DOC:
                    tg = [a for a in attached if a[0] == ("ref", n_)]
                    if tg and not any(a[1] for a in tg):
                        rep.bad(rule, WHERE + ".process_" + k, f"DOC {k}: {ob['cls']} attached to {tg[0][2]}",
                                f"the entry that carries the doc text of a {k}() is attached through `{tg[0][2]}`, not to the entry list or "
                                f"the innermost open class: the text is attributed to another item, or dropped when the lookup fails",
                                witness="cpp_class(Greeter) ... cpp_member(greet greeter str)  (class spelled differently)")
    # a documented command that the protocol says is shown must actually store its doc text somewhere
    from .protocol import expected, row_case
    for k in lm.kinds():
        if k in ("endfunction", "endmacro", "cpp_end_class", "cmake_parse_arguments"):
            continue
        for r in good_rows(lm, "DOC", k):
            exp = expected(r)
            if not isinstance(exp, dict) or "__problem__" in exp:
                continue
            if (exp["entries"] or exp["attach"]) and not entry_objects(lm, r):
                rep.bad(rule, WHERE + ".process_" + k, f"DOC {k} [{r.cond()[:80]}]: no entry receives the doc text (does {r.summary()})",
                        f"the doccomment of a {k}() is dropped: no entry or class member is created that carries its text",
                        witness=f"#[[[\n# text\n#]]\n{k}(...)")
    # module doccomment
    for r in lm.rows("MODULE", "-"):
        for cls, fields in entry_objects(lm, r):
            rep.check(cls == "ModuleDocumentation", rule, WHERE + ".enterDocumented_module", f"{cls}", "module doccomment creates another entry kind")
    rep.floor(rule, 10, "constructor sites")


def _mentions_args(t) -> bool:
    if t == A:
        return True
    return isinstance(t, tuple) and any(_mentions_args(x) for x in t if isinstance(x, tuple))


def rule_pairing(rep: Report, repo: Repo, rule: str) -> None:
    """C01-R2: doc text and command context both come from the callback's own ctx."""
    rep.rule(rule, "the text handed to the processor is cleaned from the callback's own ctx.bracket_doccomment().getText() "
                   "split on '\\n', and the command context is the callback's own ctx.command_invocation(), in both dispatch branches")
    lm = model(repo)
    dctx = ("sym", "dctx")
    want_doc = ("call", glob(f"{lm.cls}.clean_doc_lines"),
                (("call", ("attr", ("call", ("attr", ("call", ("attr", dctx, "bracket_doccomment"), (), ()), "getText"), (), ()), "split"),
                  (const("\n"),), ()),), ())
    seen = set()
    for k in ("function", "set", "message", "cpp_class", "option"):
        for r in good_rows(lm, "DOC", k):
            st = r.outcome.state
            for cls, fields in entry_objects(lm, r):
                d = fields.get("doc", NONE)
                case = f"DOC {k}: doc <- {show(d)[:80]}"
                if case in seen:
                    continue
                seen.add(case)
                ok = d == want_doc or (d[0] == "call" and d[1][0] == "attr" and d[1][2] == "clean_doc_lines" and d[2] == want_doc[2])
                rep.check(ok, rule, WHERE + ".enterDocumented_command", case,
                          "the doc text handed to the processor is not the cleaned text of this command's own doccomment "
                          "(another context, an instance attribute or a different split)",
                          witness="two documented commands in a row")
                # name must come from the same command context
                nm = fields.get("name")
                if nm is not None and k in ("function", "set", "cpp_class", "option"):
                    nf = nf_for(lm, r)
                    got = nf.nf(nm)
                    rep.check(_mentions_args(got), rule, WHERE + ".enterDocumented_command", f"DOC {k}: name <- {pretty(got)}"[:100],
                              "the processor receives a command context other than this doccomment's own command")
    # module callback
    fn = repo.cls(lm.cls).methods["enterDocumented_module"]
    for r in lm.rows("MODULE", "-"):
        for cls, fields in entry_objects(lm, r):
            txt = show(fields.get("doc", NONE)) + show(fields.get("name", NONE))
            rep.check("ctx.Module_docstring().getText()" in txt and "self." not in txt.replace("self.settings", ""), rule,
                      WHERE + ".enterDocumented_module", "module name/doc <- ctx.Module_docstring().getText()",
                      "the module entry is not built from the callback's own Module_docstring token")
    rep.floor(rule, 6, "pairing facts")


# ----------------------------------------------------------------------
def rule_signature_bindings(rep: Report, repo: Repo, rule: str) -> None:
    """C03-R2."""
    rep.rule(rule, "function/macro: name = first argument (never regex-stripped), params = remaining arguments in order, each "
                   "passed through re.sub(<kind's strip pattern>, '', text); has_kwargs = trigger string in doc")
    lm = model(repo, upper=True)     # FUNCTION(...) / Macro(...) are the same definitions
    for k, cls, regex in (("function", "FunctionDocumentation", "function_parameter_name_strip_regex"),
                          ("macro", "MacroDocumentation", "macro_parameter_name_strip_regex")):
        for ev in ("DOC", "UNDOC"):
            for r in good_rows(lm, ev, k):
                if r.val.get("awaiting"):
                    continue
                nf = nf_for(lm, r)
                for c, fields in entry_objects(lm, r):
                    if c != cls:
                        rep.bad(rule, WHERE + ".process_" + k, f"{ev} {k} creates {c}", f"{k}() creates a {c}")
                        continue
                    w = f"{k}(name p1 p2) with {regex}: '^p'"
                    check_field(rep, rule, k, cls, "name", nf.nf(fields["name"]), T(0), "the name must be the first argument as written", w)
                    exp_params = ("map", ("resub", setting(regex), const(""), ("text", IT)), ("slice", A, const(1), NONE))
                    check_field(rep, rule, k, cls, "params", nf.nf(fields["params"]), exp_params,
                                "parameters must be arguments 2..n in order, stripped with this kind's pattern", w)
                    if ev == "DOC":
                        exp_kw = ("cmp", "in", setting("kwargs_doc_trigger_string"), DOC)
                        check_field(rep, rule, k, cls, "has_kwargs", nf.nf(fields["has_kwargs"]), exp_kw,
                                    "**kwargs is triggered by the configured trigger string occurring in the doc text",
                                    "kwargs_doc_trigger_string: ':keyword' with ':keyword x:' in the doc")
    rep.floor(rule, 8, "function/macro field bindings")


# ----------------------------------------------------------------------
def rule_class_bindings(rep: Report, repo: Repo, rule: str) -> None:
    """C09-R2."""
    rep.rule(rule, "Method: name=arg0, parent=arg1, types=args[2:], params empty until claimed; constructor flag from the alias; "
                   "Attribute: parent=arg0, name=arg1, default=arg2 iff given; Class: name=arg0, bases=args[1:], four distinct "
                   "empty member lists; claimed definition: params = args[2:] (member strip pattern for methods), is_macro = (command is macro)")
    lm = model(repo)
    for ev in ("DOC", "UNDOC"):
        for k, is_ctor in (("cpp_member", False), ("cpp_constructor", True)):
            for r in good_rows(lm, ev, k):
                nf = nf_for(lm, r)
                for c, f in entry_objects(lm, r):
                    w = "cpp_member(fn MyClass int str)"
                    check_field(rep, rule, k, c, "name", nf.nf(f["name"]), T(0), "method name is the first argument", w)
                    check_field(rep, rule, k, c, "parent_class", nf.nf(f["parent_class"]), T(1), "class is the second argument", w)
                    check_field(rep, rule, k, c, "param_types", nf.nf(f["param_types"]), texts_from(2), "types are arguments 3..n in order", w,
                                row=r, lm=lm)
                    check_field(rep, rule, k, c, "params", nf.nf(f["params"]), ("list",), "parameter names come from the implementing definition only", w)
                    check_field(rep, rule, k, c, "is_constructor", nf.nf(f["is_constructor"]), const(is_ctor),
                                "cpp_constructor entries (and only those) are constructors", "cpp_constructor(CTOR MyClass int)")
        for r in good_rows(lm, ev, "cpp_attr"):
            nf = nf_for(lm, r)
            for c, f in entry_objects(lm, r):
                w = "cpp_attr(MyClass color red)"
                check_field(rep, rule, "cpp_attr", c, "parent_class", nf.nf(f["parent_class"]), T(0), "class is the first argument", w)
                check_field(rep, rule, "cpp_attr", c, "name", nf.nf(f["name"]), T(1), "attribute name is the second argument", w)
                got = nf.nf(f["default_value"])
                ok = _is_optional_arg(got, 2, r, lm)
                rep.check(ok, rule, WHERE + ".process_cpp_attr", f"{c}.default_value = {pretty(got)}"[:110],
                          "the default value must be the third argument when present and None otherwise", witness=w)
        for r in good_rows(lm, ev, "cpp_class"):
            nf = nf_for(lm, r)
            for c, f in entry_objects(lm, r):
                if c != "ClassDocumentation":
                    continue
                w = "cpp_class(Derived Base1 Base2)"
                check_field(rep, rule, "cpp_class", c, "name", nf.nf(f["name"]), T(0), "class name is the first argument", w)
                check_field(rep, rule, "cpp_class", c, "superclasses", nf.nf(f["superclasses"]), texts_from(1), "base classes are arguments 2..n", w)
                lists = [f.get(x) for x in ("inner_classes", "constructors", "members", "attributes")]
                ok = all(l is not None and l[0] == "ref" for l in lists) and len({l for l in lists}) == 4 and \
                    all(r.outcome.state.obj(l) is not None and r.outcome.state.obj(l).get("items") in ([],) or
                        (x == "inner_classes") for l, x in zip(lists, ("inner_classes", "constructors", "members", "attributes")))
                rep.check(ok, rule, WHERE + ".process_cpp_class", "four distinct fresh member lists",
                          "the class's member lists are shared or pre-filled: members of one kind appear under another heading")
    # claim rows
    for k in ("function", "macro"):
        for r in good_rows(lm, "UNDOC", k):
            if not r.val.get("awaiting"):
                continue
            nf = nf_for(lm, r)
            ism = r.claim.get("is_macro")
            rep.check(ism == const(k == "macro"), rule, WHERE + ".enterCommand_invocation", f"claim by {k}: is_macro = {show(ism) if ism else None}",
                      "the macro note of a member/test depends on something other than the implementing command being a macro",
                      witness="cpp_member(f C)\\nmacro(${f} self)\\nendmacro()")
            if "params" in r.claim:
                got = nf.nf(r.claim["params"])
                if r.val.get("awaiting_is:MethodDocumentation"):
                    exp = ("map", ("resub", setting("member_parameter_name_strip_regex"), const(""), ("text", IT)), ("slice", A, const(2), NONE))
                else:
                    exp = texts_from(2)
                rep.check(_same(got, exp), rule, WHERE + ".enterCommand_invocation", f"claim by {k}: params += {pretty(got)}"[:120],
                          f"a claimed definition contributes `{pretty(got)}` instead of its arguments after name and self "
                          f"(`{pretty(exp)}`)", witness="cpp_member(f C int)\\nfunction(${f} self x)\\nendfunction()")
    rep.floor(rule, 25, "class/member field bindings")


def _is_optional_arg(t, i, r: Optional[Row] = None, lm: Optional[ListenerModel] = None) -> bool:
    """T(i) if len(args) > i else None (in any equivalent guard form), or - on a path that has already decided the argument
    count - the path's half of it: T(i) where len(args) > i, None where len(args) <= i."""
    PARAMS = ("map", ("text", IT), A)
    if t[0] != "ifexp":
        if r is not None and lm is not None:
            lo, hi = _len_interval(r, lm)
            if t == T(i) and lo >= i + 1:
                return True
            if t == NONE and hi is not None and hi <= i:
                return True
        return False
    c, x, y = t[1], t[2], t[3]
    if x != T(i) or y != NONE:
        return False
    if c[0] == "cmp" and c[2][0] == "len" and is_const(c[3]):
        if c[2][1] in (A, PARAMS):
            return (c[1], c[3][1]) in ((">", i), (">=", i + 1), ("==", i + 1))
    # truthiness of args[i:]
    rest = (("slice", A, const(i), NONE), ("slice", PARAMS, const(i), NONE), ("map", ("text", IT), ("slice", A, const(i), NONE)))
    if c in rest or (c[0] in ("truthy", "nonempty") and c[1] in rest):
        return True
    # len(args[i:]) > 0
    if c[0] == "cmp" and c[2][0] == "len" and c[2][1] in rest and is_const(c[3]) and (c[1], c[3][1]) in ((">", 0), (">=", 1), ("!=", 0)):
        return True
    return False


# ----------------------------------------------------------------------
def _len_interval(r: Row, lm: ListenerModel):
    st = r.outcome.state
    nf = nf_for(lm, r)
    lo, hi = 0, None
    for x, iv in st.len_iv.items():
        n = nf.nf(x)
        if n in (A, ("map", ("text", IT), A)):
            lo = max(lo, iv[0])
            hi = iv[1] if hi is None else (hi if iv[1] is None else min(hi, iv[1]))
            continue
        # len(args[k:]) in [a, b]  =>  len(args) in [a + k, b + k]   (a >= 1; for a == 0 only the upper bound transfers)
        k = None
        if n[0] == "slice" and n[1] in (A, ("map", ("text", IT), A)) and is_const(n[2]) and isinstance(n[2][1], int) and n[2][1] >= 0 and n[3] == NONE:
            k = n[2][1]
        elif n[0] == "map" and n[2][0] == "slice" and n[2][1] == A and is_const(n[2][2]) and isinstance(n[2][2][1], int) and n[2][3] == NONE:
            k = n[2][2][1]
        if k is not None:
            if iv[0] >= 1:
                lo = max(lo, iv[0] + k)
            if iv[1] is not None:
                hi = iv[1] + k if hi is None else min(hi, iv[1] + k)
    PARAMS = ("map", ("text", IT), A)
    for a, v in r.outcome.conds:
        if a[0] in ("nonempty", "truthy"):
            n = nf.nf(a[1])
            k = None
            if n in (A, PARAMS):
                k = 0
            elif n[0] == "slice" and n[1] in (A, PARAMS) and is_const(n[2]) and isinstance(n[2][1], int) and n[2][1] >= 0 and n[3] == NONE:
                k = n[2][1]
            elif n[0] == "map" and n[2][0] == "slice" and n[2][1] == A and is_const(n[2][2]) and n[2][3] == NONE:
                k = n[2][2][1]
            if k is not None:
                if v:
                    lo = max(lo, k + 1)
                else:
                    hi = k if hi is None else min(hi, k)
    # comparisons of len(args[k:]) with a constant that an interval cannot hold by itself (!=): refine the bounds they touch
    for _ in range(2):
        for a, v in r.outcome.conds:
            if a[0] != "lencmp":
                continue
            n = nf.nf(a[1])
            k = None
            if n in (A, PARAMS):
                k = 0
            elif n[0] == "slice" and n[1] in (A, PARAMS) and is_const(n[2]) and isinstance(n[2][1], int) and n[2][1] >= 0 and n[3] == NONE:
                k = n[2][1]
            elif n[0] == "map" and n[2][0] == "slice" and n[2][1] == A and is_const(n[2][2]) and n[2][3] == NONE:
                k = n[2][2][1]
            if k is None or not isinstance(a[3], int):
                continue
            op, c = a[2], a[3] + k          # condition on len(args)
            if not v:
                op = {"==": "!=", "!=": "==", "<": ">=", "<=": ">", ">": "<=", ">=": "<"}.get(op, op)
            if op == "!=" and lo == c:
                lo = c + 1
            elif op == "!=" and hi is not None and hi == c:
                hi = c - 1
            elif op == "==":
                lo, hi = max(lo, c), c if hi is None else min(hi, c)
            elif op == ">=":
                lo = max(lo, c)
            elif op == ">":
                lo = max(lo, c + 1)
            elif op == "<=":
                hi = c if hi is None else min(hi, c)
            elif op == "<":
                hi = c - 1 if hi is None else min(hi, c - 1)
    return lo, hi


def rule_set_partition(rep: Report, repo: Repo, rule: str) -> None:
    """C10-R1."""
    rep.rule(rule, "set(): guard partition over the argument count: 1 arg -> UNSET/None, 2 -> STRING with the one value minus one "
                   "leading and one trailing quote, >=3 -> LIST with values joined by one space in order; name = arg0")
    lm = model(repo)
    covered = set()
    for r in good_rows(lm, "DOC", "set"):
        lo, hi = _len_interval(r, lm)
        nf = nf_for(lm, r)
        objs = entry_objects(lm, r)
        if len(objs) != 1:
            rep.bad(rule, WHERE + ".process_set", f"len(args) in [{lo},{hi}]", f"{len(objs)} entries created")
            continue
        cls, f = objs[0]
        typ = show(f["type"]).split(".")[-1]
        val = nf.nf(f["value"])
        case = f"len(args) in [{lo},{'inf' if hi is None else hi}] -> {typ}, value = {pretty(val)}"
        if hi is not None and hi <= 1 and lo >= 1:
            want = "UNSET"
        elif lo == 2 and hi == 2:
            want = "STRING"
        elif lo >= 3:
            want = "LIST"
        else:
            rep.bad(rule, WHERE + ".process_set", case,
                    f"argument counts {lo}..{'inf' if hi is None else hi} are handled by one branch: the type of the variable is wrong for some of them",
                    witness="set(V a) / set(V a b) / set(V)")
            continue
        covered.add(want)
        ok_t = typ == want
        rep.check(ok_t, rule, WHERE + ".process_set", case, f"a set() with {lo - 1} value(s) is classified {typ} instead of {want}",
                  witness={"UNSET": "set(V)", "STRING": "set(V a)", "LIST": "set(V a b)"}[want])
        check_field(rep, rule, "set", cls, "name", nf.nf(f["name"]), T(0), "variable name is the first argument", "set(NAME v)")
        if want == "UNSET":
            rep.check(val == NONE, rule, WHERE + ".process_set", case + " [value]", "an unset variable shows a value")
        elif want == "LIST":
            exp = ("join", const(" "), texts_from(1))
            rep.check(_same(val, exp), rule, WHERE + ".process_set", case + " [value]",
                      f"list value is `{pretty(val)}`; required: the values in order joined by single spaces", witness="set(V a b c)")
        else:
            V = T(1)
            c1 = c2 = None
            for a, v in r.outcome.conds:
                if a[0] == "cmp" and a[1] == "==" and a[3] == const('"'):
                    lhs = nf.nf(a[2])
                    if lhs == ("index", V, const(0)):
                        c1 = v
                    elif lhs[0] == "index" and lhs[2] == const(-1):
                        c2 = v
            if c1 is None or c2 is None:
                rep.bad(rule, WHERE + ".process_set", case + " [value]",
                        "the single value is not stripped of exactly one leading and one trailing double quote (guarded by the "
                        "character being a quote)", witness='set(V "text")  /  set(V text)')
            else:
                exp = V
                if c1:
                    exp = ("slice", exp, const(1), NONE)
                if c2:
                    exp = ("slice", exp, const(0), const(-1))
                rep.check(val == exp, rule, WHERE + ".process_set", case + f" [lead={c1}, trail={c2}]",
                          f"string value is `{pretty(val)}`, expected `{pretty(exp)}`", witness='set(V "a b")')
    for w in ("UNSET", "STRING", "LIST"):
        rep.check(w in covered, rule, WHERE + ".process_set", f"case {w} reachable", f"no argument count is classified as {w}")
    rep.floor(rule, 10, "set() cases")


def rule_option_binding(rep: Report, repo: Repo, rule: str) -> None:
    """C10-R3 (binding part)."""
    rep.rule(rule, "option(): name=arg0, help=arg1, default=arg2 iff three arguments else None, type 'bool'")
    lm = model(repo)
    for ev in ("DOC", "UNDOC"):
        for r in good_rows(lm, ev, "option"):
            nf = nf_for(lm, r)
            for cls, f in entry_objects(lm, r):
                w = "option(OPT \"help\" ON)"
                check_field(rep, rule, "option", cls, "name", nf.nf(f["name"]), T(0), "option name is the first argument", w)
                check_field(rep, rule, "option", cls, "help_text", nf.nf(f["help_text"]), T(1), "help text is the second argument", w)
                check_field(rep, rule, "option", cls, "type", nf.nf(f["type"]), const("bool"), "options are booleans", w)
                got = nf.nf(f["value"])
                rep.check(_is_optional_arg(got, 2, r, lm), rule, WHERE + ".process_option", f"{cls}.value = {pretty(got)}"[:110],
                          "the default must be the third argument when given and None (rendered OFF) otherwise", witness="option(OPT \"help\")")
                rep.check(cls == "OptionDocumentation", rule, WHERE + ".process_option", f"creates {cls}", "option() creates another entry kind")
    rep.floor(rule, 8, "option bindings")


# ----------------------------------------------------------------------
def _scan_info(r: Row, lm: ListenerModel, var_term) -> Optional[Dict[str, Any]]:
    """Describe a keyword-scan loop result: var_term is ('loopval', lid, name)."""
    if not (isinstance(var_term, tuple) and var_term and var_term[0] == "loopval"):
        return None
    st = r.outcome.state
    lp = st.loops.get(var_term[1])
    if lp is None:
        return None
    nf = nf_for(lm, r)
    lid = var_term[1]
    it = nf.nf(lp["iter"])
    PARAMS = ("map", ("text", IT), A)
    idx = ("idx",)
    # normalise loop variable
    mapping = {}
    if it in (("call", ("global", "range"), (const(0), ("len", PARAMS)), ()), ("call", ("global", "range"), (("len", PARAMS),), ())):
        mapping[("elem", lid, None)] = idx
    elif it == ("call", ("global", "enumerate"), (PARAMS,), ()):
        mapping[("elem", lid, 0)] = idx
        mapping[("elem", lid, 1)] = ("index", PARAMS, idx)
    elif it == PARAMS:
        mapping[("elem", lid, None)] = ("elemof", PARAMS)
    else:
        return {"iter": it, "unknown": True}

    def norm(t):
        t = nf.nf(t)
        for a, b in mapping.items():
            t = subst(t, a, b)
        # re-normalise index(map(text, A), idx) -> text(index(A, idx))
        return _renorm(t)

    assigns = []
    for oc in lp["outcomes"]:
        if var_term[2] in oc["assign"]:
            conds = [(norm(a) if a[0] not in ("exc", "loopexit") else a, v) for a, v in oc["conds"]]
            assigns.append((conds, norm(oc["assign"][var_term[2]]), oc["exit"]))
    return {"iter": it, "assigns": assigns, "init": lp["pre"].get(var_term[2])}


def _renorm(t):
    if isinstance(t, tuple) and t:
        t = tuple(_renorm(x) if isinstance(x, tuple) else x for x in t)
        if t[0] == "index" and isinstance(t[1], tuple) and t[1] and t[1][0] == "map":
            return subst(t[1][1], IT, ("index", t[1][2], t[2]))
    return t


def _kw_cond(kw: str):
    """upper(text(args[idx])) == kw"""
    return ("cmp", "==", ("call", ("attr", ("text", ("index", A, ("idx",))), "upper"), (), ()), const(kw))


def rule_test_bindings(rep: Report, repo: Repo, r_scan: str, r_filter: str) -> None:
    """C11-R1 (keyword scan) and C11-R3 (no value filter)."""
    rep.rule(r_scan, "ct_add_test/ct_add_section/add_test: name = the argument following the one that upper-cases to NAME; "
                     "expect_fail iff some argument upper-cases to EXPECTFAIL")
    rep.rule(r_filter, "add_test signature = all arguments except the NAME keyword and the name, excluded by position, in order")
    lm = model(repo)
    for ev in ("DOC", "UNDOC"):
        for k, cls in (("ct_add_test", "TestDocumentation"), ("ct_add_section", "SectionDocumentation"), ("add_test", "CTestDocumentation")):
            for r in good_rows(lm, ev, k):
                for c, f in entry_objects(lm, r):
                    rep.check(c == cls, r_scan, WHERE + ".process_" + k, f"{ev} {k} creates {c}", f"{k}() creates a {c} (wrong warning text / signature)")
                    info = _scan_info(r, lm, f.get("name"))
                    w = f"{k}(EXTRA x NAME the_name)"
                    decl = _declarative_name(nf_for(lm, r), r, f.get("name")) if info is None else None
                    if decl is not None:
                        ok, msg, K = decl
                        rep.check(ok, r_scan, WHERE + ".process_" + k, f"name <- {pretty(nf_for(lm, r).nf(f.get('name')))}"[:100], msg, witness=w)
                        if k == "add_test":
                            got = nf_for(lm, r).nf(f.get("params"))
                            PARAMS = ("map", ("text", IT), A)
                            if K is None:
                                ok3, msg3 = got == PARAMS, "without a NAME keyword the signature must be all arguments"
                            else:
                                want = ("concat", ("map", ("text", IT), ("slice", A, const(0), K)),
                                        ("map", ("text", IT), ("slice", A, ("concat", K, const(2)), NONE)))
                                ok3, msg3 = got == want, f"the signature is `{pretty(got)[:90]}`, expected the arguments before and after the NAME pair"
                                if not ok3:
                                    ok3, msg3 = _check_positional_filter(got, r, lm)
                            rep.check(ok3, r_filter, WHERE + ".process_add_test", f"params = {pretty(got)}"[:130], msg3,
                                      witness="add_test(NAME t COMMAND t --flag)  =>  t(COMMAND --flag)", key=f"{r_filter}|add_test-params")
                            continue
                        ef = f.get("expect_fail")
                        anyv = _any_keyword(nf_for(lm, r).nf(ef), "EXPECTFAIL") if ef is not None else None
                        if anyv is None:
                            raise AnalysisError(f"process_{k}: the EXPECTFAIL lookup is not a recognised keyword test")
                        rep.check(anyv[0], r_scan, WHERE + ".process_" + k, f"expect_fail <- {pretty(nf_for(lm, r).nf(ef))}"[:110], anyv[1],
                                  witness=f"{k}(EXPECTFAIL NAME t)")
                        continue
                    if info is None or info.get("unknown"):
                        fixed = nf_for(lm, r).nf(f.get("name"))
                        if isinstance(fixed, tuple) and fixed and fixed[0] == "text" and fixed[1][0] == "index" and fixed[1][1] == A \
                                and is_const(fixed[1][2]):
                            rep.bad(r_scan, WHERE + ".process_" + k, f"name <- {pretty(fixed)}",
                                    f"on some path the entry is named by the argument at the fixed position {fixed[1][2][1]}, not by the "
                                    f"argument following NAME", witness=f"{k}(WORKING_DIRECTORY d NAME the_name COMMAND c)")
                            continue
                        raise AnalysisError(f"process_{k}: the NAME lookup is not a recognised keyword scan over the arguments "
                                            f"({show(f.get('name'))[:60]})")
                    ok, msg = _check_scan(info, "NAME", ("text", ("index", A, ("concat", ("idx",), const(1)))))
                    rep.check(ok, r_scan, WHERE + ".process_" + k, f"name <- scan({pretty(info['iter'])})"[:100], msg, witness=w)
                    rep.check(info["init"] == const(""), r_scan, WHERE + ".process_" + k, "name initialised to ''", "name has a non-empty default")
                    if k != "add_test":
                        ef = f.get("expect_fail")
                        anyv = _any_keyword(nf_for(lm, r).nf(ef), "EXPECTFAIL") if ef is not None else None
                        if anyv is not None:
                            ok_any, msg_any = anyv
                            rep.check(ok_any, r_scan, WHERE + ".process_" + k, f"expect_fail <- {pretty(nf_for(lm, r).nf(ef))}"[:110], msg_any,
                                      witness=f"{k}(EXPECTFAIL NAME t)")
                            continue
                        info2 = _scan_info(r, lm, ef)
                        if info2 is None or info2.get("unknown"):
                            raise AnalysisError(f"process_{k}: the EXPECTFAIL lookup is not a recognised keyword scan")
                        ok2, msg2 = _check_scan(info2, "EXPECTFAIL", const(True))
                        rep.check(ok2, r_scan, WHERE + ".process_" + k, "expect_fail <- scan(EXPECTFAIL)", msg2,
                                  witness=f"{k}(NAME t EXPECTFAIL) / {k}(NAME t)")
                        rep.check(info2["init"] == const(False), r_scan, WHERE + ".process_" + k, "expect_fail initialised False",
                                  "tests are expected to fail by default")
                    else:
                        nf = nf_for(lm, r)
                        got = nf.nf(f.get("params"))
                        ok3, msg3 = _check_positional_filter(got, r, lm)
                        rep.check(ok3, r_filter, WHERE + ".process_add_test", f"params = {pretty(got)}"[:130], msg3,
                                  witness="add_test(NAME t COMMAND t --flag)  =>  t(COMMAND --flag)", key=f"{r_filter}|add_test-params")
    rep.floor(r_scan, 10, "keyword scans")
    rep.floor(r_filter, 1, "add_test signature")


def _kw_positions(t, kw: str) -> bool:
    """[i for i, p in enumerate(PARAMS) if p.upper() == KW]: the list of keyword positions."""
    PARAMS = ("map", ("text", IT), A)
    if not (t[0] == "comp" and t[1] == "list" and len(t[3]) == 1):
        return False
    var, it, conds = t[3][0]
    m = re.fullmatch(r"\((\w+), (\w+)\)", var) if isinstance(var, str) else None
    if not m or it != ("call", ("global", "enumerate"), (PARAMS,), ()) or t[2] != ("bv", m.group(1)) or len(conds) != 1:
        return False
    return conds[0] == ("cmp", "==", ("call", ("attr", ("bv", m.group(2)), "upper"), (), ()), const(kw))


def _kw_values(t, kw: str):
    """[v for c, v in zip(PARAMS, PARAMS[1:]) if c.upper() == KW]: the arguments that follow a keyword, in order.
    Returns None when the term is not of this family, else (ok, message)."""
    PARAMS = ("map", ("text", IT), A)
    if not (t[0] == "comp" and t[1] == "list" and len(t[3]) == 1):
        return None
    var, it, conds = t[3][0]
    m = re.fullmatch(r"\((\w+), (\w+)\)", var) if isinstance(var, str) else None
    if not m or not (it[0] == "call" and it[1] == ("global", "zip") and len(it[2]) == 2 and not it[3]) or len(conds) != 1:
        return None
    if conds[0] != ("cmp", "==", ("call", ("attr", ("bv", m.group(1)), "upper"), (), ()), const(kw)):
        return None
    first, second = it[2]
    shifted = ("map", ("text", IT), ("slice", A, const(1), NONE))
    if t[2] != ("bv", m.group(2)):
        return False, f"the collected value is not the argument paired with the {kw} keyword"
    if first == PARAMS and second == shifted:
        return True, ""
    return False, (f"the {kw} keyword and its value are paired as zip({pretty(first)[:40]}, {pretty(second)[:40]}): the value is not "
                   f"the argument directly following the keyword")


def _kw_position(t, kw: str) -> bool:
    """positions[-1] / positions[0]: which of several NAME keywords wins is not fixed by the property."""
    return t[0] == "index" and t[2] in (const(-1), const(0)) and _kw_positions(t[1], kw)


def _declarative_name(nf, r: Row, name_t, kw: str = "NAME"):
    """name = params[K + 1] with K a keyword position computed by comprehension (no scan loop); '' when there is none.
    Returns None when the term is not of this family, else (ok, message, K)."""
    t = nf.nf(name_t)
    if t[0] == "index" and t[2] in (const(-1), const(0)):
        kv = _kw_values(t[1], kw)
        if kv is not None:
            # name = values_after_keyword[-1]: K stays symbolic (only add_test needs the position, for its signature)
            return kv[0], kv[1], ("kwvalue",)
    if t[0] == "text" and t[1][0] == "index" and t[1][1] == A:
        i = t[1][2]
        if i[0] == "concat" and i[2] == const(1) and _kw_position(i[1], kw):
            return True, "", i[1]
        if _kw_position(i, kw):
            return False, f"the name is the {kw} keyword itself, not the argument following it", i
        return None
    if t == const(""):
        for a, v in r.outcome.conds:
            if a[0] == "nonempty" and (_kw_positions(nf.nf(a[1]), kw) or (_kw_values(nf.nf(a[1]), kw) or (False,))[0]):
                return (True, "", None) if not v else (False, f"the name stays '' although a {kw} keyword is present", None)
    return None


def _any_keyword(t, kw: str):
    """any(x.upper() == KW for x in XS)  /  KW in [x.upper() for x in XS]: (ok, message) or None if not of this shape.
    ok iff XS is the whole argument list."""
    PARAMS = ("map", ("text", IT), A)
    gen = None
    if t[0] == "call" and t[1] == ("global", "any") and len(t[2]) == 1:
        g = t[2][0]
        if g[0] == "map" and g[1][0] == "cmp" and g[1][1] == "==":
            lhs, rhs = g[1][2], g[1][3]
            if rhs == const(kw) and lhs[0] == "call" and lhs[1][0] == "attr" and lhs[1][2] == "upper":
                inner = lhs[1][1]
                xs = g[2]
                if inner == ("text", IT):
                    xs = ("map", ("text", IT), xs)
                elif inner != IT:
                    return None
                gen = xs
    if t[0] == "cmp" and t[1] == "in" and t[2] == const(kw) and t[3][0] == "map":
        m = t[3]
        if m[1][0] == "call" and m[1][1][0] == "attr" and m[1][1][2] == "upper":
            inner = m[1][1][1]
            gen = ("map", ("text", IT), m[2]) if inner == ("text", IT) else (m[2] if inner == IT else None)
    if gen is None:
        return None
    if gen == PARAMS:
        return True, ""
    return False, (f"{kw} is searched in `{pretty(gen)[:60]}`, not in all arguments: the keyword is missed when it stands at "
                   f"a position outside that subset")


def _check_scan(info, kw: str, want_val) -> Tuple[bool, str]:
    assigns = info["assigns"]
    if not assigns:
        return False, f"the {kw} keyword is never looked up"
    for conds, val, ex in assigns:
        if ex is not None and ex[0] in ("return", "raise"):
            continue
        rel = [(c, v) for c, v in conds if c[0] == "cmp"]
        match = [(c, v) for c, v in rel if c == _kw_cond(kw)]
        if not match:
            kws = [c for c, v in rel if c[0] == "cmp" and is_const(c[3]) and c[3][1] == kw]
            if kws:
                return False, (f"{kw} is compared as `{pretty(kws[0])}`: the keyword test is not 'argument upper-cases to {kw}' "
                               f"at the scanned position")
            if val == want_val or (is_const(want_val) and val == want_val):
                return False, f"assigned without testing for the {kw} keyword (conditions: {[pretty(c) for c, v in rel]})"
            continue
        if not match[0][1]:
            return False, f"assigned when the argument is NOT {kw}"
        if val != want_val:
            return False, f"on {kw} the value is `{pretty(val)}`, expected `{pretty(want_val)}`"
    hit = any(c == _kw_cond(kw) and v for conds, val, ex in assigns for c, v in conds)
    if not hit:
        return False, f"no assignment is guarded by 'argument upper-cases to {kw}'"
    return True, ""


def _check_positional_filter(got, r: Row, lm: ListenerModel) -> Tuple[bool, str]:
    """Accepts a filter over enumerate(params) / range(len(params)) that
    excludes by index; rejects filters that compare element *values*."""
    if got[0] == "filter-map":
        conds = got[3]
        txt = " ".join(pretty(c) for c in conds)
        by_value = any(_compares_value(c) for c in conds)
        if by_value:
            return False, (f"the signature is built by filtering the arguments by value ({txt}): every argument equal to the test "
                           f"name (or to 'NAME') disappears, not just the keyword pair")
        return True, ""
    if got[0] == "comp":
        # [p for i, p in enumerate(params) if i not in (...)]
        gens = got[3]
        if len(gens) == 1 and "enumerate" in pretty(gens[0][1]):
            conds = gens[0][2]
            if any(_compares_value(c, elem_names=("p", "param", "arg")) for c in conds):
                return False, "the signature is filtered by argument value"
            return True, ""
    if got[0] == "concat" or got[0] == "slice" or (got[0] == "map"):
        return True, ""
    return False, f"unrecognised construction of the add_test signature: {pretty(got)[:80]}"


def _compares_value(c, elem_names=()) -> bool:
    """cond of the form  it != <something>  /  it == <something>  (element value compared)."""
    if not isinstance(c, tuple) or not c:
        return False
    if c[0] in ("and", "or", "not"):
        return any(_compares_value(x, elem_names) for x in c[1:])
    if c[0] == "cmp" and c[1] in ("==", "!=", "in", "notin"):
        sides = (c[2], c[3])
        for s in sides:
            if s == IT or (isinstance(s, tuple) and s and s[0] == "bv" and (not elem_names or s[1] in elem_names) and s[1] not in ("i", "idx", "index", "n", "j")):
                return True
            if isinstance(s, tuple) and s and s[0] == "call" and s[1][0] == "attr" and s[1][1] == IT:
                return True
    return False


def rule_generic_binding(rep: Report, repo: Repo, rule: str) -> None:
    """C02-R6: a documented command without processor shows its name and its arguments as written and in order."""
    rep.rule(rule, "generic entries: name = the (case-folded) command name, params = the texts of the command's arguments, "
                   "unmodified, in list order (single arguments followed by parenthesised ones, or merged by source position "
                   "(line, column) / token index)")
    lm = model(repo)
    from ..listener import OTHER
    n = 0
    for r in good_rows(lm, "DOC", OTHER):
        nf = nf_for(lm, r)
        for cls, f in entry_objects(lm, r):
            n += 1
            rep.check(cls == "GenericCommandDocumentation", rule, WHERE + ".process_generic_command", f"creates {cls}", "a generic command creates another entry kind")
            name = f["name"]
            rep.check(name == const(OTHER), rule, WHERE + ".process_generic_command", f"name = {show(name)[:50]}",
                      "the generic entry is not named after the command")
            got = nf.nf(f["params"])
            both = ("concat", A, ("cargs",))
            ok = got == ("map", ("text", IT), both)
            why = f"generic arguments are `{pretty(got)[:90]}`"
            if not ok and got[0] == "map" and got[1] == ("text", IT):
                src = got[2]
                if src[0] == "call" and src[1] == ("global", "sorted") and src[2] and src[2][0] == both:
                    key = dict(src[3]).get("key")
                    ktxt = show(key) if key else ""
                    # accepted keys: (line, column) in that order, tokenIndex, start index
                    ok = bool(re.search(r"start\.line, \w+\.start\.column\)|start\.tokenIndex|getSourceInterval\(\)\[0\]|start\.start\b", ktxt))
                    why = f"arguments are sorted by `{ktxt[:70]}`, which is not their source order"
            rep.check(ok, rule, WHERE + ".process_generic_command", f"params = {pretty(got)[:100]}",
                      why + ": the entry does not show the arguments as written and in order",
                      witness="target_sources(mylib\n  PRIVATE src/a.cpp\n  PUBLIC include/mylib.h)")
    rep.floor(rule, 2, "generic bindings")


def rule_module_doc_verbatim(rep: Report, repo: Repo, rule: str) -> None:
    """The body of a module doccomment reaches the module entry line for line."""
    rep.rule(rule, "the module entry's doc is the cleaned module doccomment without its first line, re-joined with '\\n': no "
                   "per-line strip / filter / re-indentation")
    lm = model(repo)
    n = 0
    for r in lm.rows("MODULE", "-"):
        for cls, f in entry_objects(lm, r):
            d = f["doc"]
            n += 1
            ok = False
            whole = None
            if d[0] == "call" and d[1] == ("attr", const("\n"), "join") and len(d[2]) == 1:
                # "\n".join(X.split("\n")[1:])
                x = d[2][0]
                if x[0] == "slice" and x[2] == const(1) and x[3] == NONE and x[4] == NONE:
                    base = x[1]
                    if base[0] == "call" and base[1][0] == "attr" and base[1][2] == "split" and base[2] == (const("\n"),) and not base[3]:
                        whole = base[1][1]
            elif d[0] == "sub" and d[2] == const(2) and d[1][0] == "call" and d[1][1][0] == "attr" and d[1][1][2] == "partition" \
                    and d[1][2] == (const("\n"),):
                # X.partition("\n")[2]: the same string
                whole = d[1][1][1]
            if whole is not None:
                ok = "clean_doc_lines" in show(whole) and "Module_docstring().getText()" in show(whole)
            rep.check(ok, rule, WHERE + ".enterDocumented_module", f"module doc = {show(d)[:110]}",
                      "the body of the module doccomment is altered line by line (strip, filter, re-indent): relative indentation of "
                      "nested reST constructs is lost", witness="#[[[ @module m\n# .. note::\n#    body\n#]]")
    rep.floor(rule, 1, "module doc binding")

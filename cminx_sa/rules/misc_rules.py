"""Assorted structural rules: decode (C01-R1/C05-R1), doccomment cleaning
parameters (C01-R6/C04-R4), document order and module entry (C02-R3, C07-R3,
C12-R5), position independence and case folding (C04-R2/R3), sibling clone
diff (C11-R2), runtime pin (C05-R6)."""
from __future__ import annotations

import ast
import copy
import re
from typing import Any, Dict, List, Optional, Set, Tuple

from .. import roles
from ..absint import Evaluator, Outcome, SELF, NONE, attr, const, glob, is_const, show, contains
from ..core import AnalysisError, Report
from ..listener import model as listener_model
from ..model import HAND_WRITTEN, Repo, call_name, calls_in, norm, stmts_in, walk_no_nested, func_params

AGG = "cminx.aggregator"


# ----------------------------------------------------------------------
from .. import roles as _roles


def rule_decode(rep: Report, repo: Repo, rule: str) -> None:
    rep.rule(rule, "the character stream handed to the lexer is the input file decoded as UTF-8, unaltered: FileStream(file, "
                   "encoding='utf-8'), or InputStream(<text read from the file with encoding utf-8>) with no transformation in between")
    doc_cls = roles.documenter_class(repo)
    ci = repo.cls(doc_cls)
    where = f"cminx.documenter:{doc_cls}.__init__"
    init = ci.methods.get("__init__")
    lex_calls = [n for n in ast.walk(ci.node) if isinstance(n, ast.Call) and call_name(n).split(".")[-1] in _roles.recognizer_names(repo, "CMakeLexer")]
    if not lex_calls or init is None:
        raise AnalysisError("anchor vanished: Documenter does not construct CMakeLexer")
    n = 0
    for lc in lex_calls:
        if not lc.args:
            rep.bad(rule, where, norm(lc), "the lexer is created without an input stream")
            continue
        src = _resolve_stream(lc.args[0], init)
        n += 1
        if src is None:
            raise AnalysisError(f"cannot resolve the stream handed to CMakeLexer: {norm(lc.args[0])}")
        nm = call_name(src).split(".")[-1]
        if nm == "FileStream":
            enc = src.args[1] if len(src.args) > 1 else next((k.value for k in src.keywords if k.arg == "encoding"), None)
            ok = isinstance(enc, ast.Constant) and isinstance(enc.value, str) and enc.value.lower().replace("_", "-") in ("utf-8", "utf8", "utf-8-sig")
            rep.check(ok, rule, where, norm(src),
                      "FileStream falls back to the runtime's default encoding 'ascii': any non-ASCII byte in the file raises "
                      "UnicodeDecodeError", witness="# comment with an e-acute / a doc line containing a non-ASCII character",
                      key=f"{rule}|filestream-encoding")
        elif nm == "InputStream":
            arg = src.args[0] if src.args else None
            ok, why = _is_raw_file_text(arg, init)
            rep.check(ok, rule, where, norm(src)[:90],
                      f"the text handed to the lexer is not the file's content as decoded from UTF-8 ({why}): characters are added, "
                      f"removed or replaced before CMake's own token rules see them, so valid files are rejected or argument boundaries move",
                      witness="a line comment / string containing U+2028, form feed or a lone CR")
        else:
            rep.bad(rule, where, norm(src)[:80], f"the lexer reads from `{nm}`, which is not a decoded view of the input file")
    rep.floor(rule, 1, "input readers")


def _assignments(fn, target_text: str):
    out = []
    for n in walk_no_nested(fn):
        if isinstance(n, ast.Assign):
            for t in n.targets:
                if norm(t) == target_text:
                    out.append(n.value)
        elif isinstance(n, ast.AnnAssign) and n.value is not None and norm(n.target) == target_text:
            out.append(n.value)
        elif isinstance(n, ast.With):
            for it in n.items:
                if it.optional_vars is not None and norm(it.optional_vars) == target_text:
                    out.append(it.context_expr)
    return out


def _resolve_stream(e, fn, depth=0):
    if depth > 4:
        return None
    if isinstance(e, ast.Call) and call_name(e).split(".")[-1] in ("FileStream", "InputStream", "StdinStream"):
        return e
    if isinstance(e, (ast.Name, ast.Attribute)):
        defs = _assignments(fn, norm(e))
        if len(defs) == 1:
            return _resolve_stream(defs[0], fn, depth + 1)
    return None


def _utf8(call: ast.Call) -> bool:
    enc = next((k.value for k in call.keywords if k.arg == "encoding"), None)
    if enc is None and call_name(call) in ("open", "io.open", "codecs.open") and len(call.args) >= 4:
        enc = call.args[3]
    return isinstance(enc, ast.Constant) and str(enc.value).lower().replace("_", "-") in ("utf-8", "utf8", "utf-8-sig")


def _is_raw_file_text(e, fn, depth=0):
    """(True, '') if e evaluates to the unmodified text of the file read as UTF-8."""
    if e is None or depth > 4:
        return False, "no text"
    if isinstance(e, ast.Name):
        defs = _assignments(fn, e.id)
        if len(defs) != 1:
            return False, f"`{e.id}` has {len(defs)} definitions"
        return _is_raw_file_text(defs[0], fn, depth + 1)
    if isinstance(e, ast.Call) and isinstance(e.func, ast.Attribute):
        if e.func.attr == "read" and not e.args:
            recv = e.func.value
            if isinstance(recv, ast.Call) and call_name(recv) in ("open", "io.open", "codecs.open"):
                return (_utf8(recv), "the file is not opened with encoding='utf-8'")
            if isinstance(recv, ast.Name):
                defs = _assignments(fn, recv.id)
                if len(defs) == 1 and isinstance(defs[0], ast.Call) and call_name(defs[0]) in ("open", "io.open", "codecs.open"):
                    return (_utf8(defs[0]), "the file is not opened with encoding='utf-8'")
            return False, f"`{norm(recv)}` is not a UTF-8 file object"
        if e.func.attr == "read_text":
            return (_utf8(e), "read_text without encoding='utf-8'")
        if e.func.attr == "decode" and e.args and isinstance(e.args[0], ast.Constant) and str(e.args[0].value).lower().replace("_", "-") in ("utf-8", "utf8"):
            return True, ""
        return False, f"transformed by .{e.func.attr}(...)"
    if isinstance(e, (ast.BinOp, ast.JoinedStr)):
        return False, "text is concatenated / re-assembled"
    return False, f"unrecognised source `{norm(e)[:40]}`"


# ----------------------------------------------------------------------
ALNUM_WS = set("abcdefghijklmnopqrstuvwxyzABCDEFGHIJKLMNOPQRSTUVWXYZ0123456789 \t\r\n\f\v")


def _cleaner(repo: Repo):
    lm = listener_model(repo)
    r = repo.find_method(lm.cls, "clean_doc_lines")
    if r is None:
        raise AnalysisError("anchor vanished: the doccomment cleaning function (clean_doc_lines)")
    return lm, r[1]


def _chain(t, base) -> Optional[List[Tuple[str, Any]]]:
    """Decompose t into string operations applied to base (innermost first)."""
    ops: List[Tuple[str, Any]] = []
    while t != base:
        if t[0] == "slice":
            ops.append(("slice", (t[2], t[3], t[4])))
            t = t[1]
        elif t[0] == "call" and t[1][0] == "attr":
            ops.append((t[1][2], t[2]))
            t = t[1][1]
        elif t[0] == "sub":
            ops.append(("index", t[2]))
            t = t[1]
        elif t[0] == "call" and t[1][0] == "global" and len(t[2]) >= 1:
            ops.append((t[1][1], t[2][1:]))
            t = t[2][0]
        else:
            return None
    ops.reverse()
    return ops


def rule_clean_parameters(rep: Report, repo: Repo, rule: str, r_uniform: Optional[str] = None) -> None:
    rep.rule(rule, "doccomment cleaning, per line: one slice by the block indent (measured on the closing line only, counting "
                   "characters), one lstrip(C) with '#' in C and no letter/digit/whitespace in C, one drop of exactly one leading "
                   "space guarded by 'non-empty and first char is a space'; delimiters vanish through '[' / ']' in C or a right trim "
                   "of the last element only with charset within '#]'; a single leading newline of the joined text is dropped; "
                   "lines joined with '\\n' in order, none filtered")
    lm, fn = _cleaner(repo)
    where = f"{AGG}:{lm.cls}.clean_doc_lines"
    param = func_params(fn)[0] if func_params(fn) and func_params(fn)[0] not in ("self", "cls") else func_params(fn)[1]
    LINES = ("sym", param)
    ev = Evaluator(repo, AGG, lm.cls)
    from ..inline import comps_to_loops
    outs = ev.run_function(comps_to_loops(fn), {})
    rets = [o for o in outs if o.kind == "return"]
    if not rets:
        raise AnalysisError("clean_doc_lines has no returning path")
    # ---- joined value and the leading-newline drop
    seen_drop = {True: False, False: False}
    list_ref = None
    for o in rets:
        v = o.value()
        dropped = False
        if v[0] == "slice" and v[2] == const(1) and v[3] == NONE:
            dropped = True
            v = v[1]
        if not (v[0] == "call" and v[1] == ("attr", const("\n"), "join") and len(v[2]) == 1):
            rep.bad(rule, where, f"return {show(o.value())[:80]}",
                    "the cleaned lines are not joined with '\\n' (or the joined text is post-processed in an unrecognised way)",
                    witness="any multi-line doccomment")
            continue
        list_ref = v[2][0]
        cond = None
        for a, val in o.conds:
            if a[0] == "truthy" and a[1][0] == "call" and a[1][1][0] == "attr" and a[1][1][2] == "startswith" and a[1][2] == (const("\n"),):
                cond = val
        if dropped:
            rep.check(cond is True, rule, where, "joined[1:] guarded by startswith('\\n')",
                      "the first character of the cleaned text is dropped unconditionally", witness="doccomment without an opening line break")
        else:
            rep.check(cond in (False, None), rule, where, "joined text returned unchanged otherwise", "inconsistent leading-newline handling")
        seen_drop[dropped] = True
        # no other whole-text surgery
    o = rets[0]
    ob = o.state.obj(list_ref) if list_ref is not None else None
    if ob is None or ob.get("kind") != "list":
        raise AnalysisError("clean_doc_lines: the joined value is not a list built in the function")
    items = ob["items"]
    loop_ids = {it[1] for it in items if isinstance(it, tuple) and it[0] == "loopitem"}
    if len(loop_ids) != 1 or any(not (isinstance(it, tuple) and it[0] == "loopitem") for it in items):
        rep.bad(rule, where, f"list items {[show(i)[:40] for i in items]}", "cleaned lines are not produced by exactly one loop over the input lines")
        return
    lid = loop_ids.pop()
    lp = o.state.loops[lid]
    rep.check(lp["iter"] == LINES, rule, where, f"per-line loop iterates {show(lp['iter'])}",
              "the per-line loop does not iterate the input lines in order (sorted / reversed / filtered / sliced)",
              witness="doccomment whose lines are not in alphabetical order / with blank lines")
    ELEM = ("elem", lid, None)
    # every body path appends exactly once
    for oc in lp["outcomes"]:
        pushes = [e for e in oc["effects"] if e[0] == "push" and e[1] == list_ref]
        ok = len(pushes) == 1 and oc["exit"] is None
        rep.check(ok, rule, where, f"body path [{_conds(oc['conds'])[:70]}] appends {len(pushes)}x",
                  "a doc line can be dropped or duplicated (a path through the loop body does not append exactly one cleaned line)",
                  witness="doccomment with an empty line / a line starting with a space")
    # ---- per-line operation chain
    indent_terms = set()
    lstrip_sets = []
    for oc in lp["outcomes"]:
        pushes = [e for e in oc["effects"] if e[0] == "push" and e[1] == list_ref]
        if len(pushes) != 1:
            continue
        ops = _chain(pushes[0][2], ELEM)
        case = f"[{_conds(oc['conds'])[:60]}] {show(pushes[0][2])[:70]}"
        if ops is None:
            rep.bad(rule, where, case, "the cleaned line is not derived from the input line by string operations")
            continue
        names = [n for n, _a in ops]
        # 1. indent slice first
        ok_first = bool(ops) and ops[0][0] == "slice" and ops[0][1][1] == NONE and ops[0][1][2] == NONE
        rep.check(ok_first, rule, where, case + " [indent slice]", "the block indentation is not removed by one left slice before the leader is stripped")
        if ok_first:
            indent_terms.add(ops[0][1][0])
        # 2. exactly one lstrip with a constant charset
        ls = [a for n, a in ops if n == "lstrip"]
        ok_ls = len(ls) == 1 and len(ls[0]) == 1 and is_const(ls[0][0]) and isinstance(ls[0][0][1], str)
        rep.check(ok_ls, rule, where, case + " [lstrip]", "the '#' leader is not removed by exactly one lstrip with a constant character set",
                  witness="# text")
        if ok_ls:
            C = ls[0][0][1]
            lstrip_sets.append(C)
            bad_chars = sorted(set(C) & ALNUM_WS)
            rep.check("#" in C and not bad_chars, rule, where, case + f" [charset {C!r}]",
                      f"the left-strip character set {C!r} {'lacks #' if '#' not in C else 'contains ' + repr(''.join(bad_chars))}: "
                      f"{'leaders stay in the text' if '#' not in C else 'leading spaces/letters of the doc text are eaten, relative indentation is lost'}",
                      witness="#     indented code sample")
        # 3. optional single space drop
        drops = [a for n, a in ops[1:] if n == "slice"]
        space_true = any((c[0] == "cmp" and c[1] == "==" and c[3] == const(" ") and c[2][0] == "sub" and c[2][2] == const(0) and v) or
                         (c[0] == "truthy" and c[1][0] == "call" and c[1][1][0] == "attr" and c[1][1][2] == "startswith"
                          and c[1][2] == (const(" "),) and v)
                         for c, v in oc["conds"])
        nonempty_true = any(c[0] in ("truthy", "nonempty") and v or (c[0] == "lencmp" and v) for c, v in oc["conds"])
        if drops:
            ok_d = len(drops) == 1 and drops[0] == (const(1), NONE, NONE) and space_true
            rep.check(ok_d, rule, where, case + " [space drop]",
                      "more than one character is dropped after the leader, or the drop is not guarded by 'first character is a space'",
                      witness="#  two spaces  /  #text")
        else:
            rep.check(not space_true, rule, where, case + " [no drop]", "the optional single space is not removed although the guard holds")
            # ... and the only reasons for keeping the first character are "it is not a space" and "the line is empty"
            space_false = any(((c[0] == "cmp" and c[1] == "==" and c[3] == const(" ") and c[2][0] == "sub" and c[2][2] == const(0)) or
                               (c[0] == "truthy" and c[1][0] == "call" and c[1][1][0] == "attr" and c[1][1][2] == "startswith"
                                and c[1][2] == (const(" "),))) and not v for c, v in oc["conds"])
            empty = any((c[0] in ("truthy", "nonempty") and not v and not (c[1][0] == "call" and c[1][1][0] == "attr"
                                                                          and c[1][1][2] == "startswith"))
                        or (c[0] == "lencmp" and not v) for c, v in oc["conds"])
            rep.check(space_false or empty, rule, where, case + " [kept first character is no space]",
                      "a line keeps its first character although nothing established that it is not the optional space: the space is "
                      "removed from some lines only (depending on something else than the line's first character), which shifts those "
                      "lines against the others and against the generated note / field lines of the entry",
                      witness="a doccomment body written without '#' leaders, each line starting with one blank")
        # 4. nothing else
        extra = [n for n in names if n not in ("slice", "lstrip")]
        rep.check(not extra, rule, where, case + " [no other surgery]",
                  f"additional per-line operations {extra} alter the text (trailing spaces, inner characters or case are not preserved)",
                  witness="line with trailing spaces / tabs")
    # indent term: one and the same for all lines, computed from the closing line only
    uni_rule = r_uniform or rule
    if r_uniform:
        rep.rule(r_uniform, "the indent removed is the same bound for every line, measured on the closing line, counting characters")
    rep.check(len(indent_terms) == 1, uni_rule, where, f"indent bound(s): {[show(t) for t in indent_terms]}",
              "different lines are sliced by different bounds: relative indentation is not preserved")
    for t in indent_terms:
        ok, why = _indent_from_closing_line(t, o, LINES)
        rep.check(ok, uni_rule, where, f"indent = {show(t)[:60]}", why, witness="doccomment block indented by tabs / by 6 spaces with nested indentation")
    # ---- closing delimiter
    rtrim = [e for e in o.effects if e[0] == "storeidx" and e[1] == list_ref]
    closer_ok = any("]" in C for C in lstrip_sets)
    for e in rtrim:
        idx, val = e[2], e[3]
        ops = _chain(val, ("sub", list_ref, const(-1)))
        ok = idx == const(-1) and ops is not None and len(ops) == 1 and ops[0][0] == "rstrip" and len(ops[0][1]) == 1 \
            and is_const(ops[0][1][0]) and set(ops[0][1][0][1]) <= set("#]")
        rep.check(ok, rule, where, f"lines[{show(idx)}] = {show(val)[:60]}",
                  "the right trim is applied to a line other than the last, or strips characters other than '#' and ']': doc text is truncated",
                  witness="doc line ending in ']' or '#' / last line ending in punctuation")
        closer_ok = closer_ok or ok
    other_edits = [e for e in o.effects if e[0] in ("remove", "popidx", "delidx", "delslice", "mutcall", "insert", "storeslice")
                   and e[1] == list_ref]
    rep.check(not other_edits, rule, where, "no element removed / reordered after the loop",
              f"the cleaned line list is edited after the loop: {[e[0] for e in other_edits]}")
    rep.check(closer_ok, rule, where, "closing '#]]' vanishes", "the closing delimiter line is not reduced to the empty string")
    rep.check(any("[" in C for C in lstrip_sets), rule, where, "opening '#[[[' vanishes ('[' in lstrip set)",
              "the opening delimiter is not reduced to the empty string")
    rep.check(seen_drop[True] and seen_drop[False], rule, where, "leading newline of the joined text dropped iff present",
              "the empty first line left by the opening delimiter is not removed (or always removed)")
    rep.floor(rule, 12, "cleaning operations")


def _conds(cs) -> str:
    from ..absint import show_atom
    return " & ".join(("" if v else "not ") + show_atom(a) for a, v in cs)


def _indent_from_closing_line(t, o: Outcome, LINES) -> Tuple[bool, str]:
    last = ("sub", LINES, const(-1))
    if t[0] == "loopval":
        lp = o.state.loops.get(t[1])
        if lp is None:
            return False, "indent value not understood"
        it = lp["iter"]
        ok_it = it in (("call", glob("range"), (const(0), ("call", glob("len"), (last,), ())), ()),
                       ("call", glob("range"), (("call", glob("len"), (last,), ()),), ()), last)
        if not ok_it:
            return False, f"the indent is measured on `{show(it)[:50]}`, not on the closing line only"
        # body: count while char != '#'
        incs = 0
        for oc in lp["outcomes"]:
            a = oc["assign"].get(t[2])
            if a is not None:
                if not (a[0] == "binop" and a[1] == "+" and a[3] == const(1) and a[2] == ("carried", t[1], t[2])):
                    return False, "the indent counter is not incremented by one per character"
                cond_ok = any(c[0] == "cmp" and c[1] == "==" and c[3] == const("#") and not v for c, v in oc["conds"])
                if not cond_ok:
                    return False, "the indent counter does not count characters up to the first '#' (tabs and spaces alike)"
                incs += 1
            elif oc["exit"] is None or oc["exit"][0] != "break":
                return False, "the indent scan does not stop at the first '#'"
        return incs == 1, "indent scan shape not recognised" if incs != 1 else ""
    if t[0] == "call" and t[1][0] == "attr" and t[1][1] == last and t[1][2] in ("index", "find") and t[2] == (const("#"),):
        return True, ""
    # len(last.partition('#')[0]) / len(last.split('#', 1)[0]): the characters in front of the first '#', the whole line if none
    if t[0] == "call" and t[1] == glob("len") and len(t[2]) == 1 and t[2][0][0] == "sub" and t[2][0][2] == const(0):
        c = t[2][0][1]
        if c[0] == "call" and c[1][0] == "attr" and c[1][1] == last and \
                ((c[1][2] == "partition" and c[2] == (const("#"),)) or (c[1][2] == "split" and c[2] == (const("#"), const(1)))):
            return True, ""
    if t[0] == "binop" and t[1] == "-" and t[2] == ("call", glob("len"), (last,), ()):
        r = t[3]
        if r[0] == "call" and r[1] == glob("len") and r[2][0][0] == "call" and r[2][0][1] == ("attr", last, "lstrip"):
            la = r[2][0][2]
            if not la or (len(la) == 1 and is_const(la[0]) and isinstance(la[0][1], str) and " " in la[0][1] and "\t" in la[0][1]
                          and "#" not in la[0][1]):
                return True, ""
            return False, (f"the indent is measured by lstrip({show(la[0]) if la else ''}), which does not count every whitespace "
                           f"character: a block indented with tabs is not un-indented")
    return False, f"the indent value `{show(t)[:50]}` is not derived from the closing line only"


# ----------------------------------------------------------------------
def _is_module_flag(o: Outcome, lv, DOCS) -> bool:
    """('loopval', lid, var): a flag that starts False and is set True exactly on the elements of the entry list that are
    module doccomments - 'the file has a module doccomment'."""
    lp = o.state.loops.get(lv[1])
    if lp is None or lp["iter"] != DOCS or lp["pre"].get(lv[2]) != const(False):
        return False
    is_mod = ("isinstance", ("elem", lv[1], None), "ModuleDocumentation")
    some = False
    for oc in lp["outcomes"]:
        conds = [(c, v) for c, v in oc["conds"]]
        sets = lv[2] in oc["assign"]
        if sets and oc["assign"][lv[2]] != const(True):
            return False
        if sets != ((is_mod, True) in conds):
            return False
        some = some or sets
    return some


def rule_document_order(rep: Report, repo: Repo, r_order: str, r_module: Optional[str] = None) -> None:
    rep.rule(r_order, "Documenter.process_docs renders the entry list front to back on the top-level writer, after inserting a "
                      "default module entry at index 0 only when none exists; no sort/reverse/filter on the way; process() hands it "
                      "the aggregator's entry list")
    doc_cls = roles.documenter_class(repo)
    ci = repo.cls(doc_cls)
    fn = ci.methods.get("process_docs")
    if fn is None:
        raise AnalysisError("anchor vanished: Documenter.process_docs")
    where = f"cminx.documenter:{doc_cls}.process_docs"
    docs_p = func_params(fn)[1]
    DOCS = ("sym", docs_p)
    API = ("process",)
    ev = Evaluator(repo, "cminx.documenter", doc_cls, effect_methods=API)
    outs = ev.run_function(fn, {"self": SELF})
    mrule = r_module or r_order
    if r_module:
        rep.rule(r_module, "exactly one insertion point for the default module entry (name = the module name given to the "
                           "Documenter, empty doc), at index 0, only when the file has no module doccomment; a named module doccomment "
                           "overrides the page title, an unnamed one takes the default module name")
    for o in outs:
        has_mod = None
        for a, v in o.conds:
            if a[0] == "nonempty" and "ModuleDocumentation" in show(a[1]):
                has_mod = v
            elif a[0] == "truthy" and a[1][0] == "loopval" and _is_module_flag(o, a[1], DOCS):
                has_mod = v
        ins = [e for e in o.effects if e[0] == "insert" and e[1] == DOCS]
        other_mut = [e for e in o.effects if e[0] in ("push", "remove", "pop", "popidx", "mutcall", "extend", "delidx", "storeidx",
                                                      "storeslice", "delslice") and e[1] == DOCS]
        case = f"module entry present={has_mod}: inserts={len(ins)}"
        if has_mod is None:
            rep.bad(mrule, where, case, "the default module entry does not depend on whether the file already has a module doccomment")
            continue
        if has_mod:
            rep.check(not ins, mrule, where, case, "a second module directive is inserted although the file has a module doccomment",
                      witness="file starting with #[[[ @module name #]]")
        else:
            ok = len(ins) == 1 and ins[0][2] == const(0)
            obj = o.state.obj(ins[0][3]) if ins else None
            ok = ok and obj is not None and obj.get("cls") == "ModuleDocumentation" and \
                obj["fields"].get("name") == attr(SELF, "module_name") and obj["fields"].get("doc") in (const(""), NONE)
            rep.check(ok, mrule, where, case + (f" {show(ins[0][2])}" if ins else ""),
                      "without a module doccomment the page does not get exactly one default module entry named after the module, first in the list",
                      witness="file without @module doccomment")
        rep.check(not other_mut, r_order, where, f"no other mutation of the entry list [{case}]",
                  f"the entry list is modified before rendering: {[e[0] for e in other_mut]}")
        # rendering loop
        loops = [e[1] for e in o.effects if e[0] == "loop"]
        rend = []
        for lid in loops:
            lp = o.state.loops[lid]
            for oc in lp["outcomes"]:
                for e in oc["effects"]:
                    if e[0] == "emit" and e[1][2][2] == "process":
                        rend.append((lp, oc, e[1]))
        ok = len(rend) == 1 and rend[0][0]["iter"] == DOCS and not rend[0][1]["conds"] and \
            rend[0][2][2][1][0] == "elem" and rend[0][2][3] == (attr(SELF, "writer"),)
        rep.check(ok, r_order, where, f"render loop: {[show(r[0]['iter']) for r in rend]}",
                  "entries are not rendered exactly once each, in list order, on the Documenter's top-level writer "
                  "(sorted / filtered / reversed iteration, conditional rendering or another writer)",
                  witness="module with a function, a variable and a class in that order")
        # render loop comes after the insertion
        if ins and rend:
            rep.check(o.effects.index(ins[0]) < o.effects.index(("loop", [l for l in loops if o.state.loops[l] is rend[0][0]][0])), r_order, where,
                      "module entry inserted before rendering", "the module entry is inserted after the entries were rendered")
    # title override in the module loop (C12-R5): judged on the loop summary, not on the text of the guard
    title_paths, default_paths, both = 0, 0, 0
    seen_loop = False
    for o in outs:
        for e in o.effects:
            if e[0] != "loop":
                continue
            lp = o.state.loops[e[1]]
            filtered_iter = "ModuleDocumentation" in show(lp["iter"])
            is_mod = ("isinstance", ("elem", e[1], None), "ModuleDocumentation")
            touches = [oc for oc in lp["outcomes"] if any(x[0] == "store" and x[2] in ("title", "name") for x in oc["effects"])]
            if not filtered_iter and not (lp["iter"] == DOCS and touches):
                continue
            seen_loop = True
            elem_name = ("attr", ("elem", e[1], None), "name")
            for oc in lp["outcomes"]:
                if not filtered_iter and (is_mod, True) not in [(c, v) for c, v in oc["conds"]]:
                    # an element that is not a module doccomment must not touch the title or a name
                    if oc in touches:
                        both += 1
                    continue
                sets_title = any(x[0] == "store" and x[1] == attr(SELF, "writer") and x[2] == "title" and x[3] == elem_name for x in oc["effects"])
                other_title = any(x[0] == "store" and x[2] == "title" and x[3] != elem_name for x in oc["effects"])
                sets_default = any(x[0] == "store" and x[1] == ("elem", e[1], None) and x[2] == "name" and x[3] == attr(SELF, "module_name")
                                   for x in oc["effects"])
                depends = any(contains(c, elem_name) for c, _v in oc["conds"])
                # deferred form: the loop only remembers the name (`explicit = doc.name` on the named path, None before the loop),
                # and the title is set once after the loop from the remembered value
                if not sets_title and depends:
                    for var_, val_ in oc["assign"].items():
                        if val_ == elem_name and lp["pre"].get(var_) == NONE:
                            tag = f"loopval#{e[1]}({var_})"
                            later = [x for x in o.effects if x[0] == "store" and x[1] == attr(SELF, "writer") and x[2] == "title"
                                     and show(x[3]) == tag]
                            if later:
                                sets_title = True
                if other_title:
                    both += 1
                if sets_title and sets_default:
                    both += 1
                if sets_title and depends:
                    title_paths += 1
                elif sets_title:
                    both += 1
                if sets_default and depends:
                    default_paths += 1
        if seen_loop:
            break           # the module loop is the same on every path that has one
    rep.check(seen_loop and title_paths >= 1 and both == 0, mrule, where, f"named module doccomment -> writer.title ({title_paths} path(s))",
              "a named module doccomment does not become the page title exactly when it carries a name (or something else is written to the title)",
              witness="#[[[ @module my.name #]]")
    rep.check(seen_loop and default_paths >= 1, mrule, where, f"unnamed module doccomment -> self.module_name ({default_paths} path(s))",
              "an '@module' doccomment without a name does not fall back to the path-derived module name")
    # process(): passes the aggregator's list
    pfn = ci.methods.get("process")
    ok_p = False
    from .fsrules import resolve_locals
    for c in calls_in(pfn):
        if call_name(c) == "self.process_docs" and c.args:
            lm = listener_model(repo)
            ok_p = norm(resolve_locals(c.args[0], pfn)) == f"self.aggregator.{lm.roles['entries']}"
    # ... unconditionally: an empty entry list still gets its module directive
    from ..model import guards_of
    for c in calls_in(pfn):
        if call_name(c) == "self.process_docs":
            gs = guards_of(pfn, c, repo.module("cminx.documenter").parents)
            cond = [norm(g.test) for g in gs if "documented" in norm(g.test) or "len(" in norm(g.test)]
            rep.check(not cond, r_order, f"cminx.documenter:{doc_cls}.process", "process_docs(...) is unconditional",
                      f"the entries are only rendered when `{cond[0][:50] if cond else ''}`: a file without documentable commands gets a "
                      f"page without module directive", witness="a file containing only comments and message() calls")
    rep.check(ok_p, r_order, f"cminx.documenter:{doc_cls}.process", "process_docs(self.aggregator.<entries>)",
              "process() renders something other than the listener's entry list (copy sorted/filtered on the way)")
    # the walker walks with the aggregator
    ok_w = any(call_name(c).endswith(".walk") and c.args and norm(resolve_locals(c.args[0], pfn)) == "self.aggregator" for c in calls_in(pfn))
    rep.check(ok_w, r_order, f"cminx.documenter:{doc_cls}.process", "walker.walk(self.aggregator, tree)", "the tree is not walked with the aggregator")
    rep.floor(r_order, 6, "document order facts")
    if r_module:
        rep.floor(r_module, 4, "module entry facts")


def rule_writer_first_element(rep: Report, repo: Repo, rule: str) -> None:
    """C07-R3 (writer part): element 0 is the heading; the writer of the
    Documenter is built from the title."""
    rep.rule(rule, "the writer's first element is the heading built from the title; entries are rendered as siblings on that writer")
    w = repo.cls("RSTWriter")
    init = w.methods["__init__"]
    doc_init = [norm(n.value) for n in walk_no_nested(init) if isinstance(n, (ast.Assign, ast.AnnAssign))
                and norm(n.targets[0] if isinstance(n, ast.Assign) else n.target) == "self.document"]
    rep.check(doc_init == ["[self.build_heading()]"], rule, "cminx.rstwriter:RSTWriter.__init__", f"self.document = {doc_init}",
              "the document does not start with exactly the heading")
    doc_cls = roles.documenter_class(repo)
    dinit = repo.cls(doc_cls).methods["__init__"]
    title_param = func_params(dinit)[2] if len(func_params(dinit)) > 2 else "title"      # (self, file, title, ...)
    ok = any(isinstance(n, (ast.Assign, ast.AnnAssign)) and norm(n.targets[0] if isinstance(n, ast.Assign) else n.target) == "self.writer"
             and isinstance(n.value, ast.Call) and call_name(n.value) == "RSTWriter" and n.value.args and norm(n.value.args[0]) == title_param
             for n in walk_no_nested(dinit))
    rep.check(ok, rule, f"cminx.documenter:{doc_cls}.__init__", "self.writer = RSTWriter(title, ...)", "the page writer is not created from the title")
    # RSTWriter.to_text emits the document elements in list order, one per line block
    fn = w.methods["to_text"]
    ev = Evaluator(repo, "cminx.rstwriter", "RSTWriter")
    outs = ev.run_function(fn, {"self": SELF})
    okt = False
    desc = ""
    from .writer_rules import string_parts, IT as _IT
    for o in outs:
        if o.kind == "return":
            v = o.value()
            desc = show(v).replace("\n", "\\n")
            parts = [p for p in string_parts(v, o) if p != const("")]
            okt = parts == [("each", attr(SELF, "document"), [_IT, const("\n")])]
    rep.check(okt, rule, "cminx.rstwriter:RSTWriter.to_text", desc[:80],
              "the page text is not the document elements in order, each followed by a newline")
    rep.floor(rule, 3, "document structure facts")


# ----------------------------------------------------------------------
POS_ATTRS = {"line", "column", "start", "stop", "tokenIndex", "symbol", "charPositionInLine"}
POS_CALLS = {"getSourceInterval", "getSymbol", "getTokens", "getPayload", "getTokenSource", "getInputStream", "getStart", "getStop"}


def rule_position_independence(rep: Report, repo: Repo, rule: str) -> None:
    rep.rule(rule, "token/context positions (.line, .column, .start, .stop, .tokenIndex, source intervals) reach only logging calls "
                   "and exception constructors, never an entry constructor or a writer call")
    n = 0
    for mod in ("cminx.aggregator", "cminx.documenter", "cminx.documentation_types"):
        mm = repo.module(mod)
        for q, fn in repo.functions(mod):
            # locals holding positions
            pos_locals: Set[str] = set()
            for _round in range(6):             # transitively: a local computed from a position (or from such a local)
                before = len(pos_locals)
                for node in walk_no_nested(fn):
                    if isinstance(node, (ast.Assign, ast.AugAssign, ast.AnnAssign)) and node.value is not None and \
                            (_has_pos(node.value) or _reads_pos_local(node.value, pos_locals)):
                        for t in (node.targets if isinstance(node, ast.Assign) else [node.target]):
                            if isinstance(t, ast.Name):
                                pos_locals.add(t.id)
                if len(pos_locals) == before:
                    break
            for node in walk_no_nested(fn):
                is_pos = _is_pos_node(node, mm.parents.get(node)) or \
                    (isinstance(node, ast.Name) and node.id in pos_locals and isinstance(node.ctx, ast.Load)
                     and not (isinstance(mm.parents.get(node), ast.Attribute) and mm.parents.get(node).attr in TOKEN_CONTENT))
                if not is_pos:
                    continue
                # walk up: must be within logging call / exception ctor / raise / assignment to pos local
                ok = False
                p = node
                while p is not None and p is not fn:
                    par = mm.parents.get(p)
                    if isinstance(par, ast.Call):
                        nm = call_name(par)
                        short = nm.split(".")[-1]
                        if "logger" in nm or "logging" in nm or short.endswith("Exception") or short.endswith("Error"):
                            ok = True
                            break
                    if isinstance(par, ast.Raise):
                        ok = True
                        break
                    if isinstance(par, ast.Assign) and all(isinstance(t, ast.Name) for t in par.targets):
                        ok = True       # its uses are checked through pos_locals
                        break
                    if isinstance(par, ast.Attribute) and par.attr in POS_ATTRS and _is_pos_node(par, mm.parents.get(par)):
                        # inner part of ctx.start.line: judged at the outermost attribute
                        ok = True
                        break
                    p = par
                n += 1
                rep.check(ok, rule, f"{mod}:{q}", norm(node)[:60],
                          "a source position flows into the documentation: re-indenting or adding blank lines changes the output",
                          witness="the same module with an extra blank line at the top")
    rep.floor(rule, 1, "position uses")


TOKEN_CONTENT = {"text", "type", "channel", "getText"}


def _token_valued(node) -> bool:
    """ctx.start / ctx.stop / <terminal>.symbol / getSymbol() / getStart() ...: a token object (position and text)."""
    if isinstance(node, ast.Attribute) and node.attr in ("start", "stop", "symbol"):
        base = norm(node.value)
        return node.attr == "symbol" or "ctx" in base or "token" in base.lower() or base.endswith(")") or \
            not isinstance(node.value, ast.Attribute)
    return isinstance(node, ast.Call) and isinstance(node.func, ast.Attribute) and \
        node.func.attr in ("getSymbol", "getStart", "getStop", "getPayload")


def _is_pos_node(node, parent=None) -> bool:
    if isinstance(node, ast.Attribute) and node.attr in ("line", "column", "tokenIndex", "charPositionInLine"):
        return True            # whatever the token / context is called
    if isinstance(node, ast.Attribute) and node.attr in ("start", "stop") and _token_valued(node.value):
        return True            # token.start / token.stop: character offsets
    if _token_valued(node):
        # a token object: only its text / type may be used without carrying the position along
        return not (isinstance(parent, ast.Attribute) and parent.value is node and
                    (parent.attr in TOKEN_CONTENT or parent.attr in POS_ATTRS))
    if isinstance(node, ast.Call) and isinstance(node.func, ast.Attribute) and node.func.attr in POS_CALLS \
            and node.func.attr not in ("getSymbol", "getStart", "getStop", "getPayload"):
        return True
    return False


def _reads_pos_local(e, pos_locals) -> bool:
    """a load of a position-carrying local, other than reading the text / type of a token held in it"""
    if isinstance(e, ast.Name) and e.id in pos_locals:
        return True
    for par in ast.walk(e):
        for ch in ast.iter_child_nodes(par):
            if isinstance(ch, ast.Name) and ch.id in pos_locals and isinstance(ch.ctx, ast.Load) \
                    and not (isinstance(par, ast.Attribute) and par.attr in TOKEN_CONTENT):
                return True
    return False


def _has_pos(e) -> bool:
    for par in ast.walk(e):
        for ch in ast.iter_child_nodes(par):
            if _is_pos_node(ch, par):
                return True
    return _is_pos_node(e, None)


def rule_case_folding(rep: Report, repo: Repo, rule: str) -> None:
    rep.rule(rule, "every value obtained from the command's Identifier().getText() passes .lower()/.casefold() before it is "
                   "compared, formatted into a dispatch name or stored; command literals compared with it are lower-case")
    lm = listener_model(repo)
    mm = repo.module(AGG)
    ci = repo.cls(lm.cls)
    n = 0
    for mname, fn in ci.methods.items():
        for node in walk_no_nested(fn):
            if isinstance(node, ast.Call) and isinstance(node.func, ast.Attribute) and node.func.attr == "Identifier":
                n += 1
                p1 = mm.parents.get(node)            # .getText attribute
                p2 = mm.parents.get(p1) if p1 is not None else None   # call
                p3 = mm.parents.get(p2) if p2 is not None else None   # .lower attribute
                p4 = mm.parents.get(p3) if p3 is not None else None   # call
                ok = isinstance(p1, ast.Attribute) and p1.attr == "getText" and isinstance(p2, ast.Call) and \
                    isinstance(p3, ast.Attribute) and p3.attr in ("lower", "casefold") and isinstance(p4, ast.Call)
                rep.check(ok, rule, f"{AGG}:{lm.cls}.{mname}", norm(p4 if ok else (p2 if isinstance(p2, ast.Call) else node))[:70],
                          "the command name is used without case folding: FUNCTION(), Cpp_Class() or ENDFUNCTION() are not recognised",
                          witness="FUNCTION(f)\\nENDFUNCTION()")
        # literals compared with the folded name
        for node in walk_no_nested(fn):
            if isinstance(node, ast.Compare) and isinstance(node.left, ast.Name) and node.left.id == "command":
                for comp in node.comparators:
                    lits = [comp] if isinstance(comp, ast.Constant) else (list(comp.elts) if isinstance(comp, (ast.Tuple, ast.List, ast.Set)) else [])
                    for l in lits:
                        if isinstance(l, ast.Constant) and isinstance(l.value, str):
                            rep.check(l.value == l.value.lower(), rule, f"{AGG}:{lm.cls}.{mname}", f"command == {l.value!r}",
                                      "a command literal with upper-case letters can never equal the lower-cased command name")
    rep.floor(rule, 2, "command-name reads")


# ----------------------------------------------------------------------
class _Alpha(ast.NodeTransformer):
    def __init__(self):
        self.names: Dict[str, str] = {}

    def visit_Name(self, node):
        if node.id not in self.names:
            self.names[node.id] = f"v{len(self.names)}"
        return ast.copy_location(ast.Name(id=self.names[node.id], ctx=node.ctx), node)

    def visit_Constant(self, node):
        if isinstance(node.value, str):
            low = node.value
            if low in ("NAME", "EXPECTFAIL", ""):
                return node
            return ast.copy_location(ast.Constant(value="S"), node)
        return node

    def visit_JoinedStr(self, node):
        return ast.copy_location(ast.Constant(value="S"), node)


def _alpha_dump(stmts: List[ast.stmt], rename_ctor: Dict[str, str]) -> str:
    mod = ast.Module(body=copy.deepcopy(stmts), type_ignores=[])
    for n in ast.walk(mod):
        if isinstance(n, ast.Name) and n.id in rename_ctor:
            n.id = rename_ctor[n.id]
    a = _Alpha()
    mod = a.visit(mod)
    return ast.dump(mod, annotate_fields=False)


def rule_siblings_agree(rep: Report, repo: Repo, rule: str) -> None:
    """C11-R2, as built: the comparison is made on the *evaluated* keyword scans (normal forms of what name / expect_fail
    are bound to), not on the syntax of the processors, so that refactoring one sibling alone stays silent."""
    rep.rule(rule, "the three test processors bind `name` to the same normalised NAME scan, and the two CMakeTest processors bind "
                   "`expect_fail` to the same normalised EXPECTFAIL scan (compared on evaluated terms, not on syntax)")
    from .bindings import _scan_info, entry_objects, good_rows, nf_for, _any_keyword
    lm = listener_model(repo)
    desc = {}
    for k in ("ct_add_test", "ct_add_section", "add_test"):
        for r in good_rows(lm, "DOC", k):
            for c, f in entry_objects(lm, r):
                d = {}
                for fld in ("name", "expect_fail"):
                    v = f.get(fld)
                    if v is None or (isinstance(v, tuple) and v and v[0] == "unknown"):
                        continue
                    info = _scan_info(r, lm, v)
                    if info is not None and not info.get("unknown"):
                        # keep only the guarded assignments that matter: (conditions that are comparisons, value)
                        norm_assigns = sorted(repr((sorted(repr((cc, vv)) for cc, vv in conds if cc[0] == "cmp" and "NAME" in repr(cc) or "EXPECTFAIL" in repr(cc)), val))
                                              for conds, val, ex in info["assigns"] if not (ex and ex[0] in ("return", "raise")))
                        d[fld] = ("scan", repr(info["iter"]), tuple(norm_assigns))
                    else:
                        nfv = nf_for(lm, r).nf(v)
                        d[fld] = ("term", repr(nfv))
                desc.setdefault(k, d)
    a, b, c = desc.get("ct_add_test"), desc.get("ct_add_section"), desc.get("add_test")
    if not (a and b and c):
        raise AnalysisError("anchor vanished: test processors produce no entries")
    rep.check(a.get("name") == b.get("name") and a.get("expect_fail") == b.get("expect_fail"), rule, f"{AGG}:{lm.cls}",
              "ct_add_test ~ ct_add_section (evaluated NAME / EXPECTFAIL scans)",
              "tests and sections read NAME or EXPECTFAIL differently", witness="ct_add_section(NAME s EXPECTFAIL) vs ct_add_test(NAME t EXPECTFAIL)")
    # add_test may use another idiom than its CMakeTest siblings (loop scan / position comprehension): C11-R1 judges each lookup
    # against the specification; comparing the *kind* of lookup here fired on a benign rewrite of add_test alone (R_agg_r2_ref4).
    rep.ok(rule, f"{AGG}:{lm.cls}", f"add_test NAME lookup kind: {(c.get('name') or ('',))[0]} (judged by C11-R1)")
    rep.floor(rule, 2, "sibling comparisons")


def _strip_names(s: str) -> str:
    return re.sub(r"\b[a-z_]+\b", lambda m: m.group(0) if m.group(0) in ("upper", "lower") else "v", s)


# ----------------------------------------------------------------------
def rule_runtime_pin(rep: Report, repo: Repo, rule: str) -> None:
    rep.rule(rule, "pyproject pins antlr4-python3-runtime to the version both generated files check for")
    from .. import atn
    py = repo.read("pyproject.toml")
    m = re.search(r"antlr4-python3-runtime\s*==\s*([0-9.]+)", py)
    lv = atn.class_tables(repo, "cminx.parser.CMakeLexer", "CMakeLexer")["version"]
    pv = atn.class_tables(repo, "cminx.parser.CMakeParser", "CMakeParser")["version"]
    rep.check(m is not None and m.group(1) == lv == pv, rule, "pyproject.toml", f"pin={m.group(1) if m else None} lexer={lv} parser={pv}",
              "the runtime version is not pinned to the version the generated lexer/parser were produced for: the serialized ATN "
              "may be rejected or interpreted differently")
    rep.floor(rule, 1, "version pin")


# ----------------------------------------------------------------------
def rule_no_partial_ops(rep: Report, repo: Repo, rule: str) -> None:
    """C05-R8: processors and callbacks do not apply partial operations to argument text without a guard."""
    rep.rule(rule, "listener callbacks and processors apply no unguarded partial operation to argument text: no "
                   "re.match/search/fullmatch(...).group() without a None test, no int()/float()/.index() on argument text, no "
                   "dict lookup keyed by argument text")
    lm = listener_model(repo)
    ci = repo.cls(lm.cls)
    mm = repo.module(AGG)
    n = 0
    for mname, fn in ci.methods.items():
        if mname.startswith("__"):
            continue
        n += 1
        probs = []
        for node in walk_no_nested(fn):
            if isinstance(node, ast.Call) and isinstance(node.func, ast.Attribute) and node.func.attr in ("group", "groups", "groupdict", "span", "start", "end"):
                recv = node.func.value
                if isinstance(recv, ast.Call) and call_name(recv) in ("re.match", "re.search", "re.fullmatch"):
                    probs.append(f"{norm(node)[:60]}: the match may be None (e.g. '.' does not match a newline)")
                elif isinstance(recv, ast.Name):
                    defs = [x.value for x in walk_no_nested(fn) if isinstance(x, ast.Assign) and any(norm(t) == recv.id for t in x.targets)]
                    if any(isinstance(d, ast.Call) and call_name(d) in ("re.match", "re.search", "re.fullmatch") for d in defs):
                        from ..model import guards_of
                        gs = guards_of(fn, node, mm.parents)
                        guarded = any(recv.id in norm(g.test) for g in gs)
                        if not guarded:
                            probs.append(f"{norm(node)[:60]}: `{recv.id}` may be None")
            if isinstance(node, ast.Call) and call_name(node) in ("min", "max") and len(node.args) == 1 \
                    and not any(k.arg == "default" for k in node.keywords) \
                    and not (isinstance(node.args[0], (ast.List, ast.Tuple)) and node.args[0].elts):
                probs.append(f"{norm(node)[:60]}: ValueError when the sequence is empty (e.g. a doccomment that opens and closes on one line)")
            if isinstance(node, ast.Call) and call_name(node) in ("int", "float") and node.args and "getText" in norm(node.args[0]):
                probs.append(f"{norm(node)[:60]}: ValueError for non-numeric argument text")
            if isinstance(node, ast.Call) and isinstance(node.func, ast.Attribute) and node.func.attr == "index" and node.args \
                    and not isinstance(node.func.value, ast.Constant):
                # list.index / str.index raise ValueError when the element is absent: only harmless inside a try of the same
                # function whose handler catches ValueError (or everything) without re-raising
                caught = False
                q, child = node, node
                while q in mm.parents and q is not fn:
                    child, q = q, mm.parents[q]
                    if isinstance(q, ast.Try) and any(child is st_ for st_ in q.body):
                        for h in q.handlers:
                            types = norm(h.type) if h.type is not None else "BaseException"
                            if any(t in types for t in ("ValueError", "Exception", "BaseException")) and \
                                    not any(isinstance(x, ast.Raise) for x in ast.walk(h)):
                                caught = True
                if not caught:
                    probs.append(f"{norm(node)[:60]}: ValueError when the element is absent")
        rep.check(not probs, rule, f"{AGG}:{lm.cls}.{mname}", "no unguarded partial operation",
                  f"a valid input can make this callback raise: {'; '.join(probs)[:200]}",
                  witness="set(V [=[\nmulti\nline\n]=])  (documented)")
    rep.floor(rule, 10, "callbacks and processors")


# ----------------------------------------------------------------------
def rule_module_name_trim(rep: Report, repo: Repo, rule: str) -> None:
    """C04-R5 (the part of the CRLF clause that is visible in the code): the only single-line, length-sensitive sink fed from
    doccomment text is the '@module' name (it becomes the page title, whose adornment has the title's length); the name must be
    trimmed by an operation that also removes a carriage return."""
    rep.rule(rule, "the '@module' name (-> page title and heading length) is trimmed of all surrounding whitespace including '\\r': "
                   "str.strip() without arguments, a character set containing '\\r', or a regex using \\s")
    lm = listener_model(repo)
    n = 0
    for r in lm.rows("MODULE", "-"):
        st = r.outcome.state
        for e in r.outcome.effects:
            if e[0] == "push" and e[1] == lm.entries:
                ob = st.obj(e[2])
                if ob is None:
                    continue
                nm = ob["fields"].get("name")
                n += 1
                ok, why = _trims_cr(nm)
                rep.check(ok, rule, f"{AGG}:{lm.cls}.enterDocumented_module", f"name = {show(nm)[:110]}",
                          f"the module name keeps a trailing carriage return in a CRLF file ({why}): the title is one character longer, "
                          f"its over-/underline too, and title and module directive contain a stray CR",
                          witness="CRLF file starting with '#[[[ @module my.name'")
    rep.floor(rule, 1, "module name binding")


def _trims_cr(t) -> Tuple[bool, str]:
    """Does the outermost trimming applied to the name remove '\r'?"""
    seen = []

    def walk(x):
        if isinstance(x, tuple) and x:
            if x[0] == "call" and x[1][0] == "attr" and x[1][2] in ("strip", "rstrip"):
                seen.append(("strip", x[2]))
            if x[0] == "call" and x[1][0] == "global" and x[1][1] in ("re.sub", "re.match", "re.search", "re.fullmatch") and x[2] \
                    and is_const(x[2][0]):
                seen.append(("re", x[2][0][1]))
            if x[0] == "call" and x[1][0] == "attr" and x[1][2] == "split" and not x[2]:
                seen.append(("split", ()))
            for y in x:
                if isinstance(y, tuple):
                    walk(y)
    walk(t)
    if not seen:
        return False, "the name is not trimmed at all"
    for kind, arg in seen:
        if kind == "strip" and (not arg or (is_const(arg[0]) and isinstance(arg[0][1], str) and "\r" in arg[0][1])):
            return True, ""
        if kind == "split":
            return True, ""
        if kind == "re" and isinstance(arg, str) and ("\\s" in arg or "\\r" in arg or "\r" in arg):
            return True, ""
    return False, "it is trimmed of blanks/tabs only: " + "; ".join(f"{k}({a if k == 're' else [show(z) for z in a]})" for k, a in seen)[:100]


# ----------------------------------------------------------------------
MATCHING_METHODS = {"replace": 0, "split": 0, "rsplit": 0, "partition": 0, "rpartition": 0, "startswith": 0, "endswith": 0,
                    "find": 0, "rfind": 0, "index": 0, "rindex": 0, "count": 0, "removeprefix": 0, "removesuffix": 0}
RE_FUNCS = {"re.sub", "re.subn", "re.split", "re.match", "re.search", "re.fullmatch", "re.findall", "re.finditer", "re.compile"}


def _lf_only_constant(v: str, is_regex: bool) -> bool:
    """A constant used for *matching* that names a line feed together with other characters but knows no carriage return."""
    if is_regex:
        has_lf = "\n" in v or "\\n" in v
        has_cr = "\r" in v or "\\r" in v or "\\R" in v
        other = v.replace("\\n", "").replace("\n", "").strip("^$")
        return has_lf and not has_cr and bool(other) and other not in ("+", "*", "?", "()", "(?:)+")
    return "\n" in v and "\r" not in v and v.strip("\n") != ""


def lf_only_hits(tree: ast.AST):
    out = []
    for n in ast.walk(tree):
        if isinstance(n, ast.Call):
            nm = call_name(n)
            if nm in RE_FUNCS and n.args and isinstance(n.args[0], ast.Constant) and isinstance(n.args[0].value, str):
                if _lf_only_constant(n.args[0].value, True):
                    out.append((n, f"{nm}({n.args[0].value!r}, ...)"))
            elif isinstance(n.func, ast.Attribute) and n.func.attr in MATCHING_METHODS and n.args \
                    and isinstance(n.args[0], ast.Constant) and isinstance(n.args[0].value, str):
                if _lf_only_constant(n.args[0].value, False):
                    out.append((n, f".{n.func.attr}({n.args[0].value!r})"))
        elif isinstance(n, ast.Compare) and len(n.ops) == 1 and isinstance(n.ops[0], (ast.In, ast.NotIn, ast.Eq, ast.NotEq)):
            for side in (n.left, n.comparators[0]):
                if isinstance(side, ast.Constant) and isinstance(side.value, str) and _lf_only_constant(side.value, False):
                    out.append((n, f"comparison with {side.value!r}"))
    return out


def rule_no_lf_only_matching(rep: Report, repo: Repo, rule: str) -> None:
    """C04-R6: structural part of the CRLF clause - the package never *matches* a multi-character pattern that contains a line
    feed but no (optional) carriage return.  Such an operation treats 'x\\n' and 'x\\r\\n' differently in more than the line
    ending (a continuation is joined in one file and not in the other)."""
    import os
    from ..core import VERIF_DIR
    rep.rule(rule, "no replace/split/startswith/endswith/find/compare/regular expression in the package matches a constant that "
                   "combines a line feed with other characters without allowing a carriage return (a lone '\\n' separator is "
                   "line structure and allowed)")
    n = 0
    for mod in HAND_WRITTEN:
        m = repo.module(mod)
        tree = getattr(m, "orig_tree", None) or m.tree
        for node, desc in lf_only_hits(tree):
            n += 1
            rep.bad(rule, mod, desc, "this operation only recognises the LF form of a line end: the LF and the CRLF version of the "
                    "same file differ in more than their line-ending characters", witness='set(V "a \\<CRLF>b")  vs  set(V "a \\<LF>b")')
    ctrl = ast.parse(open(os.path.join(VERIF_DIR, "controls", "lf_only.py")).read())
    hits = len(lf_only_hits(ctrl))
    if hits != 4:
        raise AnalysisError(f"positive control controls/lf_only.py: {hits} hits, expected 4")
    rep.ok(rule, "controls/lf_only.py", "positive control matched 4 LF-only operations, none of the 4 CR-aware / line-structure twins")
    rep.ok(rule, "cminx.*", f"{n} LF-only matching operations in {len(HAND_WRITTEN)} modules")


# ----------------------------------------------------------------------
def finally_discards(tree: ast.AST):
    """break / continue / return lexically inside a `finally` block (not inside a nested function or a loop that the finally
    itself contains for break/continue): they discard the exception in flight."""
    out = []
    for t in ast.walk(tree):
        if isinstance(t, ast.Try) and t.finalbody:
            def scan(stmts, in_loop):
                for st in stmts:
                    for n in [st]:
                        if isinstance(n, (ast.FunctionDef, ast.AsyncFunctionDef, ast.ClassDef)):
                            continue
                        if isinstance(n, ast.Return):
                            out.append((n, "return"))
                        elif isinstance(n, (ast.Break, ast.Continue)) and not in_loop:
                            out.append((n, "break" if isinstance(n, ast.Break) else "continue"))
                        for fld in ("body", "orelse", "finalbody"):
                            blk = getattr(n, fld, None)
                            if isinstance(blk, list):
                                scan(blk, in_loop or isinstance(n, (ast.For, ast.While)))
                        for h in getattr(n, "handlers", []) or []:
                            scan(h.body, in_loop)
            scan(t.finalbody, False)
    return out


def rule_no_finally_discard(rep: Report, repo: Repo, rule: str) -> None:
    import os
    from ..core import VERIF_DIR
    rep.rule(rule, "no break / continue / return inside a finally block anywhere in the package: such a statement silently discards "
                   "the syntax error (or any other exception) that is propagating")
    n = 0
    for mod in HAND_WRITTEN:
        m = repo.module(mod)
        tree = getattr(m, "orig_tree", None) or m.tree
        for node, kind in finally_discards(tree):
            n += 1
            rep.bad(rule, mod, f"`{kind}` inside finally (line {getattr(node, 'lineno', '?')})",
                    "an exception raised in the try body (a syntax error of the file being documented) is swallowed: the run ends "
                    "with status 0 and the remaining files are skipped silently", witness="cminx dir/  with one malformed file, without -r")
    ctrl = ast.parse(open(os.path.join(VERIF_DIR, "controls", "finally_discard.py")).read())
    hits = len(finally_discards(ctrl))
    if hits != 3:
        raise AnalysisError(f"positive control controls/finally_discard.py: {hits} hits, expected 3")
    rep.ok(rule, "controls/finally_discard.py", "positive control matched 3 discarding statements, none in the harmless twin")
    rep.ok(rule, "cminx.*", f"{n} discarding statement(s) in finally blocks")


def _mutating_entry_methods(repo: Repo) -> Dict[str, str]:
    """Methods of the documentation classes that modify the entry they are called on (store to self.<field>, or a mutating
    list call on self.<field> / on a local alias of it): method name -> what it does."""
    MUT = {"append", "extend", "insert", "pop", "remove", "clear", "sort", "reverse", "update", "add", "discard"}
    out: Dict[str, str] = {}
    for ci in repo.classes.values():
        if ci.module != "cminx.documentation_types":
            continue
        for mname, fn in ci.methods.items():
            if mname.startswith("__"):
                continue
            aliases = set()
            for n in ast.walk(fn):
                if isinstance(n, ast.Assign) and len(n.targets) == 1 and isinstance(n.targets[0], ast.Name) \
                        and isinstance(n.value, ast.Attribute) and isinstance(n.value.value, ast.Name) and n.value.value.id == "self":
                    aliases.add(n.targets[0].id)
            for n in ast.walk(fn):
                if isinstance(n, ast.Attribute) and isinstance(n.ctx, ast.Store) and isinstance(n.value, ast.Name) and n.value.id == "self":
                    out[mname] = f"{ci.name}.{mname} stores self.{n.attr}"
                if isinstance(n, ast.Call) and isinstance(n.func, ast.Attribute) and n.func.attr in MUT:
                    r = n.func.value
                    if (isinstance(r, ast.Name) and r.id in aliases) or \
                            (isinstance(r, ast.Attribute) and isinstance(r.value, ast.Name) and r.value.id == "self"):
                        out[mname] = f"{ci.name}.{mname} calls {norm(n)[:40]}"
    return out


def rule_entry_methods_render_only(rep: Report, repo: Repo, rule: str) -> None:
    """An entry method that modifies the entry (the in-place '**kwargs' append of the signature code) runs once per entry, in the
    render loop: nothing in the listener calls it."""
    rep.rule(rule, "methods of the documentation classes that modify their entry are called from the Documenter's render loop and "
                   "from other documentation classes only, never from the listener: a signature is built exactly once")
    mut = _mutating_entry_methods(repo)
    lm = listener_model(repo)
    ci = repo.cls(lm.cls)
    n = 0
    for mname, fn in ci.methods.items():
        for c in calls_in(fn):
            if isinstance(c.func, ast.Attribute) and c.func.attr in mut and not (isinstance(c.func.value, ast.Name) and c.func.value.id == "self"):
                n += 1
                rep.bad(rule, f"{AGG}:{lm.cls}.{mname}", norm(c)[:70],
                        f"the listener calls an entry method that modifies the entry ({mut[c.func.attr]}): rendering later repeats the "
                        f"modification ('**kwargs' appears twice)", witness="the same function() defined twice in one file, with kwargs")
    rep.ok(rule, f"{AGG}:{lm.cls}", f"{len(mut)} modifying entry method(s) {sorted(mut)}; {n} call(s) from the listener")
    rep.floor(rule, 1, "entry-method census")

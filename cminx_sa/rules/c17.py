"""C17 - output is a function of contents, relative paths and settings only."""
from ..core import Report
from ..model import Repo
from . import fsrules


def run(rep: Report, repo: Repo, tier: str) -> None:
    rep.unit("src/cminx/__init__.py", "src/cminx/documenter.py", "src/cminx/aggregator.py",
             "src/cminx/documentation_types.py", "src/cminx/rstwriter.py")
    rep.assume("os.path.relpath of two paths below the same root and os.path.basename are location independent",
               "sorted() of str is deterministic; dict iteration is insertion ordered",
               "each entry is rendered once per run (process() mutating its own entry is noted, not claimed)")
    with rep.isolated():
        fsrules.rule_no_location_in_content(rep, repo, "C17-R1")
    rep.floor("C17-R1", 8, "content sinks")
    with rep.isolated():
        fsrules.rule_no_nondeterminism(rep, repo, "C17-R2")
    with rep.isolated():
        fsrules.rule_isolation(rep, repo, "C17-R3")
    with rep.isolated():
        fsrules.rule_no_set_order(rep, repo, "C17-R4")
    with rep.isolated():
        fsrules.rule_no_location_as_pattern(rep, repo, "C17-R5")
    with rep.isolated():
        fsrules.rule_walk_root_absolute(rep, repo, "C17-R6")
    # removing from a list while iterating it skips the neighbour of each removed entry: which entries survive depends on the
    # order of the directory listing
    with rep.isolated():
        fsrules.rule_no_mutation_while_iterating(rep, repo, "C17-R7")
    from . import fsrules as _fsr
    with rep.isolated():
        _fsr.rule_always_regenerates(rep, repo, "C17-R8")

    # the processed set is a function of the set of directory entries, not of their listing order
    with rep.isolated():
        _fsr.rule_no_order_dependent_pruning(rep, repo, "C17-R9")
    # without -r the run ends with the input directory: otherwise the one sub-directory that gets documented is the first the
    # operating system lists
    with rep.isolated():
        _fsr.rule_recursion_switch(rep, repo, "C17-R10", empty_top_clause=True)
    # which sub-directories survive auto-exclusion does not depend on the order in which their files are listed
    with rep.isolated():
        _fsr.rule_prechecks_filtered(rep, repo, "C17-R11")
    # ... nor on whether a parent of the tree is itself reached through a link
    with rep.isolated():
        _fsr.rule_symlinked_subdirs(rep, repo, "C17-R12")
    # the exclusion spec every input of a run is matched against is built from a list, not from a one-shot iterator
    with rep.isolated():
        _fsr.rule_match_sites(rep, repo, "C17-R13")
    with rep.isolated():
        _fsr.rule_fs_probes_absolute(rep, repo, "C17-R14")
    # the packaged defaults carry no exclusion pattern: patterns are matched against absolute paths, so an unanchored default
    # pattern would make the processed set depend on the names of the tree's parent directories
    with rep.isolated():
        rep.rule("C17-R15", "config_default.yaml ships an empty input.exclude_filters")
        import yaml as _yaml
        y = _yaml.safe_load(repo.read("src/cminx/config_default.yaml")) or {}
        ef = (y.get("input") or {}).get("exclude_filters")
        rep.check(not ef, "C17-R15", "src/cminx/config_default.yaml", f"input.exclude_filters = {ef!r}",
                  "default exclusion patterns are matched against the absolute path of every file: a tree that happens to live "
                  "below a directory with such a name is silently skipped, the same tree elsewhere is documented",
                  witness="the same tree below <build>/_deps/ and elsewhere")

"""C04 - layout, comments and command-name case do not affect the output."""
from ..core import Report
from ..model import Repo
from . import atn_rules, misc_rules


def run(rep: Report, repo: Repo, tier: str) -> None:
    rep.unit("src/cminx/parser/CMakeLexer.py", "src/cminx/aggregator.py", "src/cminx/documenter.py", "src/cminx/documentation_types.py")
    rep.assume("antlr4 lexer actions: `skip` drops the token; no channels are used",
               "CRLF clause: only its structural parts are decided (C04-R5: the one length-sensitive sink fed from doccomment text, the "
               "@module name, is trimmed of CR; C04-R6: no LF-only multi-character matching); that every other CR stays at a line "
               "end is a property of run-time strings")
    with rep.isolated():
        atn_rules.rule_skipped_tokens(rep, repo, "C04-R1", tier)
    with rep.isolated():
        misc_rules.rule_position_independence(rep, repo, "C04-R2")
    with rep.isolated():
        misc_rules.rule_case_folding(rep, repo, "C04-R3")
    with rep.isolated():
        misc_rules.rule_clean_parameters(rep, repo, "C04-R4x", "C04-R4")
    with rep.isolated():
        misc_rules.rule_module_name_trim(rep, repo, "C04-R5")
    with rep.isolated():
        misc_rules.rule_no_lf_only_matching(rep, repo, "C04-R6")
    # the paragraph writer must treat a line ending in CR like one ending in LF: it only splits and prefixes lines
    from . import writer_rules
    with rep.isolated():
        writer_rules.rule_paragraph(rep, repo, "C04-R7")

"""C15 - exclusion patterns are honoured for every matching path."""
from ..core import Report
from ..model import Repo
from . import fsrules


def run(rep: Report, repo: Repo, tier: str) -> None:
    rep.unit("src/cminx/__init__.py")
    rep.assume("pathspec GitWildMatch semantics (bare name matches at any depth, trailing slash = directory only)",
               "os.walk(topdown=True) honours in-place pruning of the directory list it yielded",
               "list.remove during iteration shifts the remaining elements left (the element after the removed one is skipped)")
    with rep.isolated():
        fsrules.rule_no_mutation_while_iterating(rep, repo, "C15-R1")
    with rep.isolated():
        fsrules.rule_pruning_in_place(rep, repo, "C15-R2")
    with rep.isolated():
        fsrules.rule_match_sites(rep, repo, "C15-R3")
    with rep.isolated():
        fsrules.rule_early_return_dominates(rep, repo, "C15-R4")
    with rep.isolated():
        fsrules.rule_walk_root_absolute(rep, repo, "C15-R5")
    # a directory with a non-excluded CMake file is not dropped because *another* of its files is excluded: the auto-exclusion
    # probe looks at every file of the directory through the exclusion filter
    with rep.isolated():
        fsrules.rule_prechecks_filtered(rep, repo, "C15-R6")

"""C16 - settings layer as command line > -s file > user config > defaults.

E6: call order on main(), CLI table, three-way agreement of template /
dataclasses / config_default.yaml, exclude-filter union, Filename flavour."""
from __future__ import annotations

import ast
from typing import Any, Dict, List, Optional, Tuple

from ..core import AnalysisError, Report
from ..model import Repo, call_name, calls_in, guards_of, norm, stmts_in, walk_no_nested

MOD = "cminx"
SECTIONS = {"input": "InputSettings", "output": "OutputSettings", "rst": "RSTSettings", "logging": "LoggingSettings"}
CLI_TABLE = {"-o": "output.directory", "-r": "input.recursive", "-p": "rst.prefix", "-e": "input.exclude_filters"}


def template_dict(repo: Repo) -> Tuple[ast.Dict, ast.FunctionDef]:
    fn = repo.func("cminx.config", "config_template")
    for st in fn.body:
        if isinstance(st, ast.Return) and isinstance(st.value, ast.Dict):
            return st.value, fn
    raise AnalysisError("anchor vanished: config_template() does not return a dict display")


def dict_items(d: ast.Dict) -> Dict[str, ast.expr]:
    out = {}
    for k, v in zip(d.keys, d.values):
        if isinstance(k, ast.Constant) and isinstance(k.value, str):
            out[k.value] = v
    return out


def template_kind(v: ast.expr) -> Tuple[str, bool, Optional[ast.expr]]:
    """(type name, optional?, default expr)"""
    t = norm(v)
    if isinstance(v, ast.Name):
        return v.id, False, None
    if isinstance(v, ast.Constant):
        # confuse.as_template: a literal is its own default, and an int literal (True/False are ints) becomes Integer(default),
        # a float literal Number(default), a str literal String(default)
        kind = "int" if isinstance(v.value, int) else "number" if isinstance(v.value, float) else type(v.value).__name__
        return kind, True, v
    if isinstance(v, ast.Call):
        nm = call_name(v).split(".")[-1]
        if nm == "Optional":
            inner = v.args[0] if v.args else None
            default = next((k.value for k in v.keywords if k.arg == "default"), None)
            ik = template_kind(inner)[0] if inner is not None else "any"
            return ik, True, default
        if nm == "String":
            return "str", False, next((k.value for k in v.keywords if k.arg == "default"), None)
        if nm == "StrSeq":
            return "strseq", False, None
        if nm == "Filename":
            return "filename", False, None
        if nm == "TypeTemplate":
            return norm(v.args[0]) if v.args else "any", False, None
        return nm, False, None
    if isinstance(v, ast.IfExp):
        return template_kind(v.body)[0], False, None
    return t, False, None


YAML_TYPES = {"bool": bool, "str": str, "strseq": list, "list": list, "Sequence": list, "dict": dict, "filename": str, "int": int}


def _inline_views(fn: ast.AST, cfg_var: Optional[str]) -> ast.AST:
    """A copy of `fn` in which locals that hold a lazy view of the configuration (`v = settings["output"]`, assigned once) are
    written out where they are read, so that `v["k"].get()` is recognised as `settings["output"]["k"].get()`."""
    import copy as _copy
    if not cfg_var:
        return fn
    fn = _copy.deepcopy(fn)

    def root(e):
        while isinstance(e, ast.Subscript):
            e = e.value
        return e
    stores: Dict[str, List[ast.AST]] = {}
    for n in ast.walk(fn):
        if isinstance(n, ast.Name) and isinstance(n.ctx, (ast.Store, ast.Del)):
            stores.setdefault(n.id, []).append(n)
    views: Dict[str, ast.expr] = {}
    changed = True
    while changed:
        changed = False
        for n in ast.walk(fn):
            if isinstance(n, ast.Assign) and len(n.targets) == 1 and isinstance(n.targets[0], ast.Name) \
                    and n.targets[0].id not in views and len(stores.get(n.targets[0].id, [])) == 1 \
                    and isinstance(n.value, ast.Subscript) and isinstance(root(n.value), ast.Name) \
                    and (root(n.value).id == cfg_var or root(n.value).id in views):
                views[n.targets[0].id] = n.value
                changed = True

    class T(ast.NodeTransformer):
        def visit_Name(self, node):
            if isinstance(node.ctx, ast.Load) and node.id in views:
                return self.visit(_copy.deepcopy(views[node.id]))
            return node
    return ast.fix_missing_locations(T().visit(fn)) if views else fn


def rule_source_order(rep: Report, repo: Repo, rule: str) -> str:
    main = repo.func(MOD, "main")
    m = repo.module(MOD)
    where = f"{MOD}:main"
    # ---- R1 order
    rep.rule(rule, "Configuration() -> set_file (if -s) -> set_args -> get(template); nothing is set afterwards")
    order: List[Tuple[int, str, ast.Call]] = []
    cfg_var = None
    for i, st in enumerate(main.body):
        if isinstance(st, ast.Assign) and isinstance(st.value, ast.Call) and call_name(st.value).split(".")[-1] == "Configuration":
            cfg_var = norm(st.targets[0])
            order.append((i, "Configuration", st.value))
    if cfg_var is None:
        raise AnalysisError("anchor vanished: main() does not create a confuse Configuration")
    for i, st in enumerate(main.body):
        for c in calls_in(st):
            if isinstance(c.func, ast.Attribute) and norm(c.func.value) == cfg_var and \
                    c.func.attr in ("set_file", "set_args", "get", "set", "add", "set_env", "clear", "read"):
                order.append((i, c.func.attr, c))
    idx = {}
    for i, k, c in order:
        idx.setdefault(k, []).append(i)
    rep.check("set_args" in idx and "get" in idx, rule, where, "set_args and get(template) are called",
              "command-line values are never merged into the configuration", witness="cminx -r dir")
    if "set_args" in idx and "get" in idx:
        sa, g = min(idx["set_args"]), min(idx["get"])
        rep.check(sa < g, rule, where, "set_args precedes get(template)",
                  "the configuration is validated before the command-line arguments are applied: flags are ignored",
                  witness="cminx -o out x.cmake")
        if "set_file" in idx:
            sf = min(idx["set_file"])
            rep.check(sf < sa, rule, where, "set_file precedes set_args",
                      "the -s file is layered above the command line: a flag no longer overrides the file",
                      witness="-s file with recursive: false plus -r")
        else:
            rep.bad(rule, where, "set_file(args.settings)", "the -s file is never loaded", witness="cminx -s conf.yaml x.cmake")
        for k in ("set", "add", "set_env", "clear", "read", "set_file", "set_args"):
            for i in idx.get(k, []):
                if i > g:
                    rep.bad(rule, where, f"{cfg_var}.{k}(...) after get(template)",
                            "a source is added after the settings were read: it has no effect, or shadows validated values")
    # every *resolving* read of the configuration (also through a view: settings["a"]["b"].get()) sees all the layers only
    # after the last set_file / set_args; a view object alone is lazy and may be taken earlier
    RESOLVING = {"get", "all_contents", "exists", "keys", "items", "values", "flatten", "first", "resolve", "as_str", "as_number",
                 "as_filename", "as_path", "as_choice", "as_str_seq", "as_pairs", "as_str_expanded", "as_template", "sequence"}

    def _root(e):
        while isinstance(e, (ast.Subscript, ast.Attribute)):
            e = e.value
        return e
    views = {cfg_var}
    for st in ast.walk(main):
        if isinstance(st, ast.Assign) and len(st.targets) == 1 and isinstance(st.targets[0], ast.Name) and \
                isinstance(st.value, ast.Subscript) and isinstance(_root(st.value), ast.Name) and _root(st.value).id in views:
            views.add(st.targets[0].id)
    layer_idx = [i for k in ("set_file", "set_args") for i in idx.get(k, [])]
    n_reads = 0
    for i, st in enumerate(main.body):
        for c in calls_in(st):
            if isinstance(c.func, ast.Attribute) and c.func.attr in RESOLVING and isinstance(_root(c.func.value), ast.Name) \
                    and _root(c.func.value).id in views:
                n_reads += 1
                rep.check(not layer_idx or i > max(layer_idx), rule, where, norm(c)[:80],
                          "the configuration is read before the -s file and the command line are layered on: for this value the "
                          "-s file (and any flag) is ignored and the user config or the packaged default decides",
                          witness="-s file with output.relative_to_config: true, run from another directory",
                          key=f"{rule}|early-read|{norm(c.func.value)[:60]}")
    if n_reads == 0:
        raise AnalysisError("anchor vanished: main() never reads the configuration")
    for i, k, c in order:
        if k == "set_args":
            dots = next((kw.value for kw in c.keywords if kw.arg == "dots"), None)
            rep.check(isinstance(dots, ast.Constant) and dots.value is True, rule, where, norm(c),
                      "set_args is called without dots=True: dotted destinations such as 'output.directory' are stored as flat keys "
                      "and never override anything", witness="cminx -o out x.cmake")
            parsed = {norm(st_.targets[0]) for st_ in main.body if isinstance(st_, ast.Assign) and isinstance(st_.value, ast.Call)
                      and isinstance(st_.value.func, ast.Attribute) and st_.value.func.attr in ("parse_args", "parse_known_args")}
            rep.check(bool(c.args) and norm(c.args[0]) in parsed, rule, where, f"set_args({norm(c.args[0]) if c.args else ''}, ...)",
                      "set_args does not receive the namespace returned by parse_args")
        if k == "set_file":
            gs = guards_of(main, c, m.parents)
            ok = any(".settings" in norm(g_.test) for g_ in gs)
            rep.check(ok and c.args and ".settings" in norm(c.args[0]), rule, where, norm(c)[:70],
                      "set_file is not driven by the -s argument")
    rep.floor(rule, 5, "source-stacking facts")
    return cfg_var



def run(rep: Report, repo: Repo, tier: str) -> None:
    import yaml
    rep.unit("src/cminx/__init__.py", "src/cminx/config.py", "src/cminx/config_default.yaml")
    rep.assume("confuse: Configuration.set()/set_file()/set_args() insert a source with highest priority, so the later call "
               "wins; set_args drops None values; all_contents() concatenates over all sources; user config and packaged "
               "defaults are added below; get(template) rejects values of the wrong type",
               "confuse.Filename(cwd=...) / Filename(in_source_dir=True) resolve relative paths as named")
    main = repo.func(MOD, "main")
    m = repo.module(MOD)
    where = f"{MOD}:main"

    cfg_var = rule_source_order(rep, repo, "C16-R1")

    # ---- R2 CLI table
    with rep.isolated():
        rep.rule("C16-R2", "dotted argparse destinations are exactly paths of the template and default to None (also store_true)")
    tdict, tfn = template_dict(repo)
    titems = {sec: dict_items(v) if isinstance(v, ast.Dict) else None for sec, v in dict_items(tdict).items()}
    n_cli = 0
    seen_flags = {}
    for c in calls_in(main):
        if isinstance(c.func, ast.Attribute) and c.func.attr == "add_argument":
            flags = [a.value for a in c.args if isinstance(a, ast.Constant)]
            kw = {k.arg: k.value for k in c.keywords}
            dest = kw.get("dest")
            if dest is None or not (isinstance(dest, ast.Constant) and "." in str(dest.value)):
                continue
            n_cli += 1
            sec, _, key = dest.value.partition(".")
            ok = sec in titems and titems[sec] is not None and key in titems[sec]
            rep.check(ok, "C16-R2", where, f"{flags} dest={dest.value}",
                      f"destination '{dest.value}' is not an option path of the template: the flag is silently ignored",
                      witness=f"cminx {flags[0]} ...")
            default = kw.get("default")
            action = kw.get("action")
            act = action.value if isinstance(action, ast.Constant) else None
            if act in ("store_true", "store_false", "store_const", "count"):
                okd = isinstance(default, ast.Constant) and default.value is None
            else:
                okd = default is None or (isinstance(default, ast.Constant) and default.value is None)
            rep.check(okd, "C16-R2", where, f"{flags} default",
                      "an absent flag yields a non-None value, which set_args layers above the -s file and the user config: the "
                      "lower-priority sources can never set this option", witness=f"-s file sets the option, no {flags[0]} on the command line")
            for f in flags:
                seen_flags[f] = dest.value
    for f, d in CLI_TABLE.items():
        rep.check(seen_flags.get(f) == d, "C16-R2", where, f"{f} -> {d}",
                  f"flag {f} is bound to '{seen_flags.get(f)}' instead of '{d}'", witness=f"cminx {f} ...")
    rep.floor("C16-R2", 8, "CLI destinations")

    # ---- R3 three-way agreement
    with rep.isolated():
        rep.rule("C16-R3", "template keys/types, settings dataclass fields and config_default.yaml keys/types agree; non-optional "
                           "template keys have a YAML default; template defaults equal the documented YAML defaults")
    ysrc = repo.read("src/cminx/config_default.yaml")
    try:
        ydata = yaml.safe_load(ysrc)
    except Exception as e:
        raise AnalysisError(f"config_default.yaml does not parse: {e}")
    for sec, cls in SECTIONS.items():
        if sec not in titems:
            rep.bad("C16-R3", "cminx.config:config_template", sec, f"section '{sec}' missing from the template")
            continue
        if not repo.has_class(cls):
            raise AnalysisError(f"anchor vanished: dataclass {cls}")
        fields = {f.name: f for f in repo.dataclass_fields(cls)}
        if sec == "logging":
            rep.check("logger_config" in fields, "C16-R3", "cminx.config:LoggingSettings", "logger_config", "LoggingSettings lost its field")
            rep.check(isinstance(ydata.get("logging"), dict), "C16-R3", "config_default.yaml", "logging: {...}", "no logging defaults")
            continue
        tk = titems[sec] or {}
        yk = ydata.get(sec) or {}
        raw_lists = set()
        for c_ in ast.walk(main):
            if isinstance(c_, ast.Call) and isinstance(c_.func, ast.Attribute) and c_.func.attr == "all_contents":
                v_ = c_.func.value
                path_ = []
                while isinstance(v_, ast.Subscript) and isinstance(v_.slice, ast.Constant):
                    path_.insert(0, v_.slice.value)
                    v_ = v_.value
                if len(path_) == 2:
                    raw_lists.add(f"{path_[0]}.{path_[1]}")
        for key in sorted(set(tk) | set(fields) | set(yk)):
            in_t, in_f, in_y = key in tk, key in fields, key in yk
            if not in_t:
                rep.bad("C16-R3", "cminx.config:config_template", f"{sec}.{key}",
                        f"'{sec}.{key}' exists in {'the dataclass' if in_f else ''}{' and ' if in_f and in_y else ''}{'the YAML' if in_y else ''} "
                        f"but not in the template: it is never validated (YAML) or dict_to_settings fails")
                continue
            kind, optional, default = template_kind(tk[key])
            if not in_f:
                rep.bad("C16-R3", f"cminx.config:{cls}", f"{sec}.{key}",
                        f"template key '{sec}.{key}' has no field in {cls}: dict_to_settings raises TypeError for every run")
                continue
            if not in_y and not optional:
                rep.bad("C16-R3", "config_default.yaml", f"{sec}.{key}",
                        f"non-optional option '{sec}.{key}' has no packaged default: every run without it fails")
                continue
            ok = True
            msg = ""
            if in_y:
                yt = YAML_TYPES.get(kind)
                if yt is not None and yk[key] is not None and not isinstance(yk[key], yt):
                    ok, msg = False, f"YAML default of '{sec}.{key}' is {type(yk[key]).__name__}, template expects {kind}"
                if ok and kind == "bool" and isinstance(yk[key], bool) is False:
                    ok, msg = False, f"YAML default of '{sec}.{key}' is not a bool"
                if ok and default is not None and isinstance(default, ast.Constant) and default.value != yk[key] \
                        and not (default.value in ((), []) and yk[key] in ((), [], None)):
                    ok, msg = False, (f"template default {default.value!r} differs from the documented default {yk[key]!r}: which one "
                                      f"applies depends on whether the YAML is found")
            ann = fields[key].annotation
            if ok and kind == "bool" and ann != "bool":
                ok, msg = False, f"dataclass field {cls}.{key} is annotated {ann}, template says bool"
            if ok and ann == "bool" and kind != "bool":
                ok, msg = False, (f"the template validates the boolean option '{sec}.{key}' as {kind}: a value of another type "
                                  f"(a number) passes validation and is silently converted instead of being rejected")
            if ok and ann.replace("typing.", "").lower().startswith("list[") and kind == "strseq" and f"{sec}.{key}" in raw_lists:
                ok, msg = False, (f"'{sec}.{key}' is validated as StrSeq, which accepts a plain string, but main() rebuilds the list from "
                                  f"the *raw* values of all sources with all_contents(): a scalar passes validation and is then "
                                  f"iterated character by character")
            if ok and ann.replace("typing.", "").lower().startswith("list[") and kind == "list":
                ok, msg = False, (f"the template validates the list option '{sec}.{key}' as `list`, which confuse turns into "
                                  f"TypeTemplate(collections.abc.Sequence): a plain string is a Sequence too, passes validation and is "
                                  f"taken apart into one-character items instead of being rejected")
            rep.check(ok, "C16-R3", "cminx.config", f"{sec}.{key}: template={kind}{'?' if optional else ''} field={ann} yaml={yk.get(key)!r}"[:110],
                      msg, witness="-s file with  input: {exclude_filters: \"build/\"}  (a string where a list is expected)",
                      key=f"C16-R3|{sec}.{key}-template")
    rep.floor("C16-R3", 25, "option triples")

    # ---- R4 union of exclude filters, R6 settings object from validated dict
    with rep.isolated():
        rep.rule("C16-R4", "exclude filters are the concatenation over all sources, assigned after validation")
    with rep.isolated():
        rep.rule("C16-R6", "the Settings object handed to document() is built by dict_to_settings from the validated dict only")
    names: Dict[str, Tuple[int, ast.expr]] = {}
    for i, st in enumerate(main.body):
        if isinstance(st, ast.Assign) and isinstance(st.targets[0], ast.Name):
            names.setdefault(st.targets[0].id, (i, st.value))
    dict_var = next((n for n, (i, v) in names.items() if isinstance(v, ast.Call) and isinstance(v.func, ast.Attribute)
                     and v.func.attr == "get" and norm(v.func.value) == cfg_var), None)
    obj_var = next((n for n, (i, v) in names.items() if isinstance(v, ast.Call) and call_name(v) == "dict_to_settings"), None)
    gcall = None
    if obj_var is not None and names[obj_var][1].args:
        a0 = names[obj_var][1].args[0]
        if isinstance(a0, ast.Name) and a0.id == dict_var:
            gcall = names[dict_var][1]
        elif isinstance(a0, ast.Call) and isinstance(a0.func, ast.Attribute) and a0.func.attr == "get" and norm(a0.func.value) == cfg_var:
            gcall = a0           # dict_to_settings(config.get(template)) without a name for the dictionary
    rep.check(obj_var is not None and gcall is not None, "C16-R6", where,
              f"{obj_var} = dict_to_settings({dict_var or '<validated dict>'})", "the settings object is not built from the validated dictionary")
    if gcall is not None:
        from .fsrules import resolve_locals as _rl
        _targ = _rl(gcall.args[0], main, skip=frozenset({cfg_var})) if gcall.args else None
        rep.check(isinstance(_targ, ast.Call) and call_name(_targ) == "config_template",
                  "C16-R6", where, norm(gcall)[:70], "settings are read without the template: no type validation happens",
                  witness="recursive: 'yes please' in a -s file")
    for c in calls_in(main):
        if call_name(c) == "document":
            rep.check(len(c.args) >= 2 and norm(c.args[1]) == obj_var, "C16-R6", where, norm(c), "document() receives another settings object")
    union_ok = False
    for i, st in enumerate(main.body):
        if isinstance(st, ast.Assign) and norm(st.targets[0]) == f"{obj_var}.input.exclude_filters":
            v = norm(st.value)
            union_ok = "all_contents()" in v and f"{cfg_var}['input']['exclude_filters']" in v and obj_var in names and i > names[obj_var][0]
        # ... or stored into the validated dictionary before the Settings object is built from it
        if isinstance(st, ast.Assign) and dict_var and norm(st.targets[0]) in (f"{dict_var}['input']['exclude_filters']",
                                                                                 f'{dict_var}["input"]["exclude_filters"]'):
            v = norm(st.value)
            union_ok = "all_contents()" in v and f"{cfg_var}['input']['exclude_filters']" in v and dict_var in names \
                and names[dict_var][0] < i and (obj_var is None or i < names[obj_var][0])
    rep.check(union_ok, "C16-R4", where, f"{obj_var}.input.exclude_filters = list({cfg_var}['input']['exclude_filters'].all_contents())",
              "exclude patterns come from the highest-priority source only instead of the union of all sources",
              witness="-e a on the command line plus exclude_filters: [b] in the -s file")
    # stores into the settings object after construction other than the union
    for i, st in enumerate(main.body):
        if isinstance(st, ast.Assign) and obj_var and norm(st.targets[0]).startswith(obj_var + ".") \
                and norm(st.targets[0]) != f"{obj_var}.input.exclude_filters":
            rep.bad("C16-R6", where, norm(st)[:70], "an option is overwritten after validation, bypassing the layering")
    # dict_to_settings maps sections to the right classes in the right order
    d2s = repo.func("cminx.config", "dict_to_settings")
    p = d2s.args.args[0].arg
    local: Dict[str, str] = {}
    for st in d2s.body:
        if isinstance(st, ast.Assign) and isinstance(st.value, ast.Call):
            local[norm(st.targets[0])] = norm(st.value)
    ret = next((st.value for st in d2s.body if isinstance(st, ast.Return)), None)
    okm = isinstance(ret, ast.Call) and call_name(ret) == "Settings"
    if okm:
        order_fields = [f.name for f in repo.dataclass_fields("Settings")]
        for i, a in enumerate(ret.args):
            src = local.get(norm(a), norm(a))
            sec = order_fields[i] if i < len(order_fields) else "?"
            exp_cls = SECTIONS.get(sec)
            good = src.startswith(exp_cls + "(") and f"{p}['{sec}']" in src
            rep.check(good, "C16-R6", "cminx.config:dict_to_settings", f"Settings.{sec} <- {src}"[:90],
                      f"section '{sec}' of the Settings object is built from another section or class")
        for k in ret.keywords:
            src = local.get(norm(k.value), norm(k.value))
            exp_cls = SECTIONS.get(k.arg)
            rep.check(exp_cls is not None and src.startswith(exp_cls + "(") and f"{p}['{k.arg}']" in src, "C16-R6",
                      "cminx.config:dict_to_settings", f"Settings.{k.arg} <- {src}"[:90], "section built from the wrong source")
    else:
        rep.bad("C16-R6", "cminx.config:dict_to_settings", "return Settings(...)", "dict_to_settings does not return a Settings object")
    rep.floor("C16-R4", 1, "exclude filter union")
    rep.floor("C16-R6", 7, "settings construction facts")

    # ---- R5 relative_to_config
    with rep.isolated():
        rule_output_dir_resolution(rep, repo, "C16-R5")
    # the value in effect for an input is the layered one, not what an earlier input of the same run left behind
    from . import fsrules
    with rep.isolated():
        fsrules.rule_isolation(rep, repo, "C16-R7")
    # "the value in effect": the consumers read the option they are documented to read
    from . import pathterms, protocol
    with rep.isolated():
        protocol.rule_own_flag(rep, repo, "C16-R8")
    with rep.isolated():
        pathterms.rule_title_terms(rep, repo, "C16-R9", "C16-R9", "C16-R9")
    with rep.isolated():
        rule_writer_settings(rep, repo, "C16-R10")
    # an explicitly configured (even empty) prefix is the prefix in effect: only "not set" falls back to the directory name
    from .c12 import rule_prefix_default
    with rep.isolated():
        rule_prefix_default(rep, repo, "C16-R11")
    # input.follow_symlinks / input.auto_exclude_directories_without_cmake / input.recursive are consulted where documented
    with rep.isolated():
        fsrules.rule_symlinked_subdirs(rep, repo, "C16-R12")
    with rep.isolated():
        fsrules.rule_recursion_switch(rep, repo, "C16-R13")
    from . import tables as _tb
    with rep.isolated():
        _tb.rule_no_option_rewrite(rep, repo, "C16-R14")


def rule_output_dir_resolution(rep: Report, repo: Repo, rule: str) -> None:
    """Decided on the abstract evaluation of config_template (both values of the flag), so that an if/else, a conditional
    expression or a local alias are all read the same way."""
    from ..absint import Evaluator, const, glob, is_const, show
    from ..model import func_params, param_defaults
    rep.rule(rule, "relative_to_config selects Filename(in_source_dir=True), otherwise Filename(cwd=<os.getcwd() at call time>); main "
                   "reads the flag before validation and passes it to config_template")
    main = repo.func(MOD, "main")
    where = f"{MOD}:main"
    tfn = repo.func("cminx.config", "config_template")
    params = func_params(tfn)
    if not params:
        rep.bad(rule, "cminx.config:config_template", "signature", "config_template takes no relative_to_config flag")
        return
    flag = params[0]
    ev = Evaluator(repo, "cminx.config")
    outs = ev.run_function(tfn, {p: ("sym", "param:" + p) for p in params})
    FLAG = ("sym", "param:" + flag)
    cases = {}

    def dict_get(d, key):
        if d[0] == "dict":
            for k, v in d[1:]:
                if k == const(key):
                    return v
        return None

    for o in outs:
        if o.kind != "return":
            continue
        val = o.value()
        outd = dict_get(val, "output") if val[0] == "dict" else None
        dirv = dict_get(outd, "directory") if outd is not None else None
        if dirv is None:
            raise AnalysisError("config_template does not return a dict display with output.directory")
        truth = None
        for a_, v_ in o.conds:
            if a_[0] == "truthy" and a_[1] == FLAG:
                truth = v_
        inner = dirv
        if inner[0] == "call" and inner[1][0] == "global" and inner[1][1].endswith("Optional") and inner[2]:
            inner = inner[2][0]
        else:
            rep.bad(rule, "cminx.config:config_template", show(dirv)[:90], "output.directory is not Optional(...): a run without -o fails validation")
            continue
        if inner[0] == "ifexp":
            c = inner[1]
            pol = True
            while c[0] == "not":
                c, pol = c[1], not pol
            if c == FLAG:
                cases[pol] = inner[2]
                cases[not pol] = inner[3]
            else:
                cases[None] = inner
        else:
            cases[truth] = inner
    desc = "; ".join(f"flag={k}: {show(v)[:60]}" for k, v in cases.items())

    def filename_kwargs(t):
        if t[0] == "call" and t[1][0] == "global" and t[1][1].endswith("Filename"):
            return dict(t[3]), t[2]
        return None, None

    ok5, why = False, "the output directory template does not switch on the relative_to_config flag"
    if True in cases and False in cases:
        kw_t, pos_t = filename_kwargs(cases[True])
        kw_f, pos_f = filename_kwargs(cases[False])
        if kw_t is None or kw_f is None:
            why = "output.directory is not validated as a confuse.Filename"
        else:
            src_ok = kw_t.get("in_source_dir") == const(True) and "cwd" not in kw_t and not pos_t
            cwd_t = kw_f.get("cwd")
            cwd_ok = cwd_t == ("call", glob("os.getcwd"), (), ())
            cwd_why = ""
            if cwd_t is not None and cwd_t[0] == "sym" and cwd_t[1].startswith("param:"):
                pn = cwd_t[1][6:]
                d = param_defaults(tfn).get(pn)
                cwd_why = (f"cwd is the parameter `{pn}` whose default `{norm(d) if d is not None else None}` is evaluated once, when the "
                           f"module is imported, not when the run starts (and main does not pass it)")
            elif not cwd_ok:
                cwd_why = f"cwd is `{show(cwd_t) if cwd_t else None}`, not os.getcwd()"
            neg_ok = cwd_ok and "in_source_dir" not in kw_f and not pos_f
            ok5 = src_ok and neg_ok
            if not src_ok:
                why = ("with relative_to_config the directory is not resolved against the configuration file's directory"
                       + (" (an explicit cwd wins over in_source_dir in confuse)" if "cwd" in kw_t else ""))
            elif not neg_ok:
                why = "without relative_to_config the directory is not resolved against the working directory of the run: " + cwd_why
    elif None in cases:
        kw_n, _p = filename_kwargs(cases[None]) if cases[None][0] == "call" else (None, None)
        if kw_n is not None and "cwd" in kw_n and "in_source_dir" in kw_n:
            why = ("Filename(cwd=..., in_source_dir=flag): in confuse an explicit cwd wins over in_source_dir, so relative_to_config "
                   "is silently ignored")
    rep.check(ok5, rule, "cminx.config:config_template", desc[:150],
              "a relative output directory is not resolved as the settings prescribe: " + why,
              witness="relative -o after a chdir / -s dir/conf.yaml with output.directory: out and relative_to_config: true")
    cfg_var = None
    for st in main.body:
        if isinstance(st, ast.Assign) and isinstance(st.value, ast.Call) and call_name(st.value).split(".")[-1] == "Configuration":
            cfg_var = norm(st.targets[0])
    main = _inline_views(main, cfg_var)
    flag_var = None
    for i, st in enumerate(main.body):
        if isinstance(st, ast.If) and "relative_to_config" in norm(st.test) and cfg_var and cfg_var in norm(st.test) and ".get()" in norm(st.test):
            for s2 in st.body:
                if isinstance(s2, ast.Assign) and isinstance(s2.value, ast.Constant) and s2.value.value is True:
                    flag_var = norm(s2.targets[0])
    direct_flag = f"{cfg_var}['output']['relative_to_config'].get()"

    def is_flag(e: ast.expr) -> bool:
        """the value of the option itself: X.get(), X.get(bool), bool(X.get()), True if X.get() else False, not not X.get()"""
        t = norm(e)
        if t in (direct_flag, f"bool({direct_flag})", direct_flag[:-1] + "bool)"):
            return True
        if isinstance(e, ast.IfExp) and isinstance(e.body, ast.Constant) and e.body.value is True \
                and isinstance(e.orelse, ast.Constant) and e.orelse.value is False:
            return is_flag(e.test)
        if isinstance(e, ast.UnaryOp) and isinstance(e.op, ast.Not) and isinstance(e.operand, ast.UnaryOp) \
                and isinstance(e.operand.op, ast.Not):
            return is_flag(e.operand.operand)
        return False
    for st in main.body:
        if isinstance(st, ast.Assign) and len(st.targets) == 1 and is_flag(st.value):
            flag_var = norm(st.targets[0])
    passed = False
    from .fsrules import resolve_locals
    from ..model import func_params as _fp
    first_formal = (_fp(repo.func("cminx.config", "config_template")) or [None])[0]
    for c in calls_in(main):
        if isinstance(c.func, ast.Attribute) and c.func.attr == "get" and norm(c.func.value) == cfg_var and c.args:
            targ = resolve_locals(c.args[0], main, skip=frozenset({cfg_var}))          # the template may be held in a local first
            if isinstance(targ, ast.Call) and (targ.args or targ.keywords) and call_name(targ) == "config_template":
                # the flag is the template's first formal: passed by position or by that name
                a0_node = targ.args[0] if targ.args else next((k.value for k in targ.keywords if k.arg == first_formal), None)
                if a0_node is None:
                    continue
                a0 = norm(a0_node)
                passed = (flag_var is not None and a0 == flag_var) or is_flag(a0_node)
                extra = [k.arg for k in targ.keywords if not (not targ.args and k.arg == first_formal)] + [norm(a) for a in targ.args[1:]]
                if extra:
                    passed = False
                if passed and flag_var is None:
                    flag_var = a0
    rep.check(flag_var is not None and passed, rule, where, f"config_template({flag_var})",
              "main does not pass exactly the relative_to_config flag to the template: the option has no effect")
    rep.floor(rule, 2, "relative_to_config facts")


def rule_cli_defaults(rep: Report, repo: Repo, rule: str) -> None:
    """Every command-line option bound to a settings path yields None when it is absent (so that set_args does not shadow the
    -s file / user config with an argparse default)."""
    rep.rule(rule, "every argparse option bound to a settings path defaults to None, so an absent flag cannot shadow the "
                   "configured value (trigger string, strip patterns, ...)")
    main = repo.func(MOD, "main")
    n = 0
    for c in calls_in(main):
        if isinstance(c.func, ast.Attribute) and c.func.attr == "add_argument":
            kw = {k.arg: k.value for k in c.keywords}
            dest = kw.get("dest")
            if dest is None or not (isinstance(dest, ast.Constant) and "." in str(dest.value)):
                continue
            n += 1
            flags = [a.value for a in c.args if isinstance(a, ast.Constant)]
            default = kw.get("default")
            action = kw.get("action")
            act = action.value if isinstance(action, ast.Constant) else None
            if act in ("store_true", "store_false", "store_const", "count"):
                okd = isinstance(default, ast.Constant) and default.value is None
            else:
                okd = default is None or (isinstance(default, ast.Constant) and default.value is None)
            rep.check(okd, rule, f"{MOD}:main", f"{flags} dest={dest.value} default={norm(default) if default is not None else None}",
                      f"option {flags} yields `{norm(default) if default is not None else act}` when absent; set_args layers that above the "
                      f"-s file and the user config, so `{dest.value}` can no longer be configured there",
                      witness=f"-s file sets {dest.value}, no {flags[0] if flags else ''} on the command line")
    rep.floor(rule, 4, "settings-bound CLI options")


def rule_writer_settings(rep: Report, repo: Repo, rule: str) -> None:
    """Every writer is built with the settings in effect: an RSTWriter / Directive constructed without `settings=` falls back to
    the default argument `Settings()`, i.e. to the built-in header characters whatever the layered configuration says."""
    from ..model import HAND_WRITTEN
    rep.rule(rule, "every construction of RSTWriter (or a subclass) in the package passes settings=<settings in effect>; none "
                   "relies on the default argument Settings()")
    writer_classes = {c.name for c in repo.classes.values() if c.module == "cminx.rstwriter"
                      and any(k.name == "RSTWriter" for k in repo.mro(c.name))}
    n = 0
    for mod in HAND_WRITTEN:
        m = repo.module(mod)
        for c in ast.walk(m.tree):
            if isinstance(c, ast.Call) and call_name(c).split(".")[-1] in writer_classes:
                n += 1
                kw = next((k.value for k in c.keywords if k.arg == "settings"), None)
                splat = any(k.arg is None for k in c.keywords) or any(isinstance(a, ast.Starred) for a in c.args)
                if kw is None:
                    # passed by position: where `settings` stands in the constructor (a *args parameter ends the positional ones)
                    init = repo.find_method(call_name(c).split(".")[-1], "__init__")
                    if init is not None and not init[1].args.vararg:
                        names = [a.arg for a in init[1].args.args][1:]
                        if "settings" in names and names.index("settings") < len(c.args):
                            kw = c.args[names.index("settings")]
                fresh = kw is not None and isinstance(kw, ast.Call) and call_name(kw).split(".")[-1] == "Settings"
                rep.check((kw is not None and not fresh) or splat, rule, m.relpath, norm(c)[:70],
                          "the writer is constructed without the settings in effect: its headings use the default characters instead "
                          "of the configured rst.headers", witness="rst: {headers: ['=', '-']} in a -s file, directory input with -o")
    rep.floor(rule, 3, "writer constructions")

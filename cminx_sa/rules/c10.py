"""C10 - variable and option entries state type, default and help correctly."""
from ..core import Report
from ..model import Repo
from . import bindings, render


def run(rep: Report, repo: Repo, tier: str) -> None:
    rep.unit("src/cminx/aggregator.py", "src/cminx/documentation_types.py")
    rep.assume("argument counts are exhaustively partitioned by interval reasoning on len(args); quote stripping is checked as "
               "'one leading and one trailing quote character'; its tie to the token type is not decided (F13)")
    with rep.isolated():
        bindings.rule_set_partition(rep, repo, "C10-R1")
    with rep.isolated():
        render.rule_variable_rendering(rep, repo, "C10-R2")
    with rep.isolated():
        bindings.rule_option_binding(rep, repo, "C10-R3")
    from . import protocol, writer_rules
    from ..listener import model
    lm = model(repo)
    rows = [r for k in ("set", "option") for ev in ("DOC", "UNDOC") for r in lm.rows(ev, k) if protocol.default_flags(r)]
    with rep.isolated():
        protocol.check_rows(rep, "C10-R5", rows, ["entries"], "variable/option entry protocol")
    with rep.isolated():
        rep.rule("C10-R5", "every documented set() and every option() event appends exactly one entry of its kind; an undocumented set() none")
    rep.floor("C10-R5", 6, "set/option protocol rows")
    # "default value is the value text as written": fields serialise their value unmodified
    with rep.isolated():
        writer_rules.rule_values_verbatim(rep, repo, "C10-R4")
    with rep.isolated():
        protocol.rule_accepted_arities(rep, repo, "C10-R6", kinds=["set", "option"])
    # SET() / OPTION() are the same commands as set() / option(): the documented dispatch folds the case of the command name
    from . import misc_rules
    with rep.isolated():
        misc_rules.rule_case_folding(rep, repo, "C10-R7")
    # default values and help texts are the argument texts of the file as it is on disk (no whole-file rewriting before lexing)
    with rep.isolated():
        misc_rules.rule_decode(rep, repo, "C10-R8")

"""C12 - title and module name derive from prefix and relative path, or @module."""
from ..core import Report
from ..model import Repo
from . import atn_rules, fsrules, misc_rules, pathterms, writer_rules


def run(rep: Report, repo: Repo, tier: str) -> None:
    rep.unit("src/cminx/__init__.py", "src/cminx/documenter.py", "src/cminx/aggregator.py", "src/cminx/rstwriter.py",
             "src/cminx/parser/CMakeLexer.py")
    rep.assume("os.path.relpath/basename are location independent; re.sub('\\\\.cmake$', '', x) removes exactly a trailing '.cmake'",
               "'titles differ for different files' (injectivity) is not decided")
    fsrules.rule_no_location_in_content(rep, repo, "C12-R1", only_names=True)
    pathterms.rule_title_terms(rep, repo, "C12-R1b", "C12-R2", "C12-R3")
    rule_prefix_default(rep, repo, "C12-R3d")
    # the default prefix of one input must not leak into the next input of the same run
    fsrules.rule_isolation(rep, repo, "C12-R3i")
    writer_rules.rule_heading(rep, repo, "C12-R4")
    misc_rules.rule_document_order(rep, repo, "C12-R5o", "C12-R5")
    atn_rules.rule_doc_tokens(rep, repo, "C12-R5t")
    rule_module_callback(rep, repo, "C12-R5m")
    fsrules.rule_topdir_test(rep, repo, "C12-R6")


def rule_prefix_default(rep: Report, repo: Repo, rule: str) -> None:
    import ast
    from ..model import norm, walk_no_nested
    rep.rule(rule, "for a directory input the prefix defaults to the base name of the input path as given and is stored in the "
                   "per-input settings copy; a lone file gets no default prefix")
    fn = repo.func("cminx", "document")
    src = {norm(n.targets[0]): norm(n.value) for n in walk_no_nested(fn) if isinstance(n, ast.Assign) and len(n.targets) == 1}
    BASE = "os.path.basename(os.path.normpath(input_file))"
    lde = next((k for k, v in src.items() if v == BASE), None)
    # accepted forms: prefix = prefix if prefix is not None else <base>   /   if prefix is None: prefix = <base>
    def is_base(txt):
        return txt == BASE or (lde is not None and txt == lde)
    ok = False
    val = src.get("prefix")
    if val is not None:
        m1 = [b for b in (BASE, lde) if b and val in (f"prefix if prefix is not None else {b}", f"{b} if prefix is None else prefix")]
        ok = bool(m1)
    if not ok:
        from ..model import guards_of
        for n in walk_no_nested(fn):
            if isinstance(n, ast.Assign) and norm(n.targets[0]) == "prefix" and is_base(norm(n.value)):
                gs = guards_of(fn, n, repo.module("cminx").parents)
                ok = any((norm(g.test) == "prefix is None" and g.polarity) or (norm(g.test) == "prefix is not None" and not g.polarity)
                         for g in gs)
    rep.check(lde is not None or ok, rule, "cminx:document", "default prefix = basename(normpath(input_file))",
              "the default prefix is not the input directory's name", witness="cminx -r path/to/tree")
    rep.check(ok, rule, "cminx:document", f"prefix defaulting: {val}", "an explicit prefix does not override the default (or vice versa)",
              witness="cminx -p pre -r tree")
    rep.check(src.get("new_settings.rst.prefix") == "prefix", rule, "cminx:document", "new_settings.rst.prefix = prefix",
              "the effective prefix is not handed to document_single_file through the settings copy")
    # assigned only in the directory branch
    for n in walk_no_nested(fn):
        if isinstance(n, ast.Assign) and norm(n.targets[0]) == "new_settings.rst.prefix":
            from ..model import guards_of
            gs = guards_of(fn, n, repo.module("cminx").parents)
            rep.check(any("os.path.isdir(input_path)" in norm(g.test) and g.polarity for g in gs), rule, "cminx:document",
                      "default prefix only for directory inputs", "a lone input file receives a default prefix")
    rep.floor(rule, 4, "prefix default facts")


def rule_module_callback(rep: Report, repo: Repo, rule: str) -> None:
    from ..listener import model
    from ..absint import show
    rep.rule(rule, "the module callback takes the name from the first cleaned line after removing '@module' and the body from the "
                   "remaining lines, and appends exactly one module entry")
    lm = model(repo)
    for r in lm.rows("MODULE", "-"):
        ok = r.entries == ["ModuleDocumentation"] and not r.defpush and not r.clspush and r.awaiting is None
        rep.check(ok, rule, f"cminx.aggregator:{lm.cls}.enterDocumented_module", r.summary(), "a module doccomment does not produce exactly one module entry")
        st = r.outcome.state
        for e in r.outcome.effects:
            if e[0] == "push" and e[1] == lm.entries:
                ob = st.obj(e[2])
                nm, doc = show(ob["fields"]["name"]), show(ob["fields"]["doc"])
                first_line = any(x in nm for x in (".split('\\n')[0]", ".partition('\\n')[0]", ".split('\\n', 1)[0]"))
                base_ok = "clean_doc_lines" in nm and first_line and "Module_docstring().getText()" in nm
                removes = "'@module'" in nm or "@module" in nm
                trims = any(x in nm for x in (".strip(", "re.sub(", "re.match(", ".lstrip(", ".split("))
                rep.check(base_ok and removes and trims, rule,
                          f"cminx.aggregator:{lm.cls}.enterDocumented_module", f"name = {nm[:100]}",
                          "the module name is not the first cleaned doccomment line with '@module' removed and surrounding blanks trimmed")
                rep.check((("'\\n'.join(" in doc and "[1:]" in doc) or ".partition('\\n')[2]" in doc) and "clean_doc_lines" in doc, rule,
                          f"cminx.aggregator:{lm.cls}.enterDocumented_module", f"doc = {doc[:90]}",
                          "the module body is not the remaining doccomment lines")
    rep.floor(rule, 3, "module callback facts")

"""C12 - title and module name derive from prefix and relative path, or @module."""
from ..core import AnalysisError, Report
from ..model import Repo
from . import atn_rules, fsrules, misc_rules, pathterms, writer_rules


def run(rep: Report, repo: Repo, tier: str) -> None:
    rep.unit("src/cminx/__init__.py", "src/cminx/documenter.py", "src/cminx/aggregator.py", "src/cminx/rstwriter.py",
             "src/cminx/parser/CMakeLexer.py")
    rep.assume("os.path.relpath/basename are location independent; re.sub('\\\\.cmake$', '', x) removes exactly a trailing '.cmake'",
               "'titles differ for different files' (injectivity) is not decided")
    with rep.isolated():
        fsrules.rule_no_location_in_content(rep, repo, "C12-R1", only_names=True)
    with rep.isolated():
        pathterms.rule_title_terms(rep, repo, "C12-R1b", "C12-R2", "C12-R3")
    with rep.isolated():
        rule_prefix_default(rep, repo, "C12-R3d")
    # the default prefix of one input must not leak into the next input of the same run
    with rep.isolated():
        fsrules.rule_isolation(rep, repo, "C12-R3i")
    with rep.isolated():
        writer_rules.rule_heading(rep, repo, "C12-R4")
    with rep.isolated():
        misc_rules.rule_document_order(rep, repo, "C12-R5o", "C12-R5")
    with rep.isolated():
        atn_rules.rule_doc_tokens(rep, repo, "C12-R5t")
    with rep.isolated():
        rule_module_callback(rep, repo, "C12-R5m")
    # "that doccomment's text becomes the module directive's content": line for line
    from . import bindings
    with rep.isolated():
        bindings.rule_module_doc_verbatim(rep, repo, "C12-R5v")
    with rep.isolated():
        fsrules.rule_topdir_test(rep, repo, "C12-R6")
    # the module directive is named exactly like the module entry (the name the title shows)
    from . import render
    with rep.isolated():
        render.rule_kind_rendering(rep, repo, "C12-R7", only={"ModuleDocumentation"})


def rule_prefix_default(rep: Report, repo: Repo, rule: str) -> None:
    import ast
    from ..model import norm, walk_no_nested, guards_of, guard_atoms, call_name
    rep.rule(rule, "for a directory input the prefix defaults to the base name of the input path as given and is stored in the "
                   "per-input settings copy; a lone file gets no default prefix")
    fn = repo.func("cminx", "document")
    parents = repo.module("cminx").parents
    in_param = fn.args.args[0].arg
    settings_param = fn.args.args[1].arg if len(fn.args.args) > 1 else "settings"
    assigns = [n for n in walk_no_nested(fn) if isinstance(n, ast.Assign) and len(n.targets) == 1]
    src = {norm(n.targets[0]): norm(n.value) for n in assigns}
    # the roles, by what the names are bound to (not by how they are called)
    copy_var = next((norm(n.targets[0]) for n in assigns if isinstance(n.value, ast.Call) and call_name(n.value) in ("copy.deepcopy", "deepcopy")
                     and n.value.args and norm(n.value.args[0]) == settings_param), None)
    store = next((n for n in assigns if isinstance(n.targets[0], ast.Attribute) and norm(n.targets[0]).endswith(".rst.prefix")), None)
    pvar = norm(store.value) if store is not None and isinstance(store.value, ast.Name) else \
        next((norm(n.targets[0]) for n in assigns if isinstance(n.targets[0], ast.Name) and norm(n.value) == f"{settings_param}.rst.prefix"), None)
    BASE = f"os.path.basename(os.path.normpath({in_param}))"
    lde = next((k for k, v in src.items() if v == BASE), None)

    def is_base(txt):
        return txt == BASE or (lde is not None and txt == lde)
    ok = False
    val = None
    if pvar is not None:
        defs = [n for n in assigns if norm(n.targets[0]) == pvar]
        for n in defs:
            v = norm(n.value)
            if v == f"{settings_param}.rst.prefix":
                continue
            val = v
            # prefix = prefix if prefix is not None else <base>   /   <base> if prefix is None else prefix
            if any(b_ and v in (f"{pvar} if {pvar} is not None else {b_}", f"{b_} if {pvar} is None else {pvar}") for b_ in (BASE, lde)):
                ok = True
            # if prefix is None: prefix = <base>
            if is_base(v):
                facts = guard_atoms(guards_of(fn, n, parents))
                if (f"{pvar} is None", True) in facts or (f"{pvar} is not None", False) in facts:
                    ok = True
                    extra = [t for t, pol in facts if "recursive" in t or "follow" in t or "auto_exclude" in t]
                    rep.check(not extra, rule, "cminx:document", "the default prefix does not depend on other options",
                              f"the directory name becomes the default prefix only when `{extra[0][:50] if extra else ''}`: a directory "
                              f"documented otherwise gets no prefix", witness="cminx -o out dir   (no -r, no -p)")
    rep.check(lde is not None or ok, rule, "cminx:document", "default prefix = basename(normpath(<input as given>))",
              "the default prefix is not the input directory's name", witness="cminx -r path/to/tree")
    rep.check(ok, rule, "cminx:document", f"prefix defaulting: {val}", "an explicit prefix does not override the default (or vice versa)",
              witness="cminx -p pre -r tree")
    ok_store = store is not None and copy_var is not None and norm(store.targets[0]) == f"{copy_var}.rst.prefix" and norm(store.value) == pvar
    rep.check(ok_store, rule, "cminx:document", f"{norm(store.targets[0]) if store is not None else '<copy>.rst.prefix'} = {pvar}",
              "the effective prefix is not handed to document_single_file through the settings copy")
    if store is not None:
        facts = guard_atoms(guards_of(fn, store, parents))
        rep.check(any(t.startswith("os.path.isdir(") and pol for t, pol in facts), rule, "cminx:document",
                  "default prefix only for directory inputs", "a lone input file receives a default prefix")
    rep.floor(rule, 4, "prefix default facts")


def _first_line(t) -> bool:
    """<cleaned module doccomment>.split('\n')[0] / .partition('\n')[0] / .split('\n', 1)[0] / .splitlines()[0]"""
    from ..absint import const, show
    if not (isinstance(t, tuple) and t and t[0] == "sub" and t[2] == const(0)):
        return False
    c = t[1]
    if not (c[0] == "call" and c[1][0] == "attr"):
        return False
    form = (c[1][2], c[2])
    if form not in (("split", (const("\n"),)), ("partition", (const("\n"),)), ("split", (const("\n"), const(1))), ("splitlines", ())):
        return False
    whole = show(c[1][1])
    return "clean_doc_lines" in whole and "Module_docstring().getText()" in whole


def _regex_name_capture(pattern: str, group: int, anchored: bool):
    """Does group `group` of `pattern` capture everything after '@module' up to the end (modulo blanks)?  (ok, reason)"""
    import re._parser as sre
    import re._constants as C
    try:
        tree = sre.parse(pattern)
    except Exception as e:          # noqa
        return False, f"pattern does not compile: {e}"
    items = list(tree)
    # locate the capture group at top level
    pos = next((i for i, (op, av) in enumerate(items) if op is C.SUBPATTERN and av[0] == group), None)
    if pos is None:
        return None, "capture group not at top level"
    before = items[:pos]
    lits = "".join(chr(av) for op, av in before if op is C.LITERAL)
    if "@module" not in lits:
        return False, "the pattern does not anchor the name behind '@module'"

    def wide(op, av) -> bool:
        # `.`  /  \S  /  [^\s]  /  [^ ]   repeated without upper bound
        if op not in (C.MAX_REPEAT, C.MIN_REPEAT):
            return False
        lo, hi, sub = av
        if hi is not C.MAXREPEAT or len(sub) != 1:
            return False
        sop, sav = sub[0]
        if sop is C.ANY:
            return True
        if sop is C.IN:
            if sav == [(C.CATEGORY, C.CATEGORY_NOT_SPACE)]:
                return True
            if sav and sav[0] == (C.NEGATE, None) and all(x[0] is C.LITERAL and chr(x[1]).isspace() or x == (C.CATEGORY, C.CATEGORY_SPACE) for x in sav[1:]):
                return True
        return False
    inner = list(items[pos][1][3])
    if len(inner) == 1 and wide(*inner[0]):
        # a lazy wide capture must be followed by an end anchor, a greedy one reaches the end by itself
        if inner[0][0] is C.MIN_REPEAT:
            rest = items[pos + 1:]
            if not any(op is C.AT and av in (C.AT_END, C.AT_END_STRING) for op, av in rest):
                return False, "a lazy capture without end anchor yields the empty string"
        return True, ""
    return False, "the capture group accepts only part of the characters a module name may contain (the name is cut at the first other character)"


def module_name_form(t):
    """Classify the term bound to ModuleDocumentation.name: (True, '') equivalent to strip(line0 - '@module'); (False, why);
    (None, '') unknown."""
    from ..absint import const, is_const
    stripped = False
    while t[0] == "call" and t[1][0] == "attr" and t[1][2] == "strip" and not t[2]:
        stripped = True
        t = t[1][1]
    # line0.replace('@module', '')
    if t[0] == "call" and t[1][0] == "attr" and t[1][2] in ("replace", "removeprefix") and _first_line(t[1][1]):
        args = t[2]
        if t[1][2] == "removeprefix":
            return False, ("removeprefix('@module') assumes the tag starts the cleaned line; the lexer allows any run of blanks before it "
                           "and the cleaner removes one: with two blanks or a tab the tag stays in the name")
        good = args == (const("@module"), const(""))
        if not good:
            return False, f"it removes {args[0][1] if args and is_const(args[0]) else '?'!r} instead of '@module'"
        return (True, "") if stripped else (False, "the blanks around the name are not trimmed")
    # line0[len('@module'):] / line0[7:]
    if t[0] == "slice" and _first_line(t[1]) and t[3] == const(None) and t[4] == const(None):
        lo = t[2]
        return False, ("a fixed-length prefix is cut from the cleaned first line: that assumes the tag starts the line, but the lexer "
                       "allows any run of blanks before '@module' and the cleaner removes only one, so with two blanks or a tab the "
                       "name starts inside the tag ('e foo')")
    # line0.split('@module', 1)[1] / [-1]  and  line0.partition('@module')[2]: the first line of a module doccomment always
    # contains the tag (lexer rule Module_docstring), so cutting at its first occurrence equals removing it
    if t[0] == "sub" and t[1][0] == "call" and t[1][1][0] == "attr" and _first_line(t[1][1][1]):
        meth, args = t[1][1][2], t[1][2]
        if (meth == "split" and args in ((const("@module"), const(1)), (const("@module"),)) and t[2] in (const(1), const(-1))) or \
                (meth == "partition" and args == (const("@module"),) and t[2] == const(2)):
            return (True, "") if stripped else (False, "the blanks around the name are not trimmed")
    # re.sub('@module', '', line0)
    if t[0] == "call" and t[1] == ("global", "re.sub") and len(t[2]) >= 3 and _first_line(t[2][2]):
        pat, repl = t[2][0], t[2][1]
        if not (is_const(pat) and is_const(repl)):
            return None, ""
        if repl != const("") or pat[1] not in ("@module", "^@module", r"@module\s*", r"^@module\s*", r"^\s*@module\s*"):
            return False, f"re.sub({pat[1]!r}, {repl[1]!r}, ...) removes more or less than '@module'"
        return (True, "") if stripped else (False, "the blanks around the name are not trimmed")
    # M.group(k) if M is not None else ''   with M = re.search/match/fullmatch(P, line0)
    grp = None
    if t[0] == "ifexp":
        for branch, other in ((t[2], t[3]), (t[3], t[2])):
            if branch[0] == "call" and branch[1][0] == "attr" and branch[1][2] == "group" and other == const(""):
                grp = branch
    elif t[0] == "call" and t[1][0] == "attr" and t[1][2] == "group":
        grp = t
    if grp is not None:
        m = grp[1][1]
        k = grp[2][0][1] if grp[2] and is_const(grp[2][0]) else 0
        if m[0] == "call" and m[1][0] == "global" and m[1][1] in ("re.search", "re.match", "re.fullmatch") and len(m[2]) >= 2 \
                and is_const(m[2][0]) and _first_line(m[2][1]):
            ok, why = _regex_name_capture(m[2][0][1], k, m[1][1] != "re.search")
            if ok is None:
                return None, ""
            if ok and not stripped:
                # a wide capture keeps trailing blanks; leading ones are eaten only when the pattern has \s* before the group
                return False, "the captured name keeps surrounding blanks (no strip)"
            return ok, why
    return None, ""


def rule_module_callback(rep: Report, repo: Repo, rule: str) -> None:
    from ..listener import model
    from ..absint import show, const
    rep.rule(rule, "the module callback takes the name from the first cleaned line after removing '@module' and the body from the "
                   "remaining lines, and appends exactly one module entry")
    lm = model(repo)
    for r in lm.rows("MODULE", "-"):
        ok = r.entries == ["ModuleDocumentation"] and not r.defpush and not r.clspush and r.awaiting is None
        rep.check(ok, rule, f"cminx.aggregator:{lm.cls}.enterDocumented_module", r.summary(), "a module doccomment does not produce exactly one module entry")
        st = r.outcome.state
        for e in r.outcome.effects:
            if e[0] == "push" and e[1] == lm.entries:
                ob = st.obj(e[2])
                nm, doc = show(ob["fields"]["name"]), show(ob["fields"]["doc"])
                if ob["fields"]["name"] == const("") and len(lm.rows("MODULE", "-")) > 1:
                    # the path on which no name was found (e.g. the pattern did not match): judged on the other paths
                    rep.ok(rule, f"cminx.aggregator:{lm.cls}.enterDocumented_module", "nameless path: name = ''")
                    continue
                verdict, why = module_name_form(ob["fields"]["name"])
                if verdict is None:
                    raise AnalysisError(f"enterDocumented_module: unrecognised computation of the module name: {nm[:120]}")
                rep.check(verdict, rule, f"cminx.aggregator:{lm.cls}.enterDocumented_module", f"name = {nm[:100]}",
                          "the module name is not the first cleaned doccomment line with '@module' removed and surrounding blanks "
                          "trimmed: " + why, witness="#[[[ @module my_proj.utils")
                rep.check((("'\\n'.join(" in doc and "[1:]" in doc) or ".partition('\\n')[2]" in doc) and "clean_doc_lines" in doc, rule,
                          f"cminx.aggregator:{lm.cls}.enterDocumented_module", f"doc = {doc[:90]}",
                          "the module body is not the remaining doccomment lines")
    rep.floor(rule, 3, "module callback facts")
    # "the prefix": the one in effect - -p outranks a settings file (source order of the configuration)
    from .c16 import rule_source_order
    with rep.isolated():
        rule_source_order(rep, repo, "C12-R8")
    # the prefix in effect is the configured one, character for character
    from . import tables as _tb
    with rep.isolated():
        _tb.rule_no_option_rewrite(rep, repo, "C12-R9")

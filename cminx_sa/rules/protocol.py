"""Protocol table for the listener (C02-R1, C03-R1, C08-R1/R2, C09-R1, C05-R5):
what each event must do, derived from the property statements, compared with
the rows E2 extracted from the code."""
from __future__ import annotations

from typing import Any, Dict, List, Optional, Tuple

from ..absint import const, is_const, show
from ..core import AnalysisError, Report
from ..listener import CTRL_KINDS, OTHER, ListenerModel, Row, model
from ..model import Repo

ENTRY_CLASS = {"function": "FunctionDocumentation", "macro": "MacroDocumentation", "cpp_class": "ClassDocumentation",
               "ct_add_test": "TestDocumentation", "ct_add_section": "SectionDocumentation",
               "add_test": "CTestDocumentation", "option": "OptionDocumentation", "set": "VariableDocumentation"}
MEMBER_FIELD = {"cpp_member": ("members", "MethodDocumentation"), "cpp_constructor": ("constructors", "MethodDocumentation"),
                "cpp_attr": ("attributes", "AttributeDocumentation")}
FLAGGED = ["function", "macro", "cpp_class", "cpp_attr", "cpp_constructor", "cpp_member", "ct_add_test",
           "ct_add_section", "add_test", "option"]

WHERE = "cminx.aggregator:DocumentationAggregator"


def expected(r: Row) -> Any:
    """Expected effect summary of a non-error row, or one of the strings
    'skip' (implicit exception / outside quantifier), 'unspecified'."""
    k, ev, v = r.kind, r.event, r.val
    if "exc" in v:
        return "skip"
    if ev == "DOC" and k in CTRL_KINDS:
        return "skip"          # doccomments do not sit on block-closing commands / cmake_parse_arguments
    exp: Dict[str, Any] = {"entries": [], "defpush": [], "defpop": 0, "clspush": [], "clspop": 0, "awaiting": None,
                           "attach": [], "mark": [], "claim": []}
    inc = v.get("inc:" + k)
    if inc is None and ev == "UNDOC":
        consulted = [val for key, val in v.items() if key.startswith("inc:")]
        # the kind's own flag is not consulted (C08 reports that); behaviour follows the flags that were
        inc_eff = all(consulted) if consulted else None
    else:
        inc_eff = inc
    documenting = ev == "DOC" or inc_eff is True
    if ev in ("DANGLING",):
        return exp
    if ev == "MODULE":
        exp["entries"] = ["ModuleDocumentation"]
        return exp
    if k in ("function", "macro"):
        aw = v.get("awaiting")
        if aw is None:
            return {"__problem__": "the pending member/test declaration (awaiting slot) is not consulted: the implementing "
                                   "definition is never claimed", "__part__": "claim"}
        if aw:
            if ev == "DOC":
                return "unspecified"
            exp["defpush"] = ["placeholder"]
            exp["awaiting"] = "clear"
            exp["claim"] = ["is_macro", "params?"]
            return exp
        if ev == "UNDOC" and inc_eff is None:
            return {"__problem__": f"include_undocumented_{k} is not consulted for an undocumented {k}()", "__part__": "flags"}
        if documenting:
            exp["entries"] = [ENTRY_CLASS[k]]
            exp["defpush"] = ["entry"]
        else:
            exp["defpush"] = ["placeholder"]
        return exp
    if k in ("endfunction", "endmacro"):
        exp["defpop"] = 1
        return exp
    if k == "cmake_parse_arguments":
        ne = v.get("def_nonempty")
        if ne is None:
            return {"__problem__": "cmake_parse_arguments does not look at the top of the definition stack under a non-emptiness "
                                   "guard (unrecognised lookup: it may address an empty stack at file level or an element other than "
                                   "the innermost open definition)", "__part__": "mark"}
        if ne and v.get("def_top_isdoc") is True and v.get("def_top_should", True) is True:
            exp["mark"] = ["top"]
        return exp
    if k == "cpp_class":
        if ev == "UNDOC" and inc_eff is None:
            return {"__problem__": "include_undocumented_cpp_class is not consulted for an undocumented cpp_class()", "__part__": "flags"}
        if documenting:
            exp["entries"] = ["ClassDocumentation"]
            exp["clspush"] = ["class"]
            if v.get("cls_nonempty") is None:
                return {"__problem__": "cpp_class does not look at the enclosing class: inner classes are not registered", "__part__": "attach"}
            if v.get("cls_nonempty") and v.get("cls_top_none") is False:
                exp["attach"] = [("inner_classes", "ClassDocumentation")]
        else:
            exp["clspush"] = ["None"]
        return exp
    if k == "cpp_end_class":
        exp["clspop"] = 1
        return exp
    if k in MEMBER_FIELD:
        if ev == "UNDOC" and inc_eff is None:
            return {"__problem__": f"include_undocumented_{k} is not consulted for an undocumented {k}()", "__part__": "flags"}
        if documenting:
            if v.get("cls_nonempty") is None:
                return {"__problem__": f"{k} does not check that a class is open", "__part__": "attach"}
            if not v.get("cls_nonempty"):
                return "error-expected"
            if v.get("cls_top_none") is None:
                return {"__problem__": f"{k} does not check whether the enclosing class is shown (placeholder None)", "__part__": "attach"}
            if v.get("cls_top_none"):
                return exp
            fld, cls = MEMBER_FIELD[k]
            exp["attach"] = [(fld, cls)]
            if k != "cpp_attr":
                exp["awaiting"] = "set:MethodDocumentation"
        return exp
    if k in ("ct_add_test", "ct_add_section"):
        if ev == "UNDOC" and inc_eff is None:
            return {"__problem__": f"include_undocumented_{k} is not consulted for an undocumented {k}()", "__part__": "flags"}
        if documenting:
            exp["entries"] = [ENTRY_CLASS[k]]
            exp["awaiting"] = "set:" + ENTRY_CLASS[k]
        return exp
    if k in ("add_test", "option"):
        if ev == "UNDOC" and inc_eff is None:
            return {"__problem__": f"include_undocumented_{k} is not consulted for an undocumented {k}()", "__part__": "flags"}
        if documenting:
            exp["entries"] = [ENTRY_CLASS[k]]
        return exp
    if k == "set":
        if ev == "DOC":
            exp["entries"] = ["VariableDocumentation"]
        return exp
    # any other command
    if ev == "DOC":
        exp["entries"] = ["GenericCommandDocumentation"]
    return exp


def actual(r: Row) -> Dict[str, Any]:
    return {"entries": list(r.entries), "defpush": [d[0] for d in r.defpush], "defpop": r.defpop,
            "clspush": list(r.clspush), "clspop": r.clspop, "awaiting": r.awaiting, "attach": list(r.attach),
            "mark": list(r.mark), "claim": sorted(r.claim)}


def diff(r: Row, exp: Dict[str, Any], parts: Optional[List[str]] = None) -> List[str]:
    act = actual(r)
    out = []
    for key in (parts or ["entries", "defpush", "defpop", "clspush", "clspop", "awaiting", "attach", "mark", "claim"]):
        a, e = act[key], exp[key]
        if key == "claim":
            if e:
                if "is_macro" not in a:
                    out.append("claimed definition does not record whether it is a macro")
                if "params" not in a and "len(" in str(r.val.get("arity", "")) and not str(r.val.get("arity", "")).startswith("not"):
                    out.append("claimed definition's parameters are not taken over")
            elif a:
                out.append(f"unexpected stores on the pending declaration: {a}")
            continue
        if a != e:
            out.append(f"{key}: does {a!r}, expected {e!r}")
    if r.other:
        out.append("unexpected effects: " + "; ".join(r.other))
    return out


def row_case(r: Row) -> str:
    return f"{r.event} {r.kind} [{r.cond()[:140]}]"


def all_rows(lm: ListenerModel, kinds: Optional[List[str]] = None, events=("DOC", "UNDOC")) -> List[Row]:
    out = []
    for k in (kinds or lm.kinds()):
        for ev in events:
            out.extend(lm.rows(ev, k))
    return out


def default_flags(r: Row) -> bool:
    return all(v is True for k, v in r.val.items() if k.startswith("inc:"))


WITNESS = {
    "function": "function(f a)\\nendfunction()",
    "macro": "macro(m a)\\nendmacro()",
    "cpp_class": "cpp_class(A)\\n  cpp_class(B)\\n  cpp_end_class()\\ncpp_end_class()",
    "cpp_member": "cpp_class(A)\\n  cpp_member(f A int)\\n  function(${f} self x)\\n  endfunction()\\ncpp_end_class()",
    "cmake_parse_arguments": "function(f)\\n  function(g)\\n  endfunction()\\n  cmake_parse_arguments(...)\\nendfunction()",
}


def check_rows(rep: Report, rule: str, rows: List[Row], parts: Optional[List[str]], what: str,
               key_prefix: Optional[str] = None) -> int:
    n = 0
    for r in rows:
        exp = expected(r)
        if exp == "skip":
            continue
        case = row_case(r)
        if "handled_by_key" in r.val and r.event == "UNDOC":
            if parts is None or "entries" in parts:
                n += 1
                rep.bad(rule, WHERE, f"{r.event} {r.kind}: {r.val['handled_by_key']}",
                        "whether a command was already handled through its doccomment is decided by a key derived from the context "
                        "(position, text) instead of the context itself: another command sharing that key (same line, same text) is "
                        "silently skipped", witness="#[[[\n# doc\n#]]\noption(A \"a\") option(B \"b\")   (two commands on one line)",
                        key=f"{rule}|handled-by-key|{r.kind}")
            continue
        if r.crash:
            n += 1
            rep.bad(rule, WHERE, case, f"{r.event} {r.kind} crashes: {'; '.join(r.crash)}", witness=f"{r.kind}(a b)",
                    key=f"{rule}|crash|{r.event} {r.kind}")
            continue
        if r.error:
            # explicit error paths: exempt, but they must leave the entry list and the stacks alone
            if "loopexit" in r.val or "exc" in r.val:
                continue
            n += 1
            leaked = (r.entries and (parts is None or "entries" in parts)) or \
                     (r.attach and (parts is None or "attach" in parts))
            rep.check(not leaked, rule, WHERE, case + " (error path)",
                      f"an error path of {r.kind} still adds {r.entries or r.attach}: a malformed command leaves a half-built entry")
            continue
        if exp == "unspecified":
            rep.note(rule, WHERE, case, "documented definition directly after a member/test declaration: the properties "
                                        "contradict each other here (F15); not judged")
            # ... except for one clause no reading disputes: the declaration stops waiting here.  A declaration that keeps
            # waiting claims a later, unrelated definition that it does not immediately precede, and that one loses its entry.
            if (parts is None or "awaiting" in parts) and r.val.get("awaiting"):
                n += 1
                rep.check(r.awaiting == "clear", rule, WHERE, case + " (pending declaration released)",
                          "a documented function()/macro() directly after a member/test declaration leaves the declaration "
                          "pending: the next undocumented definition anywhere later in the file is taken for the implementation, "
                          "gets no entry and hands its parameters to the earlier declaration",
                          witness="ct_add_test(NAME t)\n#[[[\n# doc\n#]]\nfunction(${t})\nendfunction()\nfunction(helper a)\nendfunction()",
                          key=f"{rule}|pending-not-released|{r.kind}")
            continue
        if exp == "error-expected":
            n += 1
            rep.bad(rule, WHERE, case, f"{r.kind} outside any class is accepted silently (does {r.summary()})")
            continue
        if isinstance(exp, dict) and "__problem__" in exp:
            if parts is not None and exp.get("__part__") not in parts:
                continue        # concerns a clause that another rule / property judges
            n += 1
            rep.bad(rule, WHERE, case, exp["__problem__"], witness=WITNESS.get(r.kind))
            continue
        n += 1
        d = diff(r, exp, parts)
        key = None
        if key_prefix and d:
            key = f"{key_prefix}|{r.event} {r.kind}|{_flagcond(r)}|{'; '.join(d)[:80]}"
        rep.check(not d, rule, WHERE, case, f"{what}: " + "; ".join(d), witness=WITNESS.get(r.kind), key=key,
                  does=r.summary())
    return n


def _flagcond(r: Row) -> str:
    return ",".join(f"{k}={v}" for k, v in sorted(r.val.items()) if k.startswith("inc:"))


# ----------------------------------------------------------------------
def rule_protocol_default(rep: Report, repo: Repo, rule: str) -> None:
    """C02-R1."""
    rep.rule(rule, "under default flags every event appends exactly the entries the property prescribes and nothing else "
                   "(protocol table, all command kinds x DOC/UNDOC x abstract state valuations)")
    lm = model(repo, upper=True)        # command names in any letter case
    rows = [r for r in all_rows(lm) if default_flags(r)]
    rows += lm.rows("DANGLING", "-") + lm.rows("MODULE", "-")
    n = check_rows(rep, rule, rows, ["entries", "awaiting", "claim"], "entry protocol")
    for r in lm.rows("DANGLING", "-"):
        rep.check(r.warned or not r.entries, rule, WHERE, "DANGLING doccomment", "a dangling doccomment produces an entry")
    rep.floor(rule, 40, "protocol rows")


def rule_defstack(rep: Report, repo: Repo, rule: str) -> None:
    """C03-R1."""
    rep.rule(rule, "definition-stack typestate: exactly one push per function/macro event on every non-error path (entry or "
                   "placeholder), exactly one pop per endfunction/endmacro, cmake_parse_arguments marks the top element only, "
                   "under a non-emptiness guard and only when it documents")
    lm = model(repo)
    rows = all_rows(lm, ["function", "macro", "endfunction", "endmacro", "cmake_parse_arguments"])
    check_rows(rep, rule, rows, ["defpush", "defpop", "mark"], "definition stack")
    # no other event touches the definition stack
    for r in all_rows(lm, [k for k in lm.kinds() if k not in ("function", "macro", "endfunction", "endmacro", "cmake_parse_arguments")]):
        if "exc" in r.val or r.error:
            continue
        if r.event == "DOC" and r.kind in CTRL_KINDS:
            continue
        rep.check(not r.defpush and not r.defpop and not r.mark, rule, WHERE, row_case(r),
                  f"{r.kind} changes the definition stack ({r.summary()}): later cmake_parse_arguments calls are attributed to the wrong definition")
    rep.floor(rule, 30, "definition-stack rows")


def rule_classstack(rep: Report, repo: Repo, rule: str) -> None:
    """C09-R1."""
    rep.rule(rule, "class-stack typestate (default flags): one push per cpp_class, one pop per cpp_end_class, members attach "
                   "to the top class, inner classes register in the enclosing class before the push, implementing definitions "
                   "are claimed by the pending declaration")
    lm = model(repo)
    kinds = ["cpp_class", "cpp_end_class", "cpp_member", "cpp_constructor", "cpp_attr", "function", "macro"]
    rows = [r for r in all_rows(lm, kinds) if default_flags(r)]
    check_rows(rep, rule, rows, ["clspush", "clspop", "attach", "awaiting", "claim"], "class structure")
    # order: the enclosing class is read before the new class is pushed
    for r in rows:
        if r.kind == "cpp_class" and not r.error and "exc" not in r.val and r.attach:
            o = r.order
            ok = "attach:inner_classes" in o and "clspush" in o and o.index("attach:inner_classes") < o.index("clspush")
            rep.check(ok, rule, WHERE, row_case(r) + " order", "the class is pushed before the enclosing class is read: it registers as its own inner class")
    for r in all_rows(lm, [k for k in lm.kinds() if k not in kinds]):
        if "exc" in r.val or r.error or not default_flags(r):
            continue
        if r.event == "DOC" and r.kind in CTRL_KINDS:
            continue
        rep.check(not r.clspush and not r.clspop and not r.attach, rule, WHERE, row_case(r),
                  f"{r.kind} changes the class stack or a class ({r.summary()})")
    rep.floor(rule, 30, "class-stack rows")


def rule_flag_independence(rep: Report, repo: Repo, r1: str, r2: str) -> None:
    """C08-R1 / C08-R2."""
    rep.rule(r1, "the effects of a doccomment-carrying command are identical under every valuation of the "
                 "include_undocumented_* flags (flags are symbolic atoms: one row speaks for all 2^10 combinations)")
    rep.rule(r2, "for a command without doccomment, flag off differs from flag on only by the missing entry/attachment and by "
                 "placeholder pushes that keep the stacks balanced")
    lm = model(repo)
    n1 = 0
    for k in lm.kinds():
        if k in CTRL_KINDS:
            continue
        groups: Dict[str, List[Row]] = {}
        for r in lm.rows("DOC", k):
            if "exc" in r.val or r.error:
                continue
            # rows are grouped by the state atoms they consulted (argument-count atoms are ignored: a branch that bails out
            # early on a flag never reaches the arity tests)
            key = ", ".join(f"{a}={b}" for a, b in sorted(r.val.items()) if not a.startswith("inc:") and a != "arity")
            groups.setdefault(key, []).append(r)
        for key, rs in groups.items():
            n1 += 1
            consulted = sorted({a for r in rs for a in r.val if a.startswith("inc:")})
            by_flag: Dict[str, set] = {}
            for r in rs:
                by_flag.setdefault(_flagcond(r), set()).add(r.summary())
            if len({frozenset(v) for v in by_flag.values()}) > 1:
                base_fc = next((fc for fc in by_flag if fc == "" or "False" not in fc), sorted(by_flag)[0])
                for fc, sums in by_flag.items():
                    if sums != by_flag[base_fc]:
                        r = next(x for x in rs if _flagcond(x) == fc)
                        base = next(x for x in rs if _flagcond(x) == base_fc)
                        rep.bad(r1, WHERE, f"DOC {k} [{key[:100]}] {fc}",
                                f"a documented {k}() behaves differently when {fc or 'no flag is consulted'}: does `{' | '.join(sorted(sums))[:120]}` "
                                f"instead of `{' | '.join(sorted(by_flag[base_fc]))[:120]}`",
                                witness=f"#[[[\n# doc\n#]]\n{k}(...) with {fc.replace('inc:', 'include_undocumented_')}",
                                key=f"{r1}|DOC {k}|{fc}|{_delta(base, r)}")
            else:
                rep.ok(r1, WHERE, f"DOC {k} [{key[:100]}] flags consulted: {consulted or 'none'}")
    rep.floor(r1, 20, "documented-event groups")
    # R2
    for k in FLAGGED:
        rows = [r for r in lm.rows("UNDOC", k) if "exc" not in r.val and not r.error]
        on = [r for r in rows if r.val.get("inc:" + k) is True]
        off = [r for r in rows if r.val.get("inc:" + k) is False]
        rep.check(bool(on) and bool(off), r2, WHERE, f"UNDOC {k}: flag consulted",
                  f"include_undocumented_{k} does not control undocumented {k}() commands")
        for r in off:
            bad = []
            if r.entries or r.attach:
                bad.append(f"still documents ({r.summary()})")
            if r.awaiting:
                bad.append("touches the pending-declaration slot")
            # stack balance: same number of pushes as the flag-on rows of the same state
            same = [x for x in on if _state_key(x) == _state_key(r)] or on
            if same:
                if len(r.defpush) != len(same[0].defpush) or len(r.clspush) != len(same[0].clspush):
                    bad.append(f"stack pushes differ from the flag-on case ({r.summary()} vs {same[0].summary()}): "
                               f"the closing command pops somebody else's element")
            rep.check(not bad, r2, WHERE, row_case(r), "; ".join(bad),
                      witness=f"include_undocumented_{k}: false with an undocumented {k}() inside a documented block")
        # claiming the implementation of a pending declaration does not depend on any flag
        if k in ("function", "macro"):
            for r in rows:
                if r.val.get("awaiting"):
                    flags_c = [a for a in r.val if a.startswith("inc:")]
                    rep.check(not flags_c and "is_macro" in r.claim, r2, WHERE, row_case(r)[:110] + " [claim]",
                              f"the definition that implements a pending member/test declaration is handled differently depending on "
                              f"{flags_c}: with the flag off the documented member loses its parameter names / macro note "
                              f"(does `{r.summary()}`)",
                              witness=f"documented cpp_member + function(...) implementation with include_undocumented_{k}: false")
        # other flags must not matter
        for r in rows:
            others = [a for a in r.val if a.startswith("inc:") and a != "inc:" + k]
            rep.check(not others, r2, WHERE, row_case(r) + " other flags",
                      f"undocumented {k}() consults {others}")
    rep.floor(r2, 30, "undocumented-event rows")


def rule_own_flag(rep: Report, repo: Repo, rule: str, kinds=None) -> None:
    """An undocumented command of kind k is shown exactly when include_undocumented_<k> - the option of its own kind, with the
    value in effect - is on: the flag is consulted, its two values differ in the entry, and no other kind's flag is read."""
    rep.rule(rule, "an undocumented command consults include_undocumented_<its own kind> (entry iff on) and no other kind's option")
    lm = model(repo)
    for k in (kinds or FLAGGED):
        rows = [r for r in lm.rows("UNDOC", k) if "exc" not in r.val and not r.error]
        on = [r for r in rows if r.val.get("inc:" + k) is True]
        off = [r for r in rows if r.val.get("inc:" + k) is False]
        rep.check(bool(on) and bool(off), rule, WHERE, f"UNDOC {k}: include_undocumented_{k} consulted",
                  f"include_undocumented_{k} does not control undocumented {k}() commands: the value configured for it has no effect",
                  witness=f"include_undocumented_{k} set differently from the other switches")
        for r in rows:
            others = [a for a in r.val if a.startswith("inc:") and a != "inc:" + k]
            rep.check(not others, rule, WHERE, row_case(r)[:90] + " other flags",
                      f"undocumented {k}() consults {[o.replace('inc:', 'include_undocumented_') for o in others]}: another kind's option "
                      f"decides whether it is shown", witness=f"include_undocumented_{k} and {others[0].replace('inc:', 'include_undocumented_') if others else ''} set differently")
        for r in off:
            rep.check(not (r.entries or r.attach), rule, WHERE, row_case(r)[:90] + " [off]",
                      f"with include_undocumented_{k} off an undocumented {k}() is still documented ({r.summary()})")
    rep.floor(rule, 3, "flag rows")


def _state_key(r: Row) -> str:
    return ", ".join(f"{a}={b}" for a, b in sorted(r.val.items()) if not a.startswith("inc:") and a != "arity")


def _delta(base: Row, r: Row) -> str:
    a, b = actual(base), actual(r)
    bits = []
    for k in a:
        if a[k] != b[k]:
            bits.append(f"{k}:{b[k]!r}")
    return ";".join(bits)[:80]


def rule_no_crash(rep: Report, repo: Repo, rule: str) -> None:
    """C05-R5: dispatch through the process_ prefix cannot crash."""
    rep.rule(rule, "every method reachable through the process_<command> dispatch has the (ctx, docstring) signature and, on the "
                   "undocumented path, an include_undocumented_<command> option: no CRASH effect in the table")
    lm = model(repo, upper=True)
    kinds = lm.kinds() + [k for k in lm.process_kinds if k not in lm.kinds()]
    n = 0
    for k in kinds:
        for ev in ("DOC", "UNDOC"):
            crashed = {}
            for r in lm.rows(ev, k):
                for c in r.crash:
                    crashed.setdefault(c, r)
            n += 1
            if crashed:
                for c, r in crashed.items():
                    rep.bad(rule, WHERE, f"{ev} {k}: {c}",
                            f"a command literally named `{k}` crashes CMinx with {c}: the name matches the `process_` prefix dispatch "
                            f"but the method is not a command processor", witness=f"{k}(a b)",
                            key=f"{rule}|{k}")
            else:
                rep.ok(rule, WHERE, f"{ev} {k}: no crash effect")
    rep.floor(rule, 30, "dispatch cases")


def rule_top_addressing(rep: Report, repo: Repo, rule: str) -> None:
    """C08-R4: placeholders only work if every later event addresses the top of the stack."""
    rep.rule(rule, "events that modify an existing entry (cmake_parse_arguments mark, member/attribute attachment, inner-class "
                   "registration) address exactly the top element of their stack: the placeholders pushed for commands whose flag is "
                   "off then shield enclosing documented entries, so their rendering cannot depend on the flags")
    lm = model(repo)
    rows = all_rows(lm, ["cmake_parse_arguments"], events=("UNDOC",))
    check_rows(rep, rule, rows, ["mark"], "has_kwargs addressing")
    rows = [r for r in all_rows(lm, ["cpp_member", "cpp_constructor", "cpp_attr", "cpp_class"])]
    for r in rows:
        if r.error or "exc" in r.val:
            continue
        for fld, cls in r.attach:
            rep.check("." not in fld and "[" not in fld, rule, WHERE, row_case(r)[:80] + f" attach {fld}",
                      f"{r.kind} attaches through `{fld}`, not through the top of the class stack: with a hidden (flag off) class in "
                      f"between, the member lands in an enclosing documented class")
    rep.floor(rule, 6, "addressing rows")


# ----------------------------------------------------------------------
def _compares_arg_with_state(atom) -> bool:
    """A comparison (== / != / in) between argument text and a term that is not a constant: 'this command is only valid if its
    argument equals something the listener remembers'."""
    from ..absint import is_const, show
    if not (isinstance(atom, tuple) and atom and atom[0] == "cmp" and atom[1] in ("==", "!=", "in", "notin")):
        return False
    a, b = atom[2], atom[3]

    def is_arg_text(t):
        s = show(t)
        return "getText()" in s and ("single_argument" in s or "compound_argument" in s)

    def constantish(t):
        if is_const(t):
            return True
        return isinstance(t, tuple) and t and t[0] in ("tuple", "list", "set") and all(is_const(x) for x in t[1:])
    return (is_arg_text(a) and not constantish(b) and not is_arg_text(b)) or (is_arg_text(b) and not constantish(a) and not is_arg_text(a))


def _position_at_end(atom, value: bool) -> bool:
    """A comparison of a (non-constant) argument position with the number of arguments: 'the keyword is the last argument'."""
    from ..absint import is_const, show
    if not (isinstance(atom, tuple) and atom and atom[0] == "cmp" and atom[1] in (">=", ">", "==", "<", "<=", "!=")):
        return False
    if atom[1] in ("==", "!=") and value == (atom[1] == "=="):
        # `params[-1].upper() == "NAME"`: the last argument is the keyword itself
        for x, y in ((atom[2], atom[3]), (atom[3], atom[2])):
            if is_const(y) and isinstance(y[1], str):
                while x[0] == "call" and x[1][0] == "attr" and x[1][2] in ("upper", "lower", "casefold") and not x[2]:
                    x = x[1][1]
                if x[0] == "sub" and x[2] == ("const", -1) and ("getText" in show(x[1]) or "single_argument" in show(x[1])):
                    return True
    a, b = show(atom[2]), show(atom[3])

    def is_len(t):
        return "len(" in t and ("getText" in t or "param" in t or "single_argument" in t)
    if not (is_len(a) != is_len(b)):
        return False
    other = atom[3] if is_len(a) else atom[2]
    if is_const(other):
        return False
    return True


def _unexplained_rejection(r, lm, k: str) -> Optional[str]:
    """None when the error row is one of the rejections that exist today (argument count outside ACCEPTED_ARITY, a keyword at
    the very end of the argument list, no enclosing class); else a description of the path condition."""
    from ..absint import show
    from .bindings import _len_interval
    lo_exp, hi_exp = ACCEPTED_ARITY[k]
    lo, hi = _len_interval(r, lm)
    if (hi is not None and hi < lo_exp) or (hi_exp is not None and lo > hi_exp):
        return None
    st = r.outcome.state
    handler_types = {a[1] for a, v in r.outcome.conds if a[0] == "exc" and v and a[1] != "Exception"}
    if handler_types:
        # rejected through an except handler: today that is `except IndexError` around "the argument after the keyword"
        if handler_types <= {"IndexError"}:
            return None
        return f"through `except {', '.join(sorted(handler_types))}` (more than the missing value of a keyword is treated as an error)"
    for a, v in r.outcome.conds:
        if a[0] in ("nonempty", "truthy") and a[1] == lm.clsstack and not v:
            return None
        if a[0] == "isnone" and lm.roles.get("classstack", "\0") in show(a[1]) and v:
            return None
        if a[0] == "loopexit":
            lp = st.loops.get(a[1])
            oc = lp["outcomes"][a[2]] if lp and a[2] < len(lp["outcomes"]) else None
            if oc is not None and any(c[0] == "exc" for c, _v in oc["conds"]):
                return None
            if oc is not None and any(_position_at_end(c, v2) for c, v2 in oc["conds"]):
                return None
        if _position_at_end(a, v):
            return None
    conds = " & ".join(("" if v else "not ") + show(a)[:60] for a, v in r.outcome.conds if a[0] not in ("exc",))
    return conds[:200] or "unconditional"


def rule_rejections(rep: Report, repo: Repo, rule: str, kinds=None) -> None:
    """A command is rejected (error logged / exception raised, no entry) only because of its own argument count, a keyword
    without value, or because it stands outside the block it needs - never because its argument *text* differs from something the
    listener remembers, and never because of the listener's bookkeeping."""
    from ..absint import show
    rep.rule(rule, "rows of the effect table that end in an error log or an exception are conditioned on the command's own "
                   "argument count / keyword scan / 'no enclosing block' only: no comparison of argument text with remembered state")
    lm = model(repo)
    n = 0
    for k in (kinds or lm.kinds()):
        for ev in ("DOC", "UNDOC"):
            for r in lm.rows(ev, k):
                if not (r.error or "exc" in r.val or (r.outcome.exit and r.outcome.exit[0] == "raise")):
                    continue
                n += 1
                bad = [a for a, v in r.outcome.conds if _compares_arg_with_state(a)]
                exc_types = {a[1] for a, v in r.outcome.conds if a[0] == "exc" and v}
                if not bad and ev == "DOC" and r.error and k in ACCEPTED_ARITY and (not exc_types or not exc_types <= {"Exception"}):
                    why_not = _unexplained_rejection(r, lm, k)
                    rep.check(why_not is None, rule, WHERE, f"{ev} {k} rejection [{row_case(r)[:60]}] explained",
                              f"a documented {k}() with an acceptable number of arguments is rejected (error logged, no entry, its "
                              f"doccomment lost) for a reason other than a keyword without value or a missing enclosing class: {why_not}",
                              witness=f"{k}() in a form CMake accepts, e.g. add_test(<name> <command>) without the NAME keyword")
                rep.check(not bad, rule, WHERE, f"{ev} {k} rejection [{row_case(r)[:60]}]",
                          f"a well-formed {k}() is rejected because its argument text is compared with remembered state "
                          f"(`{show(bad[0])[:90] if bad else ''}`): the command and what follows it are documented wrongly or not at all",
                          witness=f"{k}() whose class/test argument is spelled differently from the enclosing declaration")
    rep.floor(rule, 5, "rejection rows")


def rule_raise_census(rep: Report, repo: Repo, rule: str) -> None:
    """Every `raise` of the listener (other than re-raising inside an except handler) is guarded by a condition on the current
    command's arguments; a raise that depends on the listener's own stacks can reject a balanced file."""
    import ast as _ast
    from ..model import guards_of, norm, walk_no_nested
    rep.rule(rule, "every raise statement in the listener class is guarded by a test on the current command's arguments and by no "
                   "test on listener state; callbacks that exist today are the only ones that may raise")
    lm = model(repo)
    ci = repo.cls(lm.cls)
    m = repo.module(ci.module)
    state_attrs = {v for k, v in lm.roles.items() if isinstance(v, str) and not v.startswith("__")}
    n = 0
    for name, fn in ci.methods.items():
        for node in walk_no_nested(fn):
            if not isinstance(node, _ast.Raise):
                continue
            in_handler = False
            q = m.parents.get(node)
            while q is not None and q is not fn:
                if isinstance(q, _ast.ExceptHandler):
                    in_handler = True
                q = m.parents.get(q)
            if in_handler:
                continue
            n += 1
            gs = guards_of(fn, node, m.parents)
            texts = [norm(g.test) for g in gs]
            on_state = [t for t in texts if any(("self." + a) in t for a in state_attrs)]
            on_args = [t for t in texts if "param" in t or "single_argument" in t or "len(" in t or "args" in t]
            rep.check(bool(on_args) and not on_state, rule, f"{ci.module}:{lm.cls}.{name}", norm(node)[:80],
                      "this exception does not depend on the current command's arguments alone"
                      + (f" (it tests listener state: `{on_state[0][:60]}`)" if on_state else "")
                      + ": a file that CMake accepts can be rejected", witness="a balanced file with a documented function after ct_add_test()")
    rep.ok(rule, f"{ci.module}:{lm.cls}", f"{n} raise statement(s) examined")


# ----------------------------------------------------------------------
# Arities (number of single arguments) with which a *documented* command of each kind is accepted today; confirmed against the
# processors' argument checks and the property statements (name [params...], NAME <n>, <class> <name> [default], <name> <help>
# [default]).  None = no upper bound.  A row table that accepts less is over-strict validation (entries vanish), one that accepts
# more reaches index errors.
ACCEPTED_ARITY = {
    "function": (1, None), "macro": (1, None), "set": (1, None), "option": (2, 3),
    "cpp_class": (1, None), "cpp_member": (2, None), "cpp_constructor": (2, None), "cpp_attr": (2, None),
    "ct_add_test": (2, None), "ct_add_section": (2, None), "add_test": (2, None),
}


def rule_accepted_arities(rep: Report, repo: Repo, rule: str, kinds=None) -> None:
    from .bindings import _len_interval
    rep.rule(rule, "for every documented command kind, the argument counts that lead to an entry are exactly those of the table "
                   "ACCEPTED_ARITY (checked for 0..8 arguments on the effect table)")
    lm = model(repo)
    n_checked = 0
    for k, (lo_exp, hi_exp) in ACCEPTED_ARITY.items():
        if kinds and k not in kinds:
            continue
        rows = lm.rows("DOC", k)
        if not rows:
            continue
        acc = set()
        for r in rows:
            if r.error or "exc" in r.val or (r.outcome.exit and r.outcome.exit[0] == "raise"):
                continue
            lo, hi = _len_interval(r, lm)
            acc |= {n for n in range(0, 9) if n >= lo and (hi is None or n <= hi)}
        exp = {n for n in range(0, 9) if n >= lo_exp and (hi_exp is None or n <= hi_exp)}
        n_checked += 1
        missing, extra = sorted(exp - acc), sorted(acc - exp)
        msg = ""
        if missing:
            msg = f"a documented {k}() with {missing} argument(s) no longer produces an entry (it is rejected or dropped)"
        elif extra:
            msg = f"a documented {k}() with {extra} argument(s) is accepted although it lacks a mandatory argument"
        rep.check(not missing and not extra, rule, WHERE, f"{k}: accepted arities {sorted(acc)}", msg,
                  witness=f"{k}() with {(missing or extra or [0])[0]} arguments")
    rep.floor(rule, 2 if kinds else 8, "command kinds with an arity table")


# ----------------------------------------------------------------------
def rule_file_level_commands(rep: Report, repo: Repo, rule: str) -> None:
    """Every command is legal at file level, outside any function / macro / class block (a `cmake -P` script, the part of a
    module behind its last endfunction()).  With both stacks empty and nothing pending, no command kind may make the
    undocumented-command callback raise."""
    from ..absint import SELF, State, show
    from ..model import func_params
    rep.rule(rule, "with an empty definition stack, an empty class stack and no pending declaration, enterCommand_invocation "
                   "raises for no command kind (block-closing commands excepted: they are unbalanced there)")
    lm = model(repo)
    ci = repo.cls(lm.cls)
    fn = ci.methods["enterCommand_invocation"]
    closers = {"endfunction", "endmacro", "cpp_end_class"}
    n = 0
    for k in lm.kinds():
        if k in closers:
            continue
        ev = lm._evaluator(k)
        st = State()
        for role in ("defstack", "classstack"):
            name = lm.roles.get(role)
            if name and not name.startswith("__"):
                ref = st.alloc({"kind": "list", "items": []})
                st.fields[(SELF, name)] = ref
        aw = lm.roles.get("awaiting")
        if aw:
            st.fields[(SELF, aw)] = ("const", None)
        ctx = ("sym", "ctx")
        st.facts[("in", ctx, lm.consumed)] = False
        try:
            outs = ev.run_function(fn, {"self": SELF, func_params(fn)[1]: ctx}, st)
        except AnalysisError:
            raise
        n += 1
        crashes = []
        for o in outs:
            for e in o.effects[len(st.effects):]:
                if e[0] == "crash" and e[1] in ("IndexError",):
                    crashes.append(f"{e[1]}: {e[2]}")
        rep.check(not crashes, rule, WHERE, f"{k}() at file level",
                  f"{k}() outside any function/macro/class makes the listener raise ({'; '.join(sorted(set(crashes)))[:120]}): a valid "
                  f"script is rejected", witness=f"{k}(...) as the first command of a file")
    rep.floor(rule, 8, "command kinds at file level")


def rule_optional_documentation(rep: Report, repo: Repo, rule: str) -> None:
    """An element of the definition stack carries its documentation object or None (a definition that is tracked but not
    documented: the implementation of a test or member, a definition whose switch is off).  Reading an attribute *through* that
    field without having established that it is there raises AttributeError on a valid file."""
    import ast as _ast
    from ..model import guards_of, guard_atoms, norm
    from .. import roles
    rep.rule(rule, "every `<element>.documentation.<attr>` in the listener is guarded by isinstance(<element>.documentation, ...), "
                   "`<element>.documentation is not None` or the element's should_document flag")
    cls = roles.aggregator_class(repo)
    ci = repo.cls(cls)
    m = repo.module(ci.module)
    # the optional fields of the stack element record
    dc = repo.cls("DefinitionCommand") if repo.has_class("DefinitionCommand") else None
    opt_fields = {f.name for f in (dc.own_fields if dc else []) if "None" in f.annotation or "Optional" in f.annotation} or {"documentation"}
    n = 0
    for k in [k for k in repo.mro(cls) if k.module == ci.module]:
        for mname, fn in k.methods.items():
            for node in _ast.walk(fn):
                if not (isinstance(node, _ast.Attribute) and isinstance(node.value, _ast.Attribute) and node.value.attr in opt_fields):
                    continue
                base = norm(node.value)
                if base.startswith("self.") and base.count(".") == 1:
                    continue
                n += 1
                atoms = guard_atoms(guards_of(fn, node, m.parents))
                owner = norm(node.value.value)
                ok = any((t.startswith(f"isinstance({base},") and pol) or (t == f"{base} is None" and not pol) or
                         (t == f"{base} is not None" and pol) or (t == base and pol) or (t == f"{owner}.should_document" and pol)
                         for t, pol in atoms)
                rep.check(ok, rule, f"{ci.module}:{k.name}.{mname}", norm(node)[:60],
                          f"`{base}` may be None (a definition that is tracked but not documented) and `.{node.attr}` is read without a "
                          f"test: AttributeError on a valid file", witness="ct_add_test(NAME t) function(${t}) ... endfunction(t)")
    rep.ok(rule, f"{ci.module}:{cls}", f"{n} read(s) through the optional documentation field examined")

"""E7 rules on the serialized ATNs of the generated lexer and parser."""
from __future__ import annotations

import ast
from typing import Any, Dict, List, Optional, Set, Tuple

from .. import atn
from ..core import AnalysisError, Report
from ..listener import model as listener_model
from ..model import Repo, norm, walk_no_nested

LEX = "cminx.parser.CMakeLexer:serializedATN"
PAR = "cminx.parser.CMakeParser:serializedATN"
SKIPPED = ["Bracket_comment", "Line_comment", "Newline", "Space"]


def _lex_equal(rep: Report, repo: Repo, rule: str, names: List[str], max_level: int, depth: int, why: Dict[str, str]) -> None:
    lx = atn.lexer(repo)
    ref = atn.reference_languages(lx, max_level)
    R = ref["R"]
    for nm in names:
        if nm not in lx.names:
            raise AnalysisError(f"anchor vanished: lexer rule {nm}")
        d, trunc = lx.rule_dfa(nm, depth)
        rd = R.dfa(ref["refs"][nm])
        if nm in ("Bracket_argument", "Bracket_comment"):
            # both sides restricted to bracket levels 0..max_level (the call-stack bound truncates deeper recursion)
            flt = R.dfa(ref["level_filter"]("#" if nm == "Bracket_comment" else ""))
            d = atn.intersect_dfa(d, flt, lx.reps)
        eq, word, in_first = atn.equiv(d, rd, lx.reps)
        desc = f"{nm}: ATN DFA {d[3]} states vs reference {rd[3]} states" + (f" (levels 0..{max_level})" if "Bracket" in nm else "")
        msg = ""
        if not eq:
            msg = (f"token rule {nm} differs from cmake-language(7): the string {word!r} is "
                   f"{'accepted by CMinx but not by CMake' if in_first else 'valid CMake but not accepted by CMinx'}. {why.get(nm, '')}")
        rep.check(eq, rule, LEX, desc, msg, witness=repr(word) if word else None)


def rule_token_languages(rep: Report, repo: Repo, rule: str, tier: str) -> None:
    """C05-R2."""
    rep.rule(rule, "regular-language equality (DFA product, shortest counterexample) of the argument/escape token rules with "
                   "cmake-language(7): Identifier, Unquoted_argument (without legacy forms), Quoted_argument (with line "
                   "continuation), Bracket_argument levels 0..3 (0..5 thorough), Escape_sequence")
    lvl, depth = (5, 8) if tier == "thorough" else (3, 6)
    _lex_equal(rep, repo, rule, ["Identifier", "Unquoted_argument", "Quoted_argument", "Bracket_argument", "Escape_sequence"], lvl, depth,
               {"Unquoted_argument": "Argument boundaries move or valid files are rejected.",
                "Quoted_argument": "Strings with this content are mis-tokenised.",
                "Bracket_argument": "Bracket arguments of this shape are mis-tokenised."})
    lx = atn.lexer(repo)
    # non-greedy close of bracket content
    ng = lx.nongreedy_decisions()
    rep.check(any(ng.get("Bracket_arg_nested", [])), rule, LEX, f"Bracket_arg_nested non-greedy: {ng.get('Bracket_arg_nested')}",
              "the bracket content loop is greedy: a bracket argument extends to the LAST closing bracket of the file",
              witness="set(a [[x]]) set(b [[y]])")
    # rule priority: Identifier before Unquoted_argument (equal-length matches must yield Identifier for command names)
    order = lx.names
    rep.check(order.index("Identifier") < order.index("Unquoted_argument"), rule, LEX, "Identifier precedes Unquoted_argument",
              "command names lex as Unquoted_argument: no command is recognised")
    # token type tables agree between lexer and parser
    lt = atn.class_tables(repo, "cminx.parser.CMakeLexer", "CMakeLexer")["consts"]
    pt = atn.class_tables(repo, "cminx.parser.CMakeParser", "CMakeParser")["consts"]
    common = {k: (lt[k], pt[k]) for k in lt if k in pt and not k.startswith("RULE_")}
    bad = {k: v for k, v in common.items() if v[0] != v[1]}
    rep.check(not bad and len(common) >= 13, rule, "cminx.parser", f"{len(common)} token constants agree between lexer and parser",
              f"token numbering differs between CMakeLexer and CMakeParser: {bad}")
    r2t = lx.token_type_of_rule()
    mism = {n: (r2t[n], lt.get(n)) for n in lx.names if n in lt and r2t[n] != lt[n]}
    rep.check(not mism, rule, LEX, "ATN ruleToTokenType agrees with the token constants", f"ATN token types differ from the constants: {mism}")


def rule_skipped_tokens(rep: Report, repo: Repo, rule: str, tier: str) -> None:
    """C04-R1."""
    rep.rule(rule, "exactly Bracket_comment, Line_comment, Newline and Space end in the `skip` action on every accepting path, no "
                   "other rule carries an action; their languages equal the manual's comment/space/newline forms")
    lx = atn.lexer(repo)
    acts = lx.actions_per_rule()
    for nm in lx.names:
        a = acts.get(nm, [])
        if nm in SKIPPED:
            ok = a and all(x == "LexerSkipAction" for x in a) and lx.action_on_every_accepting_path(nm)
            rep.check(bool(ok), rule, LEX, f"{nm}: actions {a}",
                      f"{nm} tokens are not skipped on every path: they reach the parser, which rejects the file or changes the tree",
                      witness={"Space": "set( a )", "Newline": "set(a\\n b)", "Line_comment": "set(a # c\\n)", "Bracket_comment": "set(a #[[c]] b)"}[nm])
        else:
            rep.check(not a, rule, LEX, f"{nm}: no action", f"{nm} carries lexer action(s) {a}: its tokens are dropped or re-typed")
    lvl, depth = (5, 8) if tier == "thorough" else (3, 6)
    _lex_equal(rep, repo, rule, SKIPPED, lvl, depth,
               {"Line_comment": "Comments of this shape are not skipped, or swallow following text.",
                "Bracket_comment": "Bracket comments of this shape are not skipped."})
    rep.floor(rule, 20, "skip facts")


def rule_doc_tokens(rep: Report, repo: Repo, rule: str) -> None:
    """C01-R7."""
    rep.rule(rule, "Docstring/Module_docstring precede Bracket_comment and Line_comment (equal-length matches resolve to the "
                   "doccomment), their bodies are non-greedy, their languages are '#[[[' any* '#]]' (module: + '@module' [name]); "
                   "documented_command = bracket_doccomment command_invocation")
    lx = atn.lexer(repo)
    order = lx.names
    for a in ("Module_docstring", "Docstring"):
        for b in ("Bracket_comment", "Line_comment"):
            rep.check(order.index(a) < order.index(b), rule, LEX, f"{a} precedes {b}",
                      f"{b} wins the tie against {a}: doccomments are skipped as ordinary comments and every documented command loses its text")
    rep.check(order.index("Module_docstring") < order.index("Docstring"), rule, LEX, "Module_docstring precedes Docstring",
              "a module doccomment lexes as an ordinary doccomment and is attached to the following command")
    ng = lx.nongreedy_decisions()
    for nm in ("Docstring", "Module_docstring"):
        rep.check(any(ng.get(nm, [])), rule, LEX, f"{nm} body non-greedy: {ng.get(nm)}",
                  f"the body of {nm} is greedy: the first doccomment extends to the last '#]]' of the file, swallowing every command in between",
                  witness="two documented functions in one file")
    _lex_equal(rep, repo, rule, ["Docstring", "Module_docstring"], 3, 6, {})
    p = atn.parser(repo)
    S = lambda x: ("sym", x)
    refs = {
        "documented_command": ("cat", [S("rule:bracket_doccomment"), S("rule:command_invocation")]),
        "bracket_doccomment": ("cat", [S("tok:Docstring")]),
        "documented_module": ("cat", [S("tok:Module_docstring")]),
    }
    for nm, r in refs.items():
        d, rd = p.rule_dfa(nm), p.ref_dfa(r)
        eq, word, first = atn.equiv(d, rd, p.alphabet(), show=p.word)
        rep.check(eq, rule, PAR, f"parser rule {nm}", f"parser rule {nm} is not `{_fmt(r)}`: counterexample `{word}`")
    rep.floor(rule, 12, "doccomment token facts")


def _fmt(r) -> str:
    k = r[0]
    if k == "sym":
        return r[1].split(":", 1)[1]
    if k == "cat":
        return " ".join(_fmt(x) for x in r[1])
    if k == "alt":
        return "(" + " | ".join(_fmt(x) for x in r[1]) + ")"
    if k == "star":
        return "(" + _fmt(r[1]) + ")*"
    return "?"


def rule_parser_languages(rep: Report, repo: Repo, rule: str) -> None:
    """C05-R3."""
    rep.rule(rule, "parser rule languages: command_invocation = Identifier '(' (single_argument | compound_argument)* ')', "
                   "compound_argument = '(' (...)* ')', single_argument = one of the four argument tokens")
    p = atn.parser(repo)
    S = lambda x: ("sym", x)
    lpar, rpar = S("tok:'('"), S("tok:')'")
    inner = ("star", ("alt", [S("rule:single_argument"), S("rule:compound_argument")]))
    refs = {
        "command_invocation": ("cat", [S("tok:Identifier"), lpar, inner, rpar]),
        "compound_argument": ("cat", [lpar, inner, rpar]),
        "single_argument": ("alt", [S("tok:Identifier"), S("tok:Unquoted_argument"), S("tok:Bracket_argument"), S("tok:Quoted_argument")]),
    }
    for nm, r in refs.items():
        d, rd = p.rule_dfa(nm), p.ref_dfa(r)
        eq, word, first = atn.equiv(d, rd, p.alphabet(), show=p.word)
        rep.check(eq, rule, PAR, f"parser rule {nm}",
                  f"parser rule {nm} is not `{_fmt(r)}`: the token sequence `{word}` is "
                  f"{'accepted although CMake rejects it' if first else 'valid CMake but rejected'}",
                  witness=word)
    # literal tokens '(' and ')'
    lt = atn.class_tables(repo, "cminx.parser.CMakeLexer", "CMakeLexer")
    rep.check(lt.get("literalNames", [])[1:3] == ["'('", "')'"], rule, "cminx.parser.CMakeLexer", "T__0 = '(' and T__1 = ')'",
              "the parenthesis tokens are not '(' and ')'")
    rep.floor(rule, 4, "parser rule languages")


def rule_file_grammar(rep: Report, repo: Repo, rule: str) -> None:
    """C02-R5."""
    rep.rule(rule, "cmake_file = documented_module? (documented_command | command_invocation | bracket_doccomment)* EOF with the "
                   "alternatives in that order; command_invocation contains no nested command; the listener overrides exactly the "
                   "four enter* callbacks the effect table assumes")
    p = atn.parser(repo)
    S = lambda x: ("sym", x)
    r = ("cat", [("alt", [S("rule:documented_module"), ("cat", [])]),
                 ("star", ("alt", [S("rule:documented_command"), S("rule:command_invocation"), S("rule:bracket_doccomment")])),
                 S("tok:EOF")])
    d, rd = p.rule_dfa("cmake_file"), p.ref_dfa(r)
    eq, word, first = atn.equiv(d, rd, p.alphabet(), show=p.word)
    rep.check(eq, rule, PAR, "entry rule cmake_file", f"cmake_file is not `{_fmt(r)}`: counterexample `{word}`", witness=word)
    rep.check(p.rules[0] == "cmake_file", rule, PAR, "rule 0 is cmake_file", "the entry rule is not rule 0")
    # alternative order at the loop-body decision
    T = p.T
    found = False
    for dec in p.atn.decisionToState:
        if p.rules[dec.ruleIndex] != "cmake_file":
            continue
        targets = []
        for t in dec.transitions:
            s = t.target
            seen = 0
            while s is not None and seen < 4:
                rt = [x for x in s.transitions if isinstance(x, T.RuleTransition)]
                if rt:
                    targets.append(p.rules[rt[0].ruleIndex])
                    break
                s = s.transitions[0].target if s.transitions else None
                seen += 1
        if len(targets) == 3:
            found = True
            rep.check(targets == ["documented_command", "command_invocation", "bracket_doccomment"], rule, PAR,
                      f"alternative order {targets}",
                      "the ambiguity between a documented command and a dangling doccomment followed by a command is resolved the wrong way: "
                      "doccomments are reported dangling and their commands lose the documentation",
                      witness="#[[[\\n# doc\\n#]]\\nfunction(f)")
    rep.check(found, rule, PAR, "three-way decision of cmake_file found", "the (documented_command | command_invocation | bracket_doccomment) decision is missing")
    # no nested command inside command_invocation / arguments
    for nm in ("command_invocation", "single_argument", "compound_argument"):
        st, tr, acc = p.rule_nfa(p.rules.index(nm))
        refs = {s for outs in tr.values() for lab, _t in outs if lab for s in lab if s.startswith("rule:")}
        rep.check(refs <= {"rule:single_argument", "rule:compound_argument"}, rule, PAR, f"{nm} references {sorted(refs)}",
                  f"{nm} can contain nested commands: the listener sees command events inside argument lists")
    # listener callbacks
    lm = listener_model(repo)
    ci = repo.cls(lm.cls)
    try:
        family = [k for k in repo.mro(ci.name) if k.module == ci.module]      # hand-written base classes count too
    except Exception:
        family = [ci]
    cbs = sorted({n for k in family for n in k.methods if n.startswith("enter") or n.startswith("exit") or n.startswith("visit")})
    exp = sorted(["enterBracket_doccomment", "enterCommand_invocation", "enterDocumented_command", "enterDocumented_module"])
    rep.check(cbs == exp, rule, f"cminx.aggregator:{lm.cls}", f"callbacks {cbs}",
              f"the listener overrides {cbs}; the effect table models exactly {exp} (an extra callback can add or change entries)")
    # the generated contexts dispatch to those names
    m = repo.module("cminx.parser.CMakeParser")
    src_names = {n.value for n in ast.walk(m.tree) if isinstance(n, ast.Constant) and isinstance(n.value, str) and n.value.startswith("enter")}
    rep.check(set(exp) <= src_names, rule, "cminx.parser.CMakeParser", "context classes dispatch to the four callbacks",
              f"generated contexts no longer call {sorted(set(exp) - src_names)}")
    rep.floor(rule, 8, "file grammar facts")


# ----------------------------------------------------------------------
def _tokens_of_guard(test: ast.expr, consts: Dict[str, int]) -> Optional[Set[int]]:
    """Decode `_la==A or _la==B`, the bit-mask form and `token in [A, B]`."""
    def tok(e) -> Optional[int]:
        if isinstance(e, ast.Attribute) and e.attr in consts:
            return consts[e.attr]
        if isinstance(e, ast.Attribute) and e.attr == "EOF":
            return -1
        return None
    if isinstance(test, ast.UnaryOp) and isinstance(test.op, ast.Not):
        return _tokens_of_guard(test.operand, consts)
    if isinstance(test, ast.BoolOp) and isinstance(test.op, ast.Or):
        out: Set[int] = set()
        for v in test.values:
            s = _tokens_of_guard(v, consts)
            if s is None:
                return None
            out |= s
        return out
    if isinstance(test, ast.Compare) and len(test.ops) == 1:
        if isinstance(test.ops[0], ast.Eq):
            t = tok(test.comparators[0])
            if t is not None and "la" in norm(test.left).lower():
                return {t}
        if isinstance(test.ops[0], ast.In) and isinstance(test.comparators[0], (ast.List, ast.Tuple)):
            ts = [tok(e) for e in test.comparators[0].elts]
            if all(t is not None for t in ts):
                return set(ts)
    if isinstance(test, ast.BoolOp) and isinstance(test.op, ast.And):
        # ((_la) & ~0x3f) == 0 and ((1 << _la) & (mask)) != 0
        out = set()
        for n in ast.walk(test):
            if isinstance(n, ast.BinOp) and isinstance(n.op, ast.LShift) and isinstance(n.left, ast.Constant) and n.left.value == 1:
                t = tok(n.right)
                if t is not None:
                    out.add(t)
        return out or None
    return None


def rule_generated_guards(rep: Report, repo: Repo, rule: str) -> None:
    """C05-R4 (thorough)."""
    rep.rule(rule, "for every LL(1) decision of the generated parser the token set in the generated guard equals the FIRST set of "
                   "the guarded alternative in the ATN; the adaptivePredict alternatives call the rules in ATN order")
    p = atn.parser(repo)
    consts = p.tables["consts"]
    m = repo.module("cminx.parser.CMakeParser")
    pcls = [n for n in m.tree.body if isinstance(n, ast.ClassDef) and n.name == "CMakeParser"][0]
    n = 0
    for fn in pcls.body:
        if not (isinstance(fn, ast.FunctionDef) and fn.name in p.rules):
            continue
        last_state = [None]
        handled: Set[int] = set()

        def visit(stmts):
            nonlocal n
            for st in stmts:
                if id(st) in handled:
                    # elif part of a chain that was judged as a whole; still descend into its bodies
                    for fld in ("body", "orelse"):
                        sub = getattr(st, fld, None)
                        if isinstance(sub, list) and sub and isinstance(sub[0], ast.stmt):
                            visit(sub)
                    continue
                if isinstance(st, ast.Assign) and norm(st.targets[0]) == "self.state" and isinstance(st.value, ast.Constant):
                    last_state[0] = st.value.value
                if isinstance(st, (ast.While, ast.If)):
                    toks = _tokens_of_guard(st.test, consts)
                    state_no = last_state[0]
                    if toks is not None and state_no is not None and "la_" not in norm(st.test):
                        s = p.atn.states[state_no]
                        chain = [st]
                        if isinstance(st, ast.If):
                            cur = st
                            while cur.orelse and len(cur.orelse) == 1 and isinstance(cur.orelse[0], ast.If):
                                cur = cur.orelse[0]
                                chain.append(cur)
                                handled.add(id(cur))
                        if hasattr(s, "decision") and s.decision >= 0 and s.transitions:
                            for i, node in enumerate(chain):
                                tk = _tokens_of_guard(node.test, consts)
                                if tk is None or i >= len(s.transitions):
                                    continue
                                first = {x for x in p.first_of_state(s.transitions[i].target) if x != -2}
                                n += 1
                                rep.check(tk == first, rule, f"cminx.parser.CMakeParser:CMakeParser.{fn.name}",
                                          f"decision at state {state_no} alt {i + 1}: guard {sorted(p.tok_name(t) for t in tk)}",
                                          f"the generated guard accepts {sorted(p.tok_name(t) for t in tk)} but the ATN alternative starts with "
                                          f"{sorted(p.tok_name(t) for t in first)}: valid input is rejected or the wrong branch is taken",
                                          witness="arguments of the token kind that differs")
                        else:
                            # plain set match (single_argument): `if not(mask)` -> tokens of the set transition
                            labs = set()
                            for t in s.transitions:
                                l = p._labels(t)
                                if l:
                                    labs |= set(l)
                            if labs:
                                n += 1
                                rep.check(toks == labs, rule, f"cminx.parser.CMakeParser:CMakeParser.{fn.name}",
                                          f"set match at state {state_no}: {sorted(p.tok_name(t) for t in toks)}",
                                          f"the generated match accepts {sorted(p.tok_name(t) for t in toks)}, the ATN {sorted(p.tok_name(t) for t in labs)}")
                    if "la_ ==" in norm(st.test) and isinstance(st, ast.If):
                        # adaptivePredict chain: alt i calls rule i
                        calls = []
                        cur = st
                        while True:
                            c = [norm(x.value.func).split(".")[-1] for x in cur.body if isinstance(x, ast.Expr) and isinstance(x.value, ast.Call)]
                            calls.append(c[0] if c else None)
                            if cur.orelse and len(cur.orelse) == 1 and isinstance(cur.orelse[0], ast.If):
                                cur = cur.orelse[0]
                                handled.add(id(cur))
                            else:
                                break
                        n += 1
                        rep.check(calls == ["documented_command", "command_invocation", "bracket_doccomment"], rule,
                                  f"cminx.parser.CMakeParser:CMakeParser.{fn.name}", f"adaptivePredict alternatives call {calls}",
                                  "the predicted alternative numbers are mapped to other rules than in the ATN")
                for fld in ("body", "orelse", "finalbody"):
                    sub = getattr(st, fld, None)
                    if isinstance(sub, list) and sub and isinstance(sub[0], ast.stmt):
                        visit(sub)
                if isinstance(st, ast.Try):
                    for h in st.handlers:
                        visit(h.body)
        visit(fn.body)
    rep.floor(rule, 7, "generated decisions")

"""C08 - include_undocumented_* options only affect commands without a doccomment."""
from ..core import Report
from ..model import Repo
from . import protocol, tables


def run(rep: Report, repo: Repo, tier: str) -> None:
    rep.unit("src/cminx/aggregator.py", "src/cminx/config.py", "src/cminx/config_default.yaml")
    rep.assume("ParseTreeWalker calls enterDocumented_command, enterBracket_doccomment, enterCommand_invocation in that order "
               "for a documented command and enterCommand_invocation alone for an undocumented one (checked against the parser "
               "ATN by C02-R5)",
               "the listener depends on the input only through the command name, the argument count and the abstract state "
               "atoms listed in the evidence")
    with rep.isolated():
        protocol.rule_flag_independence(rep, repo, "C08-R1", "C08-R2")
    with rep.isolated():
        tables.rule_flag_tables(rep, repo, "C08-R3")
    with rep.isolated():
        protocol.rule_top_addressing(rep, repo, "C08-R4")
    from . import render
    with rep.isolated():
        render.rule_member_independence(rep, repo, "C08-R5")
    # a documented command produces its entry whatever the switches say: it is rejected only for its own arity
    with rep.isolated():
        protocol.rule_rejections(rep, repo, "C08-R6")
    # what an entry shows is a function of its own command (+ doc): no element (a macro note on a test, ...) that the
    # switch-dependent hand-off between commands could switch on or off
    with rep.isolated():
        render.rule_kind_rendering(rep, repo, "C08-R7")
    if tier == "thorough":
        from . import trace_rules
        with rep.isolated():
            trace_rules.rule_flag_traces(rep, repo, "C08-I1")
    # every doccomment-carrying command gets its own entry, built from its own arguments, whatever stood before it
    with rep.isolated():
        protocol.rule_protocol_default(rep, repo, "C08-R8")
    with rep.isolated():
        render.rule_class_rendering(rep, repo, "C08-R9")
    # the switch consulted is the one of the command's kind however the command is capitalised
    from . import misc_rules as _mr
    with rep.isolated():
        _mr.rule_case_folding(rep, repo, "C08-R10")
    # a doccomment-carrying command in an accepted form always gets its own entry (it is never re-routed to a neighbour)
    with rep.isolated():
        protocol.rule_accepted_arities(rep, repo, "C08-R11")

"""C11 - test entries carry the declared name, EXPECTFAIL flag and arguments."""
from ..core import Report
from ..model import Repo
from . import bindings, misc_rules, protocol, render


def run(rep: Report, repo: Repo, tier: str) -> None:
    rep.unit("src/cminx/aggregator.py", "src/cminx/documentation_types.py")
    rep.assume("keywords are upper case as CMake requires; the scan loop is summarised as 'last matching position wins'")
    with rep.isolated():
        bindings.rule_test_bindings(rep, repo, "C11-R1", "C11-R3")
    with rep.isolated():
        misc_rules.rule_siblings_agree(rep, repo, "C11-R2")
    with rep.isolated():
        render.rule_test_rendering(rep, repo, "C11-R4")
    # sections are entries of their own, in order: protocol rows of the test kinds
    from ..listener import model
    lm = model(repo)
    rows = [r for k in ("ct_add_test", "ct_add_section", "add_test") for ev in ("DOC", "UNDOC") for r in lm.rows(ev, k)
            if ev == "DOC" or protocol.default_flags(r)]   # documented commands: under every setting
    with rep.isolated():
        protocol.check_rows(rep, "C11-R5", rows, ["entries", "awaiting"], "test entry protocol")
    with rep.isolated():
        rep.rule("C11-R5", "every ct_add_test / ct_add_section / add_test event appends exactly one entry of its own kind (sections are "
                           "entries of their own, in source order)")
    rep.floor("C11-R5", 8, "test protocol rows")
    # ... and every entry of the list is rendered, once, in list order
    with rep.isolated():
        misc_rules.rule_document_order(rep, repo, "C11-R6")
    # "shows all its other arguments": the signature reaches the text as written (no whitespace normalisation on the way)
    from . import writer_rules
    with rep.isolated():
        writer_rules.rule_values_verbatim(rep, repo, "C11-R7")
    # the test commands are recognised however their name is capitalised (CMake command names are case-insensitive)
    with rep.isolated():
        misc_rules.rule_case_folding(rep, repo, "C11-R8")
    with rep.isolated():
        protocol.rule_accepted_arities(rep, repo, "C11-R9", kinds=["ct_add_test", "ct_add_section", "add_test"])
    with rep.isolated():
        protocol.rule_rejections(rep, repo, "C11-R10", kinds=["ct_add_test", "ct_add_section", "add_test"])
    # what a test entry shows: `function` directive with the one warning, signature = name(arguments joined by one space)
    from . import render as _render
    with rep.isolated():
        _render.rule_kind_rendering(rep, repo, "C11-R11", only={"TestDocumentation", "SectionDocumentation", "CTestDocumentation"})
    # an undocumented test command consults the switch of its own kind
    with rep.isolated():
        protocol.rule_own_flag(rep, repo, "C11-R12", kinds=["ct_add_test", "ct_add_section", "add_test"])

"""C20 - RSTWriter serialisation is pure and keeps nested content indented."""
from ..core import Report
from ..model import Repo
from . import writer_rules


def run(rep: Report, repo: Repo, tier: str) -> None:
    rep.unit("src/cminx/rstwriter.py")
    rep.assume("str.split/join, f-string and += semantics; for-loops over a str iterate its characters",
               "section()/simple_table()/doctest inside directives are outside the property's quantifier")
    with rep.isolated():
        writer_rules.rule_purity(rep, repo, "C20-R1")
    with rep.isolated():
        writer_rules.rule_heading(rep, repo, "C20-R2")
    with rep.isolated():
        writer_rules.rule_line_start_indent(rep, repo, "C20-R3")
    with rep.isolated():
        writer_rules.rule_indent_plumbing(rep, repo, "C20-R4")
    with rep.isolated():
        writer_rules.rule_directive_order(rep, repo, "C20-R5")
    with rep.isolated():
        writer_rules.rule_paragraph(rep, repo, "C20-R6")
    with rep.isolated():
        writer_rules.rule_values_verbatim(rep, repo, "C20-R7")
    # "re-framed when the title is changed": the heading is always the first element and no other copy of it is kept that
    # could come back (clear() keeps document[0], it does not restore a cached heading)
    from . import misc_rules
    with rep.isolated():
        misc_rules.rule_writer_first_element(rep, repo, "C20-R8")
    # "directive options are emitted ... interleaved with title changes and clear()": clear() empties the content only
    with rep.isolated():
        writer_rules.rule_options_persist(rep, repo, "C20-R9")

"""E2T - abstract trace exploration (thorough tier).

The effect table extracted by E2 is used as the transition function of an
abstract machine (definition stack, class stack, awaiting slot).  A generator
of well-nested event sequences (blocks function/macro/cpp_class nested up to
depth D, declarations followed by their implementing definition, flat commands,
each optionally documented) drives the machine; a *reference semantics* written
from the property statements runs alongside.  After every event the machine
must agree with the reference: entries appended, attachment targets, which
definition is marked by cmake_parse_arguments, and the correspondence between
the machine's stacks and the open blocks.  The exploration is a reachability
search over (open blocks, machine state); a disagreement is reported with the
event sequence that reaches it.  This executes the extracted model, not CMinx.
"""
from __future__ import annotations

from collections import deque
from typing import Any, Dict, List, Optional, Tuple

from ..core import AnalysisError, Report
from ..listener import CTRL_KINDS, OTHER, ListenerModel, Row, model
from ..model import Repo
from .protocol import ENTRY_CLASS, FLAGGED, MEMBER_FIELD, WHERE

DEFS = ("function", "macro")
DECLS = ("cpp_member", "cpp_constructor", "ct_add_test", "ct_add_section")
FLAT = ("add_test", "option", "set", OTHER)
END = {"function": "endfunction", "macro": "endmacro", "cpp_class": "cpp_end_class"}


class Machine:
    """Immutable-ish abstract machine state."""
    __slots__ = ("defs", "clss", "awaiting")

    def __init__(self, defs=(), clss=(), awaiting=None):
        self.defs = defs          # tuple of ('E', block_id) | ('P', should_document)
        self.clss = clss          # tuple of ('C', block_id) | ('N',)
        self.awaiting = awaiting  # None | ('M'|'T', owner)

    def key(self):
        return (self.defs, self.clss, self.awaiting)


def atoms(m: Machine) -> Dict[str, Any]:
    a: Dict[str, Any] = {"awaiting": m.awaiting is not None, "cls_nonempty": bool(m.clss), "def_nonempty": bool(m.defs)}
    if m.awaiting is not None:
        a["awaiting_is:MethodDocumentation"] = m.awaiting[0] == "M"
    if m.clss:
        a["cls_top_none"] = m.clss[-1][0] == "N"
    if m.defs:
        top = m.defs[-1]
        a["def_top_isdoc"] = top[0] == "E"
        a["def_top_should"] = True if top[0] == "E" else bool(top[1])
    return a


def select_row(lm: ListenerModel, event: str, kind: str, m: Machine, flags: Dict[str, bool]) -> Row:
    at = atoms(m)
    cands = []
    for r in lm.rows(event, kind):
        if r.error or "exc" in r.val or "loopexit" in r.val:
            continue
        ok = True
        for k, v in r.val.items():
            if k in ("arity", "other", "consumed"):
                continue
            if k.startswith("inc:"):
                if flags.get(k[4:], True) != v:
                    ok = False
                    break
                continue
            if k not in at or at[k] != v:
                ok = False
                break
        if ok:
            cands.append(r)
    if not cands:
        raise AnalysisError(f"effect table has no non-error row for {event} {kind} in state {at} with flags "
                            f"{ {k: v for k, v in flags.items() if not v} }")
    # several rows differ only by argument count: prefer the one with most arguments (params present)
    cands.sort(key=lambda r: (len(r.claim), -str(r.val.get("arity", "")).count("not ")), reverse=True)
    return cands[0]


def apply(r: Row, m: Machine, block_id: Any):
    """Apply a row. Returns (new machine, delta) where delta describes what happened."""
    defs, clss, aw = list(m.defs), list(m.clss), m.awaiting
    pre_def_top = defs[-1] if defs else None
    pre_cls_top = clss[-1] if clss else None
    delta = {"entries": list(r.entries), "attach": [], "mark": [], "claim": None}
    dp, cp = list(r.defpush), list(r.clspush)
    for op in r.order:
        if op == "defpush":
            kind, sd, what = dp.pop(0)
            defs.append(("E", block_id) if kind == "entry" else ("P", sd is True))
        elif op == "clspush":
            c = cp.pop(0)
            clss.append(("C", block_id) if c == "class" else ("N",))
        elif op == "defpop":
            if not defs:
                raise _Underflow("definition stack")
            defs.pop()
        elif op == "clspop":
            if not clss:
                raise _Underflow("class stack")
            clss.pop()
        elif op.startswith("attach:"):
            pass
    for fld, cls in r.attach:
        delta["attach"].append((fld, pre_cls_top))
    for mk in r.mark:
        delta["mark"].append(pre_def_top if mk == "top" else ("?", mk))
    if r.claim:
        delta["claim"] = aw
    if r.awaiting == "clear":
        aw = None
    elif r.awaiting and r.awaiting.startswith("set:"):
        aw = ("M" if "Method" in r.awaiting else "T", block_id)
    return Machine(tuple(defs), tuple(clss), aw), delta


class _Underflow(Exception):
    pass


def explore(lm: ListenerModel, flags: Dict[str, bool], depth: int, max_states: int = 200000):
    """BFS over (open blocks, pending declaration, machine).  Returns
    (stats, problems); a problem is (category, event, message, trace)."""
    # generator state: blocks = tuple of (kind, shown: bool, id), pending = None | decl kind
    start = ((), None, Machine())
    seen = {(start[0], start[1], start[2].key()): None}
    queue = deque([start])
    problems: List[Tuple[str, str, str, List[str]]] = []
    seen_problem_keys = set()
    transitions = 0
    next_id = [0]

    def trace_of(key) -> List[str]:
        out = []
        while seen.get(key) is not None:
            key, ev = seen[key]
            out.append(ev)
        return list(reversed(out))

    bad_transition = [False]

    def report(cat, ev, msg, key, extra_ev):
        bad_transition[0] = True
        k = (cat, ev, msg[:60])
        if k in seen_problem_keys:
            return
        seen_problem_keys.add(k)
        problems.append((cat, ev, msg, trace_of(key) + [extra_ev]))

    while queue:
        blocks, pending, mach = queue.popleft()
        key = (blocks, pending, mach.key())
        inner = blocks[-1] if blocks else None
        events: List[Tuple[str, str]] = []
        if pending is not None:
            # the implementing definition follows its declaration
            events = [("UNDOC", "function"), ("UNDOC", "macro")] if len(blocks) < depth else []
        else:
            if len(blocks) < depth:
                for k in DEFS + ("cpp_class",):
                    events += [("DOC", k), ("UNDOC", k)]
            for k in FLAT:
                events += [("DOC", k), ("UNDOC", k)]
            if len(blocks) < depth:
                for k in ("ct_add_test", "ct_add_section"):
                    events += [("DOC", k), ("UNDOC", k)]
                if inner is not None and inner[0] == "cpp_class":
                    for k in ("cpp_member", "cpp_constructor"):
                        events += [("DOC", k), ("UNDOC", k)]
            if inner is not None and inner[0] == "cpp_class":
                events += [("DOC", "cpp_attr"), ("UNDOC", "cpp_attr")]
            if inner is not None:
                events.append(("UNDOC", END[inner[0]]))
            events.append(("UNDOC", "cmake_parse_arguments"))
        for ev, k in events:
            transitions += 1
            bad_transition[0] = False
            evname = f"{ev} {k}"
            bid = (len(blocks), k, ev)          # identity of a block opened / object created by this event
            try:
                row = select_row(lm, ev, k, mach, flags)
                m2, delta = apply(row, mach, bid)
            except _Underflow as u:
                report("stack", evname, f"{u} underflow", key, evname)
                continue
            shown = ev == "DOC" or (k in FLAGGED and flags.get(k, True))
            # ---------------- reference semantics
            exp_entries: List[str] = []
            new_blocks, new_pending = blocks, None
            innermost_class = next((b for b in reversed(blocks) if b[0] == "cpp_class"), None)
            innermost_def = next((b for b in reversed(blocks) if b[0] in DEFS), None)
            if k in DEFS:
                if pending is not None:
                    # implementation of the pending declaration: no entry, opens a block that documents nothing
                    new_blocks = blocks + ((k, False, bid),)
                else:
                    if shown:
                        exp_entries = [ENTRY_CLASS[k]]
                    new_blocks = blocks + ((k, shown, bid),)
            elif k == "cpp_class":
                if shown:
                    exp_entries = [ENTRY_CLASS[k]]
                new_blocks = blocks + ((k, shown, bid),)
            elif k in END.values():
                new_blocks = blocks[:-1]
            elif k in MEMBER_FIELD:
                cls_shown = inner is not None and inner[0] == "cpp_class" and inner[1]
                if shown and cls_shown and k != "cpp_attr":
                    new_pending = k
                elif k != "cpp_attr" and shown and not cls_shown:
                    new_pending = None
                # a declaration whose class is hidden (or that is itself hidden) does not claim a definition;
                # its implementing definition then is an ordinary undocumented definition
                if k != "cpp_attr" and not (shown and cls_shown):
                    new_pending = None
            elif k in ("ct_add_test", "ct_add_section"):
                if shown:
                    exp_entries = [ENTRY_CLASS[k]]
                    new_pending = k
            elif k in ("add_test", "option"):
                if shown:
                    exp_entries = [ENTRY_CLASS[k]]
            elif k == "set":
                if ev == "DOC":
                    exp_entries = ["VariableDocumentation"]
            elif k == "cmake_parse_arguments":
                pass
            else:
                if ev == "DOC":
                    exp_entries = ["GenericCommandDocumentation"]
            # ---------------- compare
            if delta["entries"] != exp_entries:
                report("entries", evname, f"appends {delta['entries']}, the properties require {exp_entries}", key, evname)
            if k in MEMBER_FIELD:
                cls_shown = inner is not None and inner[0] == "cpp_class" and inner[1]
                want = [(MEMBER_FIELD[k][0], ("C", inner[2]))] if (shown and cls_shown) else []
                if delta["attach"] != want:
                    report("attach", evname, f"attaches {delta['attach']}, expected {want} (innermost open class)", key, evname)
            elif k == "cpp_class" and shown:
                outer = next((b for b in reversed(blocks) if b[0] == "cpp_class"), None)
                want = [("inner_classes", ("C", outer[2]))] if outer is not None and outer[1] else []
                if delta["attach"] != want:
                    report("attach", evname, f"registers inner class as {delta['attach']}, expected {want}", key, evname)
            elif delta["attach"]:
                report("attach", evname, f"unexpected attachment {delta['attach']}", key, evname)
            if k == "cmake_parse_arguments":
                # only the innermost open function/macro counts (class blocks in between are still its body)
                want_mark = [("E", innermost_def[2])] if (innermost_def is not None and innermost_def[1]) else []
                if delta["mark"] != want_mark:
                    report("mark", evname, f"marks {delta['mark']}, expected {want_mark}: cmake_parse_arguments must mark the innermost open "
                                           f"definition iff that definition is documented", key, evname)
            elif delta["mark"]:
                report("mark", evname, f"unexpected **kwargs mark {delta['mark']}", key, evname)
            if k in DEFS and pending is not None:
                if delta["claim"] is None:
                    report("claim", evname, "the definition following a declaration is not claimed by it", key, evname)
            # stack correspondence with the open blocks
            exp_defs = tuple(("E", b[2]) if b[1] else ("P", False) for b in new_blocks if b[0] in DEFS)
            got_defs = tuple(d if d[0] == "E" else ("P", False) for d in m2.defs)
            if got_defs != exp_defs:
                report("defstack", evname, f"definition stack is {m2.defs} but the open definitions are {exp_defs}", key, evname)
            exp_cls = tuple(("C", b[2]) if b[1] else ("N",) for b in new_blocks if b[0] == "cpp_class")
            if m2.clss != exp_cls:
                report("clsstack", evname, f"class stack is {m2.clss} but the open classes are {exp_cls}", key, evname)
            exp_aw = None if new_pending is None else (("M" if new_pending.startswith("cpp_") else "T"), bid)
            if (m2.awaiting is None) != (exp_aw is None) or (m2.awaiting and exp_aw and m2.awaiting[0] != exp_aw[0]):
                report("awaiting", evname, f"pending declaration is {m2.awaiting}, expected {exp_aw}", key, evname)
            nk = (new_blocks, new_pending, m2.key())
            if bad_transition[0]:
                continue
            if nk not in seen:
                if len(seen) >= max_states:
                    raise AnalysisError("trace exploration exceeded the state budget")
                seen[nk] = (key, evname)
                queue.append((new_blocks, new_pending, m2))
    return {"states": len(seen), "transitions": transitions}, problems


# ----------------------------------------------------------------------
_explored: Dict[Tuple[str, Tuple], Any] = {}


def run(repo: Repo, flags: Dict[str, bool], depth: int):
    key = (repo.root, tuple(sorted(flags.items())), depth)
    if key not in _explored:
        _explored[key] = explore(model(repo), flags, depth)
    return _explored[key]


def _report(rep: Report, rule: str, cats: Tuple[str, ...], stats, problems, cfg: str, key_prefix: Optional[str] = None,
            flags: Optional[Dict[str, bool]] = None):
    shown = 0
    seen_keys = set()
    for cat, ev, msg, trace in problems:
        if cat not in cats:
            continue
        kind = ev.split(" ", 1)[1]
        key = f"{key_prefix or rule}|{ev}|{cat}|inc:{kind}={(flags or {}).get(kind, True)}"
        if (key, cfg) in seen_keys:
            continue
        seen_keys.add((key, cfg))
        shown += 1
        rep.bad(rule, WHERE, f"[{cfg}] {ev}: {cat}", f"after the event sequence {trace[-8:]}: {ev} {msg}",
                witness=" ; ".join(trace[-8:]), key=key)
    if not shown:
        rep.ok(rule, WHERE, f"[{cfg}] invariants {cats} hold on {stats['states']} states / {stats['transitions']} transitions")
    rep.extra_cov["states"] = rep.extra_cov.get("states", 0) + stats["states"]
    rep.extra_cov["transitions"] = rep.extra_cov.get("transitions", 0) + stats["transitions"]
    rep.extra_cov["traces_validated_against_impl"] = 0
    rep.extra_cov["exhaustive"] = True


DEPTH = 4


def rule_entry_traces(rep: Report, repo: Repo, rule: str) -> None:
    rep.rule(rule, f"E2T, default flags, nesting depth <= {DEPTH}: on every reachable state of the extracted machine each event appends "
                   "exactly the entries the property prescribes, and both stacks mirror the open blocks (so they return to their depth "
                   "after every balanced block)")
    stats, problems = run(repo, {}, DEPTH)
    _report(rep, rule, ("entries", "stack", "defstack", "clsstack", "awaiting"), stats, problems, "default flags")


def rule_kwargs_traces(rep: Report, repo: Repo, rule: str) -> None:
    rep.rule(rule, f"E2T, all single-flag-off configurations and all-off, depth <= {DEPTH}: cmake_parse_arguments marks the innermost open "
                   "definition iff it is documented, never another one; the definition stack mirrors the open definitions")
    for cfg, flags in _configs(("function", "macro")):
        stats, problems = run(repo, flags, DEPTH)
        _report(rep, rule, ("mark", "defstack", "stack"), stats, problems, cfg, flags=flags)


def rule_class_traces(rep: Report, repo: Repo, rule: str) -> None:
    rep.rule(rule, f"E2T, default flags, depth <= {DEPTH}: members attach to the innermost open class and to no other, inner classes "
                   "register in the directly enclosing class, declarations claim the next definition, the class stack mirrors the open classes")
    stats, problems = run(repo, {}, DEPTH)
    _report(rep, rule, ("attach", "clsstack", "claim", "awaiting", "stack"), stats, problems, "default flags")


def _configs(kinds=FLAGGED):
    yield "default flags", {}
    for k in kinds:
        yield f"include_undocumented_{k}=False", {k: False}
    yield "all include flags False", {k: False for k in FLAGGED}


def rule_flag_traces(rep: Report, repo: Repo, rule: str) -> None:
    rep.rule(rule, f"E2T, every single-flag-off configuration and all-off, depth <= {DEPTH}: entries of doccomment-carrying commands and "
                   "their attachments are as under default flags; members are shown iff their class is shown; stacks stay balanced "
                   "(only disagreements that do not already exist under default flags are reported here)")
    base_stats, base_problems = run(repo, {}, DEPTH)
    base = {(cat, ev) for cat, ev, _m, _t in base_problems}
    rep.ok(rule, WHERE, f"[default flags] reference run: {base_stats['states']} states, {len(base)} disagreement kinds (judged by C02/C03/C09)")
    for cfg, flags in _configs():
        if not flags:
            continue
        stats, problems = run(repo, flags, DEPTH)
        problems = [p for p in problems if (p[0], p[1]) not in base]
        _report(rep, rule, ("entries", "attach", "clsstack", "defstack", "stack", "awaiting", "mark", "claim"), stats, problems, cfg,
                key_prefix=rule, flags=flags)

"""E3 render terms: what every entry kind's process(self, writer) emits, in
which order and on which receiver (C01-R4, C02-R4, C03-R3, C07-R1, C09-R3,
C10-R2/R3, C11-R4)."""
from __future__ import annotations

from dataclasses import dataclass
from typing import Any, Dict, List, Optional, Tuple

from ..absint import Evaluator, Outcome, SELF, NONE, attr, const, glob, is_const, show
from ..core import AnalysisError, Report
import ast

from ..model import Repo, call_name

MOD = "cminx.documentation_types"
API = ("directive", "text", "field", "option", "bulleted_list", "enumerated_list", "doctest", "section",
       "simple_table", "process")
WRITER = ("sym", "writer")

KINDS = ["FunctionDocumentation", "MacroDocumentation", "VariableDocumentation", "OptionDocumentation",
         "GenericCommandDocumentation", "CTestDocumentation", "TestDocumentation", "SectionDocumentation",
         "MethodDocumentation", "AttributeDocumentation", "ClassDocumentation", "ModuleDocumentation"]


@dataclass
class Em:
    term: tuple
    recv: tuple
    method: str
    args: tuple
    kwargs: tuple
    loop: Optional[int]
    loop_conds: tuple
    path_idx: int


_cache: Dict[Tuple[str, str], List[Outcome]] = {}


def outcomes(repo: Repo, cname: str) -> List[Outcome]:
    key = (repo.root, cname)
    if key not in _cache:
        ci = repo.cls(cname)
        fn = ci.methods.get("process")
        if fn is None:
            r = repo.find_method(cname, "process")
            if r is None:
                raise AnalysisError(f"anchor vanished: {cname}.process")
            fn = r[1]
        ev = Evaluator(repo, MOD, cname, effect_methods=API)
        # a stored conditional expression that is tested afterwards (`label = "a" if c else None; if label is None: raise`)
        # forks like the if statement it abbreviates - only where such a test exists, so that plain value selections
        # (`value if value is not None else "OFF"`) stay single terms
        stored = {t.id for n in ast.walk(fn) if isinstance(n, ast.Assign) and isinstance(n.value, ast.IfExp)
                  for t in n.targets if isinstance(t, ast.Name)}
        tested = {x.id for n in ast.walk(fn) if isinstance(n, (ast.If, ast.While, ast.Assert)) for x in ast.walk(n.test)
                  if isinstance(x, ast.Name)}
        ev.fork_ifexp = bool(stored & tested)
        ps = [a.arg for a in fn.args.args]
        _cache[key] = ev.run_function(fn, {"self": SELF, **({ps[1]: WRITER} if len(ps) > 1 else {})})
    return _cache[key]


def emissions(o: Outcome, idx: int = 0) -> List[Em]:
    out: List[Em] = []

    def walk(effects, loop, conds):
        for e in effects:
            if e[0] == "emit":
                t = e[1]
                out.append(Em(t, t[2][1], t[2][2], t[3], t[4], loop, conds, idx))
            elif e[0] == "loop":
                lp = o.state.loops.get(e[1])
                if lp:
                    for oc in lp["outcomes"]:
                        walk(oc["effects"], e[1], tuple(oc["conds"]))
    walk(o.effects, None, ())
    return out


def top_directive(ems: List[Em]) -> Optional[Em]:
    for e in ems:
        if e.method == "directive" and e.recv == WRITER:
            return e
    return None


def descends(t, top) -> bool:
    """receiver term t is `top` or an emission created (transitively) on it."""
    while True:
        if t == top:
            return True
        if isinstance(t, tuple) and t and t[0] == "emit":
            t = t[2][1]
            continue
        return False


def fl(t) -> List[Any]:
    """Flatten f-strings / + into parts."""
    if t[0] == "binop" and t[1] == "+":
        return fl(t[2]) + fl(t[3])
    if t[0] == "fstr":
        out = []
        for p in t[1:]:
            out.extend(fl(p))
        return out
    return [t]


def S(name):
    return attr(SELF, name)


def join(sep, xs):
    return ("call", ("attr", const(sep), "join"), (xs,), ())


def where(c):
    return f"{MOD}:{c}.process"


# ----------------------------------------------------------------------
def rule_ownership(rep: Report, repo: Repo, rule: str) -> None:
    """C07-R1."""
    rep.rule(rule, "every entry's process creates exactly one directive on the incoming writer; every other emission has a "
                   "receiver that descends from it; members/attributes are rendered with the class directive as writer")
    n = 0
    for c in KINDS:
        for i, o in enumerate(outcomes(repo, c)):
            if o.exit and o.exit[0] == "raise" and not emissions(o):
                continue
            ems = emissions(o, i)
            tops = [e for e in ems if e.recv == WRITER]
            case = f"path {i}: {len(ems)} emissions"
            n += 1
            if not ems:
                rep.bad(rule, where(c), case, f"{c} renders nothing")
                continue
            dirs = [e for e in tops if e.method == "directive"]
            rep.check(len(tops) == 1 and len(dirs) == 1 and ems[0] is dirs[0], rule, where(c), case + " [one top-level directive]",
                      f"{c} emits {[e.method for e in tops]} directly on the incoming writer: content that does not go through the entry's "
                      f"own directive escapes it and becomes a sibling of the entry",
                      witness="any entry inside a class / at top level with a multi-line doc")
            if not dirs:
                continue
            top = dirs[0].term
            for e in ems:
                if e is dirs[0] or e.recv == WRITER:
                    continue
                if e.method == "option" and e.loop is not None and e.args and is_const(e.args[0]):
                    rep.bad(rule, where(c), f"option({show(e.args[0])}, ...) inside a loop",
                            f"the option `{show(e.args[0])}` can be emitted several times on one directive: reST rejects duplicate options "
                            f"and the whole directive (with the doc text nested in it) is replaced by an error",
                            witness="cpp_attr(C colors red green blue)")
                if e.method == "process":
                    ok = len(e.args) == 1 and e.args[0] == top and e.recv[0] == "elem"
                    rep.check(ok, rule, where(c), f"{show(e.recv)}.process({show(e.args[0])[:40] if e.args else ''})",
                              "a member is rendered on a writer other than the class's own directive: it is not nested in the class")
                else:
                    rep.check(descends(e.recv, top), rule, where(c), f"{e.method}({', '.join(show(a)[:30] for a in e.args)})"[:90],
                              f"emission `{e.method}` has receiver `{show(e.recv)[:50]}` which is not the entry's directive or a child of it")
    rep.floor(rule, 40, "emissions")


def rule_doc_rendering(rep: Report, repo: Repo, rule: str) -> None:
    """C01-R4."""
    rep.rule(rule, "every entry kind emits self.doc exactly once, unmodified, through .text() on the directive it created itself "
                   "(classes: before any member; the module entry may guard by non-emptiness)")
    for c in KINDS:
        for i, o in enumerate(outcomes(repo, c)):
            ems = emissions(o, i)
            if o.exit and o.exit[0] == "raise" and c == "VariableDocumentation":
                continue
            top = top_directive(ems)
            if top is None:
                rep.bad(rule, where(c), f"path {i}", f"{c} creates no directive")
                continue
            docs = [e for e in ems if any(_mentions(a, S("doc")) for a in e.args) and e.method != "directive"]
            exact = [e for e in docs if e.method == "text" and e.args == (S("doc"),) and e.recv == top.term and e.loop is None]
            case = f"path {i} [{o.cond_text()[:60]}]: doc emissions {[e.method + '(' + show(e.args[0])[:30] + ')' for e in docs]}"
            if c == "ModuleDocumentation":
                # guarded by non-emptiness: either one exact emission, or none on the 'empty' path
                empty_path = any((a[0] in ("nonempty", "truthy") and a[1] == S("doc") and not v) or
                                 (a[0] == "isnone" and a[1] == S("doc") and v) or
                                 (a[0] == "lencmp" and a[1] == S("doc")) and not v for a, v in o.conds) or \
                    any(a[0] == "cmp" and a[2] == ("call", glob("len"), (S("doc"),), ()) for a, v in o.conds)
                ok = (len(exact) == 1 and len(docs) == 1) or (not docs and (empty_path or _empty_doc_path(o)))
                rep.check(ok, rule, where(c), case, "the module doccomment body is not rendered exactly once inside the module directive")
                continue
            ok = len(exact) == 1 and len(docs) == 1
            msg = "the doc text is not emitted exactly once, unmodified, as a paragraph of the entry's own directive"
            if docs and not exact:
                e = docs[0]
                if e.recv != top.term:
                    msg = f"the doc text is emitted on `{show(e.recv)[:40]}`, not on the entry's directive: it is attributed to another item"
                elif e.args != (S("doc"),):
                    msg = f"the doc text is altered before rendering: {show(e.args[0])[:60]}"
            elif len(docs) > 1:
                msg = "the doc text is emitted more than once"
            elif not docs:
                msg = "the doc text is not rendered at all"
            rep.check(ok, rule, where(c), case, msg, witness="doc text with leading/trailing blank lines or spaces")
            if c == "ClassDocumentation" and exact:
                first_member = next((k for k, e in enumerate(ems) if e.method == "process"), None)
                k_doc = ems.index(exact[0])
                rep.check(first_member is None or k_doc < first_member, rule, where(c), f"path {i}: doc before members",
                          "the class's doc text follows its members")
    rep.floor(rule, 12, "entry kinds")


def _empty_doc_path(o: Outcome) -> bool:
    for a, v in o.conds:
        if S("doc") in _sub(a):
            return True
    return False


def _sub(t):
    out = []
    if isinstance(t, tuple):
        out.append(t)
        for x in t:
            if isinstance(x, tuple):
                out.extend(_sub(x))
    return out


def _mentions(t, sub) -> bool:
    return sub in _sub(t)


# ----------------------------------------------------------------------
SIG_JOIN_SPACE = lambda fld: join(" ", S(fld))


def rule_kind_rendering(rep: Report, repo: Repo, rule: str, only=None) -> None:
    """C02-R4.  `only`: restrict to these entry classes (a property that owns some kinds only)."""
    rep.rule(rule, "entry kind -> rendering: Function/Macro/Test/Section/CTest/Generic -> `function` (macro: note child; tests and "
                   "generic: warning child), Variable/Option -> `data`, Class -> `py:class`, Method -> `py:method`, Attribute -> "
                   "`py:attribute`, Module -> `module`; generic signature = name(args joined by one space, in order)")
    table = {
        "FunctionDocumentation": ("function", None), "MacroDocumentation": ("function", "note"),
        "VariableDocumentation": ("data", None), "OptionDocumentation": ("data", "note"),
        "GenericCommandDocumentation": ("function", "warning"), "CTestDocumentation": ("function", "warning"),
        "TestDocumentation": ("function", "warning"), "SectionDocumentation": ("function", "warning"),
        "MethodDocumentation": ("py:method", None), "AttributeDocumentation": ("py:attribute", None),
        "ClassDocumentation": ("py:class", None), "ModuleDocumentation": ("module", None),
    }
    if only is not None:
        table = {k: v for k, v in table.items() if k in only}
    for c, (dname, child) in table.items():
        for i, o in enumerate(outcomes(repo, c)):
            ems = emissions(o, i)
            top = top_directive(ems)
            if top is None:
                continue
            got = top.args[0] if top.args else NONE
            rep.check(got == const(dname), rule, where(c), f"path {i}: directive {show(got)}",
                      f"{c} is rendered as `{show(got)}` instead of `{dname}`")
            kids = [e for e in ems if e.method == "directive" and e.recv == top.term]
            if child is not None and c != "MethodDocumentation":
                ok = len(kids) == 1 and kids[0].args and kids[0].args[0] == const(child)
                rep.check(ok, rule, where(c), f"path {i}: child directives {[show(k.args[0]) for k in kids if k.args]}",
                          f"{c} must carry exactly one `{child}` child directive")
            elif child is None and c not in ("MethodDocumentation",):
                rep.check(not kids, rule, where(c), f"path {i}: no child directive", f"{c} carries an unexpected child directive {[show(k.args[0]) for k in kids if k.args]}")
            # name appears first in the directive argument
            if c not in ("ModuleDocumentation",):
                parts = fl(top.args[1]) if len(top.args) > 1 else []
                rep.check(bool(parts) and parts[0] == S("name"), rule, where(c), f"path {i}: argument {show(top.args[1])[:60] if len(top.args) > 1 else None}",
                          f"the directive argument of {c} does not start with the entry's name")
            else:
                rep.check(len(top.args) > 1 and top.args[1] == S("name"), rule, where(c), f"path {i}: module name argument",
                          "the module directive is not named after the module entry")
    # generic / ctest signature
    for c in ("GenericCommandDocumentation", "CTestDocumentation"):
        if only is not None and c not in only:
            continue
        for i, o in enumerate(outcomes(repo, c)):
            top = top_directive(emissions(o, i))
            if top is None or len(top.args) < 2:
                continue
            parts = fl(top.args[1])
            exp = [S("name"), const("("), SIG_JOIN_SPACE("params"), const(")")]
            rep.check(parts == exp, rule, where(c), f"signature {show(top.args[1])[:70]}",
                      f"the signature of {c} is not name + '(' + arguments joined by single spaces in list order + ')'",
                      witness="message(STATUS \"a b\" c)")
    rep.floor(rule, 30 if only is None else 2 * len(table), "kind rendering facts")


def rule_signature_template(rep: Report, repo: Repo, rule: str) -> None:
    """C03-R3."""
    rep.rule(rule, "function/macro signature = name + '(' + ' '.join(params [+ '**kwargs' iff has_kwargs, last, once]) + ')'")
    for c in ("FunctionDocumentation", "MacroDocumentation"):
        outs = outcomes(repo, c)
        seen_true = seen_false = False
        for i, o in enumerate(outs):
            hk = None
            for a, v in o.conds:
                if a[0] == "truthy" and a[1] == S("has_kwargs"):
                    hk = v
                if a[0] == "cmp" and a[2] == S("has_kwargs") and is_const(a[3]) and a[3][1] is True:
                    hk = v
            ems = emissions(o, i)
            top = top_directive(ems)
            if top is None or len(top.args) < 2:
                rep.bad(rule, where(c), f"path {i}", "no signature argument")
                continue
            pushes = [e for e in o.effects if e[0] in ("push", "insert", "extend") and _is_kwargs(e)]
            parts = fl(top.args[1])
            case = f"has_kwargs={hk}: signature {show(top.args[1])[:60]}, kwargs pushes {len(pushes)}"
            if hk is None:
                rep.bad(rule, where(c), case, "'**kwargs' does not depend on has_kwargs",
                        witness="function with / without cmake_parse_arguments")
                continue
            seen_true |= hk
            seen_false |= not hk
            # the list that is joined
            ok_shape = len(parts) == 4 and parts[0] == S("name") and parts[1] == const("(") and parts[3] == const(")") \
                and parts[2][0] == "call" and parts[2][1] == ("attr", const(" "), "join")
            rep.check(ok_shape, rule, where(c), case + " [shape]",
                      "the signature is not name + '(' + parameters joined by single spaces + ')'", witness="function(f a b)")
            if not ok_shape:
                continue
            joined = parts[2][2][0]
            if hk:
                ok = len(pushes) == 1 and pushes[0][0] == "push" and _same_list(pushes[0][1], joined, o) and \
                    o.effects.index(pushes[0]) < _first_emit_index(o)
                # alternative: joined list is params + ['**kwargs']
                if not ok and not pushes:
                    ok = _is_concat_kwargs(joined, o)
                rep.check(ok, rule, where(c), case, "with has_kwargs, '**kwargs' is not appended exactly once at the end of the parameter list",
                          witness="function(f a)\\n  cmake_parse_arguments(...)\\nendfunction()  =>  f(a **kwargs)")
            else:
                ok = not pushes and _params_only(joined, o)
                rep.check(ok, rule, where(c), case, "without has_kwargs the signature is not exactly the parameter list",
                          witness="function(f a) without cmake_parse_arguments")
        rep.check(seen_true and seen_false, rule, where(c), "both has_kwargs cases exist", "has_kwargs is not consulted")
    rep.floor(rule, 8, "signature template facts")


def _is_kwargs(e) -> bool:
    v = e[2] if e[0] == "push" else (e[3] if e[0] == "insert" else e[2])
    return v == const("**kwargs") or "**kwargs" in show(v)


def _first_emit_index(o: Outcome) -> int:
    for i, e in enumerate(o.effects):
        if e[0] == "emit":
            return i
    return len(o.effects)


def _same_list(target, joined, o: Outcome) -> bool:
    if target == joined:
        return True
    # copy: param_list = list(self.params) -> heap list? we accept a call-term copy of self.params
    return False


def _params_only(joined, o: Outcome) -> bool:
    if joined == S("params"):
        return True
    if joined[0] == "call" and joined[1] in (glob("list"), glob("copy.copy")) and joined[2] == (S("params"),):
        return True
    ob = o.state.obj(joined)
    if ob is not None and ob.get("kind") == "list":
        return ob["items"] == [("spread", S("params"))] or ob["items"] == [("starred", S("params"))]
    return False


def _is_concat_kwargs(joined, o: Outcome) -> bool:
    if joined[0] == "binop" and joined[1] == "+" and joined[2] == S("params"):
        r = joined[3]
        ob = o.state.obj(r)
        if ob is not None and ob.get("items") == [const("**kwargs")]:
            return True
        return r == ("list", const("**kwargs"))
    ob = o.state.obj(joined)
    if ob is not None and ob.get("kind") == "list":
        return ob["items"] in ([("starred", S("params")), const("**kwargs")], [("spread", S("params")), const("**kwargs")])
    return False


# ----------------------------------------------------------------------
def rule_class_rendering(rep: Report, repo: Repo, rule: str) -> None:
    """C09-R3."""
    rep.rule(rule, "ClassDocumentation.process: each block (constructors, methods, attributes, inner classes) uses the same field "
                   "in its guard, under its own heading and in its loop, in that order; bases are listed as written; methods pair "
                   "parameter i with type i; macro note iff is_macro; attribute value option iff a default exists")
    c = "ClassDocumentation"
    blocks = [("constructors", "**Additional Constructors**"), ("members", "**Methods**"),
              ("attributes", "**Attributes**"), ("inner_classes", "**Inner classes**")]
    outs = outcomes(repo, c)
    cases = 0
    for i, o in enumerate(outs):
        present = {}
        for a, v in o.conds:
            if a[0] == "nonempty" and a[1][0] == "attr" and a[1][1] == SELF:
                present[a[1][2]] = v
        ems = emissions(o, i)
        top = top_directive(ems)
        if top is None:
            continue
        # sequence of (heading text, loop field) after the doc
        seq = []
        cur = None
        for e in ems:
            if e.method == "text" and e.args and is_const(e.args[0]) and str(e.args[0][1]).startswith("**"):
                cur = [e.args[0][1], None]
                seq.append(cur)
            elif e.method == "process" and e.loop is not None:
                fldt = o.state.loops[e.loop]["iter"]
                f = fldt[2] if fldt[0] == "attr" and fldt[1] == SELF else show(fldt)
                if cur is not None and cur[1] is None:
                    cur[1] = f
                else:
                    seq.append([None, f])
            elif e.method == "bulleted_list":
                txt = show(e.args[0]) if e.args else ""
                f = "inner_classes" if "inner_classes" in repr(e.args) else txt[:30]
                ra = repr(e.args)
                # interpreted_text("class", x.name) - or what it evaluates to: f":class:`{x.name}`"
                ok_items = "'name'" in ra and (("interpreted_text" in ra and "'class'" in ra) or
                                               (":class:`" in ra.replace("', '", "").replace("('const', '", "") or "class" in ra and "`" in ra))
                rep.check(ok_items, rule, where(c), f"path {i}: inner class list items", "inner classes are not listed by name as :class: references")
                if cur is not None and cur[1] is None:
                    cur[1] = f
                else:
                    seq.append([None, f])
        expected = [[h, f] for f, h in blocks if present.get(f)]
        cases += 1
        if set(present) >= {f for f, _h in blocks}:
            rep.check(seq == expected, rule, where(c), f"path {i}: present={sorted(k for k, v in present.items() if v)} -> {seq}"[:150],
                      f"class blocks rendered as {seq}, expected {expected}: a heading, guard and loop disagree on the member list or the "
                      f"block order is wrong", witness="class with one constructor, one method, one attribute and one inner class")
        else:
            missing = [f for f, _h in blocks if f not in present]
            rep.bad(rule, where(c), f"path {i}", f"blocks {missing} are rendered unconditionally or their guard uses another field")
        # bases
        sup = present.get("superclasses")
        bases = [e for e in ems if e.method == "text" and e.args and "Bases" in show(e.args[0])]
        if sup is None:
            rep.bad(rule, where(c), f"path {i}", "base classes are not guarded by the superclasses list")
        else:
            okb = (len(bases) == 1) == bool(sup)
            if bases:
                t = show(bases[0].args[0])
                okb = okb and "self.superclasses" in t and ":class:`" in t and "', '.join" in t and bases[0].recv == top.term
                okb = okb and _joined_class_refs(bases[0].args[0])
                docs = [k for k, e in enumerate(ems) if e.args == (S("doc"),)]
                okb = okb and (not docs or ems.index(bases[0]) < docs[0])
            rep.check(okb, rule, where(c), f"path {i}: bases [{show(bases[0].args[0])[:60] if bases else ''}]",
                      "base classes are not listed (as written, comma separated, before the doc text) exactly when there are any")
    # Method
    c = "MethodDocumentation"
    for i, o in enumerate(outcomes(repo, c)):
        ems = emissions(o, i)
        top = top_directive(ems)
        if top is None:
            continue
        macro = None
        for a, v in o.conds:
            if a[0] == "truthy" and a[1] == S("is_macro"):
                macro = v
        notes = [e for e in ems if e.method == "directive" and e.recv == top.term and e.args and e.args[0] == const("note")]
        rep.check(macro is not None and (len(notes) == 1) == bool(macro), rule, where(c), f"path {i}: is_macro={macro}, notes={len(notes)}",
                  "the macro note of a method does not appear exactly when the implementing definition is a macro")
        sig = fl(top.args[1]) if len(top.args) > 1 else []
        ok = len(sig) >= 4 and sig[0] == S("name") and sig[1] == const("(") and sig[2] == join(", ", S("params")) and sig[-1] == const(")")
        rep.check(ok, rule, where(c), f"path {i}: signature {show(top.args[1])[:70] if len(top.args) > 1 else None}",
                  "the method signature is not name(parameter names joined by ', ')")
        # field pairing by the same index
        for e in ems:
            if e.method == "field" and e.loop is not None and len(e.args) == 2:
                name_t, val_t = e.args
                nm = fl(name_t)
                if nm and is_const(nm[0]) and str(nm[0][1]).startswith("type "):
                    idx_n = nm[1][2] if len(nm) > 1 and nm[1][0] == "sub" else None
                    idx_v = val_t[2] if val_t[0] == "sub" else None
                    ok = len(nm) > 1 and nm[1][0] == "sub" and nm[1][1] == S("params") and val_t[0] == "sub" and val_t[1] == S("param_types") \
                        and idx_n == idx_v and idx_n is not None and idx_n[0] == "elem"
                    if not ok and len(nm) > 1 and nm[1][0] == "elem" and val_t[0] == "elem" and nm[1][1] == val_t[1]:
                        # for name, type in zip(self.params, self.param_types)
                        lp = o.state.loops.get(nm[1][1])
                        zipped = lp is not None and lp["iter"] == ("call", glob("zip"), (S("params"), S("param_types")), ())
                        ok = zipped and nm[1][2] == 0 and val_t[2] == 1
                    if not ok and len(nm) > 1:
                        # for i, t in enumerate(self.param_types): ... self.params[i] ... t      (and the mirror image)
                        def enum_of(term, fld):
                            if not (term[0] == "elem" and o.state.loops.get(term[1]) is not None):
                                return False
                            it = o.state.loops[term[1]]["iter"]
                            if it == ("call", glob("enumerate"), (S(fld),), ()):
                                return True
                            # enumerate(self.<fld>[:k]): element j of a prefix is element j of the list
                            if it[0] == "call" and it[1] == glob("enumerate") and len(it[2]) == 1 and not it[3]:
                                src = it[2][0]
                                return src[0] == "slice" and src[1] == S(fld) and src[2] in (const(None), const(0)) \
                                    and (len(src) < 5 or src[4] == const(None)) \
                                    and not (is_const(src[3]) and isinstance(src[3][1], int) and src[3][1] < 0)
                            return False
                        n1 = nm[1]
                        if n1[0] == "sub" and n1[1] == S("params") and n1[2][0] == "elem" and n1[2][2] == 0 and enum_of(n1[2], "param_types") \
                                and val_t == ("elem", n1[2][1], 1):
                            ok = True
                        if n1[0] == "elem" and n1[2] == 1 and enum_of(n1, "params") and val_t[0] == "sub" and val_t[1] == S("param_types") \
                                and val_t[2] == ("elem", n1[1], 0):
                            ok = True
                    rep.check(ok, rule, where(c), f"field({show(name_t)[:40]}, {show(val_t)[:40]})",
                              "a parameter name is paired with a type at another position", witness="cpp_member(f C int str) with params a b")
        # the param/type fields of one parameter are emitted independently: `type` iff the doc has no ':type x:' of its own,
        # `param` iff it has no ':param x:' (all four combinations of the two tests are body paths of the loop)
        for e_ in o.effects:
            if e_[0] != "loop":
                continue
            lp = o.state.loops.get(e_[1])
            if lp is None or not any(x[0] == "emit" and x[1][2][2] == "field" for oc in lp["outcomes"] for x in oc["effects"]):
                continue
            combos = {}
            for oc in lp["outcomes"]:
                if oc["exit"] is not None and oc["exit"][0] == "break":
                    continue
                pin = tin = None
                for cnd, val in oc["conds"]:
                    if cnd[0] == "in" and cnd[2] == S("doc"):
                        txt = show(cnd[1])
                        if ":param " in txt:
                            pin = val
                        elif ":type " in txt:
                            tin = val
                kinds = []
                for x in oc["effects"]:
                    if x[0] == "emit" and x[1][2][2] == "field" and x[1][3]:
                        lead = fl(x[1][3][0])
                        if lead and is_const(lead[0]):
                            kinds.append(str(lead[0][1]).split(" ")[0])
                combos[(pin, tin)] = sorted(kinds)
            problems = []
            for (pin, tin), kinds in combos.items():
                want = sorted((["param"] if pin is False else []) + (["type"] if tin is False else []))
                if pin is None or tin is None:
                    # one of the tests was short-circuited away on this path: the emitted fields must still be a subset of what both tests allow
                    if ("type" in kinds and tin is True) or ("param" in kinds and pin is True):
                        problems.append(f"doc has :param:={pin} :type:={tin} -> emits {kinds}")
                    if tin is False and "type" not in kinds:
                        problems.append(f"doc has :param:={pin} but no :type: -> the declared type is not shown (emits {kinds})")
                    if pin is False and "param" not in kinds:
                        problems.append(f"doc has no :param: (:type:={tin}) -> the parameter is not listed (emits {kinds})")
                elif kinds != want:
                    problems.append(f"doc has :param:={pin} :type:={tin} -> emits {kinds}, expected {want}")
            rep.check(not problems, rule, where(c), f"path {i}: param/type field matrix {sorted((str(k), v) for k, v in combos.items())}"[:160],
                      "the automatically generated :param:/:type: fields of a method depend on each other: " + "; ".join(problems)[:200],
                      witness="cpp_member(f C int) with a doccomment that writes ':param x:' by hand but no ':type x:'")
    # Attribute
    c = "AttributeDocumentation"
    for i, o in enumerate(outcomes(repo, c)):
        ems = emissions(o, i)
        top = top_directive(ems)
        none = None
        for a, v in o.conds:
            if a[0] == "isnone" and a[1] == S("default_value"):
                none = v
        opts = [e for e in ems if e.method == "option"]
        ok = none is not None and ((not opts) if none else (len(opts) == 1 and opts[0].args == (const("value"), S("default_value"))
                                                               and top is not None and opts[0].recv == top.term))
        rep.check(ok, rule, where(c), f"path {i}: default None={none}, options={[show(a) for e in opts for a in e.args]}",
                  "the `value` option of an attribute does not appear exactly when a default value is given",
                  witness="cpp_attr(C a) / cpp_attr(C a 1)")
    rep.floor(rule, 40, "class rendering facts")


# ----------------------------------------------------------------------
def rule_variable_rendering(rep: Report, repo: Repo, rule: str) -> None:
    """C10-R2 + rendering part of C10-R3."""
    rep.rule(rule, "variable rendering maps every VarType member (STRING->str, LIST->list, UNSET->UNSET) and shows the value under "
                   "'Default value'; option rendering has a note, 'Help text' <- help, 'Default value' <- value or 'OFF', 'type'")
    enum_members = [n for n in repo.cls("VarType").class_attrs]
    want = {"STRING": "str", "LIST": "list", "UNSET": "UNSET"}
    c = "VariableDocumentation"
    seen = {}
    for i, o in enumerate(outcomes(repo, c)):
        ems = emissions(o, i)
        member = None
        for a, v in o.conds:
            if v and a[0] == "cmp" and a[1] == "==" and a[2] == S("type") and a[3][0] == "global" and a[3][1].startswith("VarType."):
                member = a[3][1].split(".")[1]
        if o.exit and o.exit[0] == "raise":
            continue
        tf = [e for e in ems if e.method == "field" and e.args and e.args[0] == const("type")]
        dv = [e for e in ems if e.method == "field" and e.args and e.args[0] == const("Default value")]
        seen[member] = tf[0].args[1] if tf else None
        rep.check(len(dv) == 1 and dv[0].args[1] == S("value"), rule, where(c), f"path {i}: Default value <- {show(dv[0].args[1]) if dv else None}",
                  "the variable's value is not shown under 'Default value'")
        if member in want:
            rep.check(len(tf) == 1 and tf[0].args[1] == const(want[member]), rule, where(c),
                      f"VarType.{member} -> {show(tf[0].args[1]) if tf else None}",
                      f"a {member} variable is labelled {show(tf[0].args[1]) if tf else None} instead of '{want[member]}'",
                      witness={"STRING": "set(V a)", "LIST": "set(V a b)", "UNSET": "set(V)"}[member])
    for mname in enum_members:
        rep.check(mname in seen, rule, where(c), f"VarType.{mname} handled", f"VarType.{mname} has no rendering branch: such variables raise ValueError")
    c = "OptionDocumentation"
    for i, o in enumerate(outcomes(repo, c)):
        ems = emissions(o, i)
        fields = {show(e.args[0]): e.args[1] for e in ems if e.method == "field" and len(e.args) == 2}
        rep.check(fields.get("'Help text'") == S("help_text"), rule, where(c), "Help text <- self.help_text", "the option's help text is not shown under 'Help text'")
        dv = fields.get("'Default value'")
        okd = dv is not None and dv[0] == "ifexp" and dv[2] == S("value") and dv[3] == const("OFF") and \
            dv[1] in (("cmp", "isnot", S("value"), NONE), ("cmp", "!=", S("value"), NONE))
        okd = okd or (dv is not None and dv[0] == "or" and dv[1:] == (S("value"), const("OFF")))
        okd = okd or (dv is not None and dv[0] == "ifexp" and dv[3] == S("value") and dv[2] == const("OFF") and
                      dv[1] in (("cmp", "is", S("value"), NONE), ("cmp", "==", S("value"), NONE)))
        rep.check(okd, rule, where(c), f"Default value <- {show(dv) if dv else None}", "an option's default is not its value, or 'OFF' when omitted",
                  witness="option(O \"help\")")
        rep.check(fields.get("'type'") == S("type"), rule, where(c), "type <- self.type", "the option's type is not shown")
        order = [show(e.args[0]) for e in ems if e.method == "field"]
        rep.check(order == ["'Help text'", "'Default value'", "'type'"], rule, where(c), f"field order {order}", "option fields are reordered or missing")
    rep.floor(rule, 10, "variable/option rendering facts")


def rule_test_rendering(rep: Report, repo: Repo, rule: str) -> None:
    """C11-R4."""
    rep.rule(rule, "Test/Section signature shows EXPECTFAIL iff expect_fail; the three kinds carry distinct warnings naming "
                   "'CMakeTest test', 'CMakeTest section', 'CTest test'; the CTest signature joins its params in order")
    marks = {"TestDocumentation": "CMakeTest test", "SectionDocumentation": "CMakeTest section", "CTestDocumentation": "CTest test"}
    texts = {}
    for c, mark in marks.items():
        for i, o in enumerate(outcomes(repo, c)):
            ems = emissions(o, i)
            top = top_directive(ems)
            if top is None:
                continue
            warn = [e for e in ems if e.method == "directive" and e.args and e.args[0] == const("warning")]
            txt = show(warn[0].args[1]) if warn and len(warn[0].args) > 1 else ""
            texts[c] = txt
            rep.check(mark in txt and "do not call" in txt.lower(), rule, where(c), f"warning {txt[:70]}",
                      f"the warning of {c} does not name a '{mark}' definition")
            if c != "CTestDocumentation":
                parts = fl(top.args[1]) if len(top.args) > 1 else []
                ok = len(parts) == 4 and parts[0] == S("name") and parts[1] == const("(") and parts[3] == const(")") and \
                    parts[2] in (("ifexp", S("expect_fail"), const("EXPECTFAIL"), const("")),
                                 ("ifexp", ("not", S("expect_fail")), const(""), const("EXPECTFAIL")))
                rep.check(ok, rule, where(c), f"signature {show(top.args[1])[:70] if len(top.args) > 1 else None}",
                          "EXPECTFAIL is not shown exactly when the test is expected to fail", witness="ct_add_test(NAME t EXPECTFAIL) / ct_add_test(NAME t)")
    rep.check(len(set(texts.values())) == len(texts) == 3, rule, MOD, "three distinct warnings", "two test kinds share one warning text")
    rep.floor(rule, 6, "test rendering facts")


def rule_member_independence(rep: Report, repo: Repo, rule: str) -> None:
    """C08-R5 / C09-R3m: how one member of a class is rendered does not depend on its siblings."""
    rep.rule(rule, "a class renders each member by `member.process(<class directive>)` with no further argument and with no state "
                   "carried from one member to the next: the rendering of a documented member cannot depend on which other "
                   "(possibly undocumented, flag-dependent) members the class has")
    c = "ClassDocumentation"
    n = 0
    for i, o in enumerate(outcomes(repo, c)):
        ems = emissions(o, i)
        top = top_directive(ems)
        if top is None:
            continue
        for e in ems:
            if e.method != "process":
                continue
            n += 1
            ok_args = e.args == (top.term,) and not e.kwargs
            rep.check(ok_args, rule, where(c), f"{show(e.recv)}.process({', '.join(show(a)[:30] for a in e.args)}{', ' if e.kwargs else ''}"
                                              f"{', '.join(k + '=' + show(v)[:40] for k, v in e.kwargs)})"[:120],
                      "a member is rendered with extra arguments computed by the class (index flags, counters, names seen so far): "
                      "its rendering changes when sibling members are added or removed, e.g. by an include_undocumented_* flag",
                      witness="two overloads `cpp_constructor(CTOR C int)`, the first undocumented, with include_undocumented_cpp_constructor on/off")
            if e.loop is not None:
                lp = o.state.loops.get(e.loop)
                carried = [k for k in (lp or {}).get("assigned", {}) if k not in ("member", "attribute", "method", "m", "a")]
                conds = [cnd for oc in lp["outcomes"] for cnd, _v in oc["conds"]] if lp else []
                muts = [x for oc in (lp["outcomes"] if lp else []) for x in oc["effects"] if x[0] in ("push", "call", "mutcall", "store", "extend")]
                rep.check(not conds and not muts, rule, where(c), f"member loop #{e.loop} over {show(lp['iter']) if lp else '?'}: no conditions, no bookkeeping",
                          f"the member loop keeps state across members ({[x[0] for x in muts][:3]}, conditions {len(conds)}): later members "
                          f"are rendered depending on earlier ones")
    # the member kinds accept exactly (self, writer)
    from ..model import func_params, param_defaults
    for mc in ("MethodDocumentation", "AttributeDocumentation"):
        fn = repo.cls(mc).methods.get("process")
        ps = func_params(fn)
        rep.check(len(ps) == 2, rule, where(mc), f"process({', '.join(ps)})",
                  f"{mc}.process takes additional parameters: the class can render the same member in different ways")
    rep.floor(rule, 6, "member rendering facts")


# ----------------------------------------------------------------------
def _entry_classes(repo: Repo):
    return [c for c in repo.classes.values() if c.module == MOD and "process" in c.methods or
            (c.module == MOD and repo.find_method(c.name, "process") is not None)]


def _index_hazards(fn: ast.FunctionDef, parents) -> Tuple[int, List[Tuple[str, str]]]:
    """(number of indexed field accesses examined, hazards as (construct, message))."""
    from ..model import guards_of, norm, walk_no_nested
    n = 0
    out: List[Tuple[str, str]] = []
    for node in walk_no_nested(fn):
        if isinstance(node, ast.Call) and call_name(node) == "zip" and any(k.arg == "strict" and isinstance(k.value, ast.Constant)
                                                                          and k.value.value is True for k in node.keywords):
            out.append((norm(node)[:80], "zip(strict=True) raises ValueError when the two lists differ in length: the listener never "
                        "ties them together (declared types vs. parameters of the implementing function)"))
        if isinstance(node, ast.Call) and call_name(node) in ("re.search", "re.match", "re.fullmatch", "re.sub", "re.compile", "re.findall",
                                                              "re.split", "re.finditer") and node.args:
            pat = node.args[0]
            if isinstance(pat, ast.Name):
                # a local bound once to the pattern (a configured pattern read into a local first)
                defs_ = [x.value for x in walk_no_nested(fn) if isinstance(x, ast.Assign) and len(x.targets) == 1
                         and isinstance(x.targets[0], ast.Name) and x.targets[0].id == pat.id]
                if len(defs_) == 1:
                    pat = defs_[0]
                elif not defs_ and pat.id in [a.arg for a in fn.args.args + fn.args.kwonlyargs]:
                    # a parameter of a helper: what the callers of the same module pass there
                    root = fn
                    while parents.get(root) is not None:
                        root = parents[root]
                    pos_ = [a.arg for a in fn.args.args].index(pat.id) if pat.id in [a.arg for a in fn.args.args] else None
                    is_meth = bool(fn.args.args) and fn.args.args[0].arg in ("self", "cls")
                    passed = []
                    for c_ in ast.walk(root):
                        if isinstance(c_, ast.Call) and call_name(c_).split(".")[-1] == fn.name and c_ is not node:
                            kw_ = next((k.value for k in c_.keywords if k.arg == pat.id), None)
                            ix = None if pos_ is None else (pos_ - 1 if is_meth else pos_)
                            passed.append(kw_ if kw_ is not None else (c_.args[ix] if ix is not None and 0 <= ix < len(c_.args) else None))
                    if passed and all(p_ is not None and "settings" in norm(p_) for p_ in passed):
                        pat = passed[0]
            raw_parts = []
            if isinstance(pat, ast.JoinedStr):
                raw_parts = [v.value for v in pat.values if isinstance(v, ast.FormattedValue)]
            elif not isinstance(pat, ast.Constant):
                raw_parts = [x for x in ast.walk(pat) if isinstance(x, (ast.Name, ast.Attribute)) and not isinstance(x.ctx, ast.Store)][:1] \
                    if not (isinstance(pat, ast.Call) and call_name(pat) == "re.escape") else []
            unescaped = [p_ for p_ in raw_parts if not (isinstance(p_, ast.Call) and call_name(p_) == "re.escape")]
            if unescaped:
                out.append((norm(node)[:80] + ("  [pattern: " + norm(pat)[:60] + "]" if pat is not node.args[0] else ""), f"`{norm(unescaped[0])[:40]}` is spliced into a regular expression without re.escape: a name that "
                            f"is a legal CMake argument but not a valid pattern (`*values`, `n{{2,1}}`) raises re.error while rendering"))
        if isinstance(node, ast.Subscript) and isinstance(node.ctx, ast.Load) and isinstance(node.value, ast.Call) \
                and isinstance(node.value.func, ast.Attribute) and not isinstance(node.slice, ast.Slice) \
                and (node.value.func.attr == "splitlines" or (node.value.func.attr == "split" and not node.value.args and not node.value.keywords)):
            # "".splitlines() and "  ".split() are empty lists: a constant index into them is not total
            guarded = any(norm(node.value.func.value) in norm(g.test) or norm(node.value) in norm(g.test) for g in guards_of(fn, node, parents))
            if not guarded:
                n += 1
                out.append((norm(node)[:80], f"`{norm(node)[:60]}` indexes the result of {node.value.func.attr}() without knowing it is "
                            f"non-empty: for an empty or all-whitespace text the list is empty and rendering raises IndexError"))
        if isinstance(node, ast.Subscript) and isinstance(node.ctx, ast.Load) and isinstance(node.slice, ast.Name) \
                and isinstance(node.value, ast.Attribute) and isinstance(node.value.value, ast.Name) and node.value.value.id == "self":
            n += 1
            idx, lst = node.slice.id, norm(node.value)
            bounded = False
            q = parents.get(node)
            while q is not None and q is not fn:
                if isinstance(q, ast.For):
                    it = norm(q.iter)
                    tgt = norm(q.target)
                    if (tgt == idx and it in (f"range(len({lst}))", f"range(0, len({lst}))")) or \
                            (tgt.startswith(f"({idx}, ") and it == f"enumerate({lst})"):
                        bounded = True
                    # enumerate(A[:len(LST)]) / enumerate(LST[:k]): at most len(LST) items, so the index stays below it
                    if tgt.startswith(f"({idx}, ") and isinstance(q.iter, ast.Call) and call_name(q.iter) == "enumerate" \
                            and len(q.iter.args) == 1 and not q.iter.keywords:
                        src = q.iter.args[0]
                        if isinstance(src, ast.Name):
                            defs = [x.value for x in walk_no_nested(fn) if isinstance(x, ast.Assign) and len(x.targets) == 1
                                    and isinstance(x.targets[0], ast.Name) and x.targets[0].id == src.id]
                            if len(defs) == 1:
                                src = defs[0]
                        if isinstance(src, ast.Subscript) and isinstance(src.slice, ast.Slice) and src.slice.lower is None \
                                and src.slice.step is None and src.slice.upper is not None:
                            up = src.slice.upper
                            if norm(src.value) == lst and not (isinstance(up, ast.UnaryOp) or (isinstance(up, ast.Constant) and
                                                                                             isinstance(up.value, int) and up.value < 0)):
                                bounded = True
                            if norm(up) == f"len({lst})" or (isinstance(up, ast.Call) and call_name(up) == "min"
                                                             and any(norm(a) == f"len({lst})" for a in up.args)):
                                bounded = True
                    # range(min(len(A), len(B))) bounds the index by every list named in the min()
                    if tgt == idx and isinstance(q.iter, ast.Call) and call_name(q.iter) == "range" and q.iter.args:
                        hi = q.iter.args[-1] if len(q.iter.args) <= 2 else q.iter.args[1]
                        if isinstance(hi, ast.Name):
                            defs = [x.value for x in walk_no_nested(fn) if isinstance(x, ast.Assign) and len(x.targets) == 1
                                    and isinstance(x.targets[0], ast.Name) and x.targets[0].id == hi.id]
                            if len(defs) == 1:
                                hi = defs[0]
                        if isinstance(hi, ast.Call) and call_name(hi) == "min" and any(norm(a) == f"len({lst})" for a in hi.args):
                            bounded = True
                q = parents.get(q)
            # try: ... lst[idx] ... except IndexError: break / continue / return  - the failing access ends the loop
            q = parents.get(node)
            child = node
            while q is not None and q is not fn:
                if isinstance(q, ast.Try) and any(child is s_ or any(child is x for x in ast.walk(s_)) for s_ in q.body):
                    for h in q.handlers:
                        names = [norm(h.type)] if h.type is not None and not isinstance(h.type, ast.Tuple) else \
                            ([norm(e) for e in h.type.elts] if h.type is not None else ["BaseException"])
                        if any(nm in ("IndexError", "LookupError", "Exception", "BaseException") for nm in names) and h.body \
                                and isinstance(h.body[-1], (ast.Break, ast.Continue, ast.Return)):
                            bounded = True
                child, q = q, parents.get(q)
            for g in guards_of(fn, node, parents):
                t = norm(g.test)
                if (t in (f"{idx} >= len({lst})", f"len({lst}) <= {idx}") and not g.polarity) or \
                        (t in (f"{idx} < len({lst})", f"len({lst}) > {idx}") and g.polarity):
                    bounded = True
            if not bounded:
                out.append((f"{lst}[{idx}]", f"`{lst}[{idx}]` is not bounded by the length of `{lst}`: rendering raises IndexError when the "
                            f"lists differ in length"))
    return n, out


def _joined_class_refs(t) -> bool:
    """somewhere in the term: ', '.join(<one :class:`x` reference per element of self.superclasses>) - the join is outside
    the role, each base is its own reference."""
    from ..absint import subterms
    for x in subterms(t):
        if isinstance(x, tuple) and x and x[0] == "call" and x[1] == ("attr", const(", "), "join") and len(x[2]) == 1:
            arg = x[2][0]
            if arg[0] == "comp" and len(arg[3]) == 1 and arg[3][0][1] == S("superclasses"):
                elt = show(arg[2])
                if ":class:`" in elt or ("interpreted_text" in elt and "'class'" in elt):
                    return True
    return False


def rule_render_total(rep: Report, repo: Repo, rule: str) -> None:
    """Rendering cannot raise on data the listener produces: element access by index is bounded by the list it indexes, and no
    strict zip over two lists whose lengths the listener does not tie together."""
    import os
    from ..core import VERIF_DIR
    rep.rule(rule, "in every process() method an index into a list field is bounded by that same list (loop over its range, an "
                   "explicit length guard) and no zip(..., strict=True) joins two fields: rendering never raises IndexError/ValueError")
    m = repo.module(MOD)
    n = 0
    for ci in repo.classes.values():
        if ci.module != MOD:
            continue
        for mname, fn in ci.methods.items():
            k, hazards = _index_hazards(fn, m.parents)
            n += k
            for cons, msg in hazards:
                rep.bad(rule, f"{MOD}:{ci.name}.{mname}", cons, msg, witness="cpp_member(log Logger str args) + function(${log} self level)")
    ctree = ast.parse(open(os.path.join(VERIF_DIR, "controls", "render_index.py")).read())
    cpar = {ch: p for p in ast.walk(ctree) for ch in ast.iter_child_nodes(p)}
    hits = sum(len(_index_hazards(f, cpar)[1]) for f in ast.walk(ctree) if isinstance(f, ast.FunctionDef))
    if hits != 4:
        raise AnalysisError(f"positive control controls/render_index.py: {hits} hits, expected 4")
    rep.ok(rule, "controls/render_index.py", "positive control: 4 hazards found, none in the bounded twin")
    rep.ok(rule, MOD, f"{n} indexed field access(es) examined")


def _ends_with_newline(t) -> bool:
    if is_const(t):
        return isinstance(t[1], str) and t[1].endswith("\n")
    if isinstance(t, tuple) and t:
        if t[0] == "fstr" and len(t) > 1:
            return _ends_with_newline(t[-1])
        if t[0] == "binop" and t[1] == "+":
            return _ends_with_newline(t[3])
        if t[0] == "concat":
            return _ends_with_newline(t[-1])
    return False


def rule_doc_starts_block(rep: Report, repo: Repo, rule: str) -> None:
    """The doc text of an entry starts a block of its own: whatever text() is emitted on the same directive right before it ends
    with a line break (text() itself adds no paragraph separation)."""
    rep.rule(rule, "no text() emission directly precedes text(self.doc) on the same directive unless it ends with a newline: "
                   "otherwise the sentence and the first block of the doc text merge into one paragraph")
    n = 0
    for ci in repo.classes.values():
        if ci.module != MOD or repo.find_method(ci.name, "process") is None or ci.name in ("DocumentationType",):
            continue
        try:
            outs = outcomes(repo, ci.name)
        except AnalysisError:
            continue
        for i, o in enumerate(outs):
            ems = [e for e in emissions(o, i) if e.loop is None]
            for a, b in zip(ems, ems[1:]):
                if a.method == "text" and b.method == "text" and a.recv == b.recv and b.args and b.args[0] == S("doc"):
                    n += 1
                    t = show(a.args[0]) if a.args else ""
                    ends_nl = bool(a.args) and _ends_with_newline(a.args[0])
                    rep.check(ends_nl, rule, where(ci.name), f"text({t[:50]}) ; text(self.doc)",
                              "a sentence is emitted directly before the doc text without a separating blank line: a doc that starts with a "
                              "list or field list is parsed as part of that sentence's paragraph",
                              witness="cpp_member(f C args) documented with a doc starting with '* item'")
    rep.ok(rule, MOD, f"{n} text-before-doc adjacency(ies) examined")


def rule_no_line_breaks_introduced(rep: Report, repo: Repo, rule: str) -> None:
    """Field values, directive arguments and option values are single logical lines as far as CMinx is concerned: the render
    methods neither wrap them (textwrap.*) nor splice a line break into them.  (A continuation line of a field value starts in
    column 0 and falls out of the directive.)"""
    from ..absint import subterms
    rep.rule(rule, "no render method passes a value through textwrap.* / a line-joining call, or a constant containing a line break, "
                   "into field(), directive() or option(): CMinx itself never introduces a line break into a one-line construct")
    n = 0
    for ci in repo.classes.values():
        if ci.module != MOD or repo.find_method(ci.name, "process") is None or ci.name == "DocumentationType":
            continue
        try:
            outs = outcomes(repo, ci.name)
        except AnalysisError:
            continue
        for i, o in enumerate(outs):
            for e in emissions(o, i):
                if e.method not in ("field", "directive", "option"):
                    continue
                for a in list(e.args) + [v for _k, v in e.kwargs]:
                    n += 1
                    bad = None
                    for t in subterms(a):
                        if isinstance(t, tuple) and t and t[0] == "call" and t[1][0] == "global" and t[1][1].split(".")[0] == "textwrap":
                            bad = f"{t[1][1]}(...)"
                        if isinstance(t, tuple) and t and t[0] == "call" and t[1][0] == "attr" and t[1][2] == "join" and is_const(t[1][1]) \
                                and isinstance(t[1][1][1], str) and "\n" in t[1][1][1]:
                            bad = "'\\n'.join(...)"
                        if is_const(t) and isinstance(t[1], str) and "\n" in t[1] and e.method != "directive":
                            bad = "a constant with a line break"
                    rep.check(bad is None, rule, where(ci.name), f"{e.method}({show(a)[:60]})",
                              f"{bad} introduces line breaks into a {e.method} value: the continuation lines are not indented and leave "
                              f"the entry's directive", witness="set(SOURCES <nine long paths>) with a doccomment")
    rep.floor(rule, 20, "field / directive / option values")


def rule_listener_regex_splice(rep: Report, repo: Repo, rule: str) -> None:
    """The regex-splice hazard of the render-totality rule, applied to the listener: a parameter name or argument text that is a
    legal CMake argument (`values[`, `*rest`, `x{2,1}`) formatted into a pattern raises re.error and the valid file is rejected."""
    from .. import roles
    rep.rule(rule, "no listener method formats a non-constant value into a regular expression without re.escape (settings patterns "
                   "are patterns by contract and are passed as they are)")
    cls = roles.aggregator_class(repo)
    ci = repo.cls(cls)
    m = repo.module(ci.module)
    n = 0
    for k in [k for k in repo.mro(cls) if k.module == ci.module]:
        for mname, fn in k.methods.items():
            cnt, hazards = _index_hazards(fn, m.parents)
            for construct, msg in hazards:
                if "regular expression" not in msg:
                    continue
                # patterns taken from the settings are the user's patterns
                if "settings" in construct and "f'" not in construct and 'f"' not in construct and "format(" not in construct:
                    continue
                n += 1
                rep.bad(rule, f"{ci.module}:{k.name}.{mname}", construct, msg.replace("while rendering", "while the file is read"),
                        witness="function(f values[)  /  macro(m *rest) with a doccomment")
    rep.ok(rule, f"{ci.module}:{cls}", f"{n} unescaped splice(s) in listener patterns")

"""C05 - every valid CMake file is accepted, with CMake's argument boundaries."""
from ..core import Report
from ..model import Repo
from . import atn_rules, misc_rules, protocol, tables


def run(rep: Report, repo: Repo, tier: str) -> None:
    rep.unit("src/cminx/parser/CMakeLexer.py", "src/cminx/parser/CMakeParser.py", "src/cminx/documenter.py",
             "src/cminx/aggregator.py", "pyproject.toml")
    rep.assume("reference token languages transcribed from cmake-language(7) (CMake 3.25), legacy unquoted forms excluded as the "
               "property states; bracket levels beyond the bound are not compared",
               "maximal-munch interplay between token rules is not decided; only per-rule language equality")
    with rep.isolated():
        misc_rules.rule_decode(rep, repo, "C05-R1")
    with rep.isolated():
        atn_rules.rule_token_languages(rep, repo, "C05-R2", tier)
    with rep.isolated():
        atn_rules.rule_skipped_tokens(rep, repo, "C05-R2c", tier)
    with rep.isolated():
        atn_rules.rule_parser_languages(rep, repo, "C05-R3")
    with rep.isolated():
        atn_rules.rule_generated_guards(rep, repo, "C05-R4")
    with rep.isolated():
        protocol.rule_no_crash(rep, repo, "C05-R5")
    with rep.isolated():
        tables.rule_dispatch_signatures(rep, repo, "C05-R5s")
    with rep.isolated():
        misc_rules.rule_runtime_pin(rep, repo, "C05-R6")
    # CMake command names are case-insensitive: FUNCTION() and function() are the same invocation
    with rep.isolated():
        misc_rules.rule_case_folding(rep, repo, "C05-R7")
    with rep.isolated():
        misc_rules.rule_no_partial_ops(rep, repo, "C05-R8")
    # "processed to completion without error": rendering is total, and the listener raises only on the current command's arguments
    from . import render
    with rep.isolated():
        render.rule_render_total(rep, repo, "C05-R9")
    with rep.isolated():
        protocol.rule_raise_census(rep, repo, "C05-R10")
    with rep.isolated():
        protocol.rule_rejections(rep, repo, "C05-R11")
    with rep.isolated():
        protocol.rule_file_level_commands(rep, repo, "C05-R13")
    with rep.isolated():
        protocol.rule_accepted_arities(rep, repo, "C05-R12")
    # every endfunction()/endmacro()/cpp_end_class() of a balanced file finds the element its opening command pushed: a definition
    # event that returns without its push makes the matching end command pop an empty stack (IndexError on a valid file)
    with rep.isolated():
        protocol.rule_defstack(rep, repo, "C05-R14")
    # the doccomment tokens are bounded by their own delimiters: an unbounded one swallows valid commands or rejects a valid file
    with rep.isolated():
        atn_rules.rule_doc_tokens(rep, repo, "C05-R15")
    # "CMake's argument boundaries": a generic command's arguments are bound as written and in source order
    from . import bindings as _b
    with rep.isolated():
        _b.rule_generic_binding(rep, repo, "C05-R16")
    # argument text spliced into a regular expression (without re.escape) anywhere in the listener rejects valid files
    with rep.isolated():
        render.rule_listener_regex_splice(rep, repo, "C05-R17")
    with rep.isolated():
        protocol.rule_optional_documentation(rep, repo, "C05-R18")

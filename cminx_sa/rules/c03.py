"""C03 - function and macro signatures mirror the definition."""
from ..core import Report
from ..model import Repo
from . import bindings, protocol, render, tables


def run(rep: Report, repo: Repo, tier: str) -> None:
    rep.unit("src/cminx/aggregator.py", "src/cminx/documentation_types.py", "src/cminx/config.py", "src/cminx/config_default.yaml")
    rep.assume("re.sub(pattern, '', text) removes whatever the configured pattern matches (regex semantics are not decided)",
               "ParseTreeWalker visits commands in source order, so 'body of a definition' = events between its definition event "
               "and the matching end command")
    with rep.isolated():
        protocol.rule_defstack(rep, repo, "C03-R1")
    with rep.isolated():
        bindings.rule_signature_bindings(rep, repo, "C03-R2")
    with rep.isolated():
        render.rule_signature_template(rep, repo, "C03-R3")
    with rep.isolated():
        tables.rule_strip_options_exist(rep, repo, "C03-R4")
    with rep.isolated():
        tables.rule_settings_plain(rep, repo, "C03-R4s")
    from . import writer_rules
    # the signature is a directive argument: it must reach the text as written
    with rep.isolated():
        writer_rules.rule_values_verbatim(rep, repo, "C03-R5")
    # the trigger string / strip patterns in effect are the configured ones: no CLI default may shadow them
    from .c16 import rule_cli_defaults
    with rep.isolated():
        rule_cli_defaults(rep, repo, "C03-R6")
    # '**kwargs' exactly once: the in-place append of the signature code runs once per entry (who-may-call)
    from . import misc_rules
    with rep.isolated():
        misc_rules.rule_entry_methods_render_only(rep, repo, "C03-R7")
    if tier == "thorough":
        from . import trace_rules
        with rep.isolated():
            trace_rules.rule_kwargs_traces(rep, repo, "C03-I")

    # the end commands pop whether or not a doccomment stands in front of them (entry protocol of every command kind)
    with rep.isolated():
        protocol.rule_protocol_default(rep, repo, "C03-R8")
    # the trigger string and strip patterns in effect are the configured ones, character for character
    with rep.isolated():
        tables.rule_no_option_rewrite(rep, repo, "C03-R9")

"""C19 - cminx_gen_rst() in CMake is equivalent to the command line.

Structural analysis of cmake/cminx.cmake (all statements of one function) and
of the package config template."""
from __future__ import annotations

import re
from typing import List, Optional

from ..core import AnalysisError, Report
from ..model import Repo
from ..cmakescript import Block, Command, parse, structure, walk

KEYWORDS = {"COMMAND", "WORKING_DIRECTORY", "TIMEOUT", "RESULT_VARIABLE", "RESULTS_VARIABLE", "OUTPUT_VARIABLE",
            "ERROR_VARIABLE", "INPUT_FILE", "OUTPUT_FILE", "ERROR_FILE", "OUTPUT_QUIET", "ERROR_QUIET",
            "COMMAND_ECHO", "OUTPUT_STRIP_TRAILING_WHITESPACE", "ERROR_STRIP_TRAILING_WHITESPACE", "ENCODING",
            "ECHO_OUTPUT_VARIABLE", "ECHO_ERROR_VARIABLE", "COMMAND_ERROR_IS_FATAL"}
FILE = "cmake/cminx.cmake"


def _option_paths(body, opt_vars, f_in, stop_at, functions=None, formals=()):
    """A small interpreter for the variable commands of one CMake function.  Enumerates the paths through the body up to the
    CMinx execute_process: (input is a directory?, undecided conditions taken, tokens of the options variable or None when never
    set).  `if(IS_DIRECTORY <input>)` is decided by the case, every other condition forks.  Variables hold token lists; the
    formals hold themselves symbolically ('${name}'); calls of functions defined in the same file are interpreted with their
    own scope (set(... PARENT_SCOPE) writes to the caller)."""
    functions = functions or {}
    results = []
    REF = re.compile(r"\$\{([A-Za-z0-9_]+)\}")

    def expand(a, env):
        """tokens an argument contributes"""
        m = REF.fullmatch(a.text)
        if m and m.group(1) in env and env[m.group(1)] is not None:
            toks = list(env[m.group(1)])
            if a.kind == "quoted":
                return [";".join(toks)] if toks else []
            # unquoted: the value is a list again - an element that was stored as "a;b" (a quoted list reference) splits
            return [piece for t in toks for piece in t.split(";") if piece != ""]

        def rep_(mm):
            v = env.get(mm.group(1))
            if v is not None and len(v) <= 1:
                return v[0] if v else ""
            return mm.group(0)
        t = REF.sub(rep_, a.text)
        return [t] if t != "" else []

    def name_of(a, env):
        toks = expand(a, env)
        return toks[0] if len(toks) == 1 else a.text

    def cond_value(head: Command, isdir: bool, env):
        args = list(head.args)
        neg = False
        while args and args[0].kind == "unquoted" and args[0].text == "NOT":
            neg = not neg
            args = args[1:]
        if len(args) == 2 and args[0].text == "IS_DIRECTORY":
            toks = expand(args[1], env)
            if toks in (["${" + f_in + "}"], [f_in]):
                return isdir != neg
        return None

    def apply(c: Command, env, outer):
        """returns the new env (copy on write)"""
        if not c.args:
            return env
        if c.name == "set":
            tgt = name_of(c.args[0], env)
            vals = list(c.args[1:])
            scope = env
            to_parent = False
            if vals and vals[-1].kind == "unquoted" and vals[-1].text == "PARENT_SCOPE":
                to_parent, vals = True, vals[:-1]
            if any(v.kind == "unquoted" and v.text == "CACHE" for v in vals):
                raise AnalysisError(f"cminx_gen_rst: unexpected {c.text()[:60]}")
            out = []
            for v in vals:
                out.extend(expand(v, env))
            if to_parent:
                env = dict(env)
                env["\0parent:" + tgt] = out          # merged into the caller's scope when the function returns
                return env
            env = dict(env)
            env[tgt] = out
            return env
        if c.name == "unset":
            env = dict(env)
            env[name_of(c.args[0], env)] = []
            return env
        if c.name == "list" and len(c.args) >= 2:
            op = c.args[0].text
            tgt = name_of(c.args[1], env)
            cur = list(env.get(tgt) or [])
            add = []
            for v in c.args[(3 if op == "INSERT" else 2):]:
                add.extend(expand(v, env))
            env = dict(env)
            if op == "APPEND":
                env[tgt] = cur + add
            elif op == "PREPEND":
                env[tgt] = add + cur
            elif op == "INSERT":
                env[tgt] = cur + add
            return env       # filtering commands are reported by C19-R4 directly
        if c.name in ("string", "cmake_parse_arguments", "separate_arguments", "math", "get_filename_component", "file", "cmake_path") \
                and any(a.kind == "unquoted" and a.text in opt_vars for a in c.args):
            raise AnalysisError(f"cminx_gen_rst: the options variable is written by `{c.text()[:60]}`, which the reader does not model")
        return env

    def call_function(fblock, c: Command, env):
        """all possible caller environments after the call (one per path of the callee)"""
        fformals = [a.text for a in fblock.head.args[1:]]
        actual = []
        for a in c.args:
            toks = expand(a, env)
            actual.append(toks if a.kind != "quoted" else ([toks[0]] if toks else []))
        outs = []

        def finish(trail, cenv, caller):
            outs.append((trail, caller))

        def go(isdir):
            pass
        return fformals, actual

    def run_items(items, isdir, trail, env, outer, k, depth=0):
        if not items:
            return k(trail, env)
        it, rest = items[0], items[1:]
        if isinstance(it, Command):
            if it is stop_at:
                # the option words of the command line: every options variable of COMMAND, expanded in the order written
                v = []
                for ov in opt_vars:
                    if env.get(ov) is None:
                        v = None
                        break
                    v.extend(piece for t in env[ov] for piece in t.split(";") if piece != "")      # unquoted expansion
                results.append((isdir, trail, v))
                return
            if it.name in functions and depth < 3:
                fblock = functions[it.name]
                fformals = [a.text for a in fblock.head.args[1:]]
                cenv = {kk: vv for kk, vv in env.items() if not kk.startswith("\0parent:")}
                flat = []
                for i, fa in enumerate(fformals):
                    toks = expand(it.args[i], env) if i < len(it.args) else []
                    cenv[fa] = toks[:1] if (i < len(it.args) and it.args[i].kind == "quoted") else toks
                for a in it.args[len(fformals):]:
                    flat.extend(expand(a, env))
                cenv["ARGN"] = flat
                caller = dict(env)

                def after(t, callee_env, caller=caller):
                    merged = dict(caller)
                    for kk, vv in callee_env.items():
                        if kk.startswith("\0parent:"):
                            merged[kk[len("\0parent:"):]] = vv
                    return run_items(rest, isdir, t, merged, outer, k, depth)
                return run_items(list(fblock.body), isdir, trail, cenv, caller, after, depth + 1)
            return run_items(rest, isdir, trail, apply(it, env, outer), outer, k, depth)
        if it.kind == "if":
            arms = [(it.head, it.body)] + list(it.branches)

            def arm(i, trail, env):
                if i >= len(arms):
                    return run_items(rest, isdir, trail, env, outer, k, depth)
                head, body = arms[i]
                cont = lambda t, e: run_items(rest, isdir, t, e, outer, k, depth)
                if head.name == "else":
                    return run_items(list(body), isdir, trail, env, outer, cont, depth)
                cv = cond_value(head, isdir, env)
                if cv is not False:
                    t2 = trail if cv is True else trail + (" ".join(head.words())[:40],)
                    o2 = dict(outer) if outer is not None else None
                    if outer is not None and cv is None:
                        # writes to the caller's scope are path specific: work on a copy and hand it on through the closure
                        pass
                    run_items(list(body), isdir, t2, env, outer, cont, depth)
                if cv is not True:
                    t2 = trail if cv is False else trail + ("NOT(" + " ".join(head.words())[:40] + ")",)
                    arm(i + 1, t2, env)
            return arm(0, trail, env)
        # loops / nested functions: must not touch the options
        for c, _anc in walk([it]):
            if c is stop_at or (c.args and c.name in ("set", "list", "unset") and any(a.text in opt_vars for a in c.args[:2])):
                raise AnalysisError(f"cminx_gen_rst: the options or the CMinx call are inside a {it.kind}() block")
        return run_items(rest, isdir, trail, env, outer, k, depth)

    for isdir in (True, False):
        env0 = {f: ["${" + f + "}"] for f in formals}
        env0["ARGN"] = ["${ARGN}"]
        run_items(list(body), isdir, (), env0, None, lambda t, e: None)
    if len(results) > 64:
        raise AnalysisError("cminx_gen_rst: too many paths")
    return results


def run(rep: Report, repo: Repo, tier: str) -> None:
    rep.unit(FILE, "cmake/templates/cminx-config.cmake.in", "pyproject.toml", "src/main.py", "src/cminx/__init__.py",
             "src/cminx/documenter.py", "src/cminx/aggregator.py", "src/cminx/rstwriter.py", "src/cminx/parser/__init__.py")
    rep.assume("CMake semantics of execute_process(COMMAND ... COMMAND_ERROR_IS_FATAL ANY), list(APPEND), if(IS_DIRECTORY), "
               "unquoted expansion of a list variable into separate arguments",
               "the installed `cminx` executable is the entry point cminx:main (pyproject scripts table)",
               "arguments containing ';' are outside the claim (CMake list semantics)")
    src = repo.read(FILE)
    cmds = parse(src)
    tree = structure(cmds)
    fn: Optional[Block] = None
    for it in tree:
        if isinstance(it, Block) and it.kind == "function" and it.head.args and it.head.args[0].text == "cminx_gen_rst":
            fn = it
    if fn is None:
        mac = next((it for it in tree if isinstance(it, Block) and it.kind == "macro" and it.head.args
                    and it.head.args[0].text == "cminx_gen_rst"), None)
        if mac is not None:
            rep.rule("C19-R2", "cminx_gen_rst is a function")
            rep.bad("C19-R2", f"{FILE}:cminx_gen_rst", mac.head.text()[:80],
                    "cminx_gen_rst is defined as a macro: macro arguments are replaced textually and evaluated a second time, so a "
                    "backslash or a literal ${...} in an argument reaches CMinx changed (and the variables of the body leak into the "
                    "caller) - the call no longer behaves like the equivalent command line",
                    witness='cminx_gen_rst(dir out -e "\\[legacy\\]*") under cmake_minimum_required(VERSION 3.x)')
            return
        raise AnalysisError("anchor vanished: function(cminx_gen_rst ...) in cmake/cminx.cmake")
    formals = [a.text for a in fn.head.args[1:]]
    where = f"{FILE}:cminx_gen_rst"
    if len(formals) < 2:
        rep.bad("C19-R2", where, fn.head.text(), "cminx_gen_rst does not take <input> <output> as its first two formals")
        return
    f_in, f_out = formals[0], formals[1]
    items = list(walk(fn.body))

    # ---- locate the execute_process that runs CMinx
    with rep.isolated():
        rep.rule("C19-R1", "every execute_process that runs ${CMINX_EXECUTABLE} fails the configure step when CMinx fails")
    with rep.isolated():
        rep.rule("C19-R2", "its COMMAND is: the executable, the first formal quoted, the options variable expanded unquoted, and "
                           "'-o' immediately followed by the second formal quoted")
    eps = [(c, anc) for c, anc in items if c.name == "execute_process" and any("CMINX_EXECUTABLE" in a.text for a in c.args)]
    rep.check(bool(eps), "C19-R2", where, "execute_process(COMMAND ${CMINX_EXECUTABLE} ...)",
              "cminx_gen_rst never runs the CMinx executable")
    opt_vars: List[str] = []
    for c, anc in eps:
        words = c.args
        # split into keyword sections
        sections = {}
        cur = None
        for a in words:
            if a.kind == "unquoted" and a.text in KEYWORDS:
                cur = a.text
                sections.setdefault(cur, [])
            elif cur is not None:
                sections[cur].append(a)
        fatal = sections.get("COMMAND_ERROR_IS_FATAL")
        ok = fatal is not None and len(fatal) == 1 and fatal[0].text in ("ANY", "LAST")
        if not ok and "RESULT_VARIABLE" in sections and sections["RESULT_VARIABLE"]:
            rv = sections["RESULT_VARIABLE"][0].text
            ok = _result_checked(fn, rv, c)
        rep.check(ok, "C19-R1", where, c.text()[:100],
                  "a failing CMinx run does not stop the configure step: neither COMMAND_ERROR_IS_FATAL ANY nor a checked "
                  "RESULT_VARIABLE with message(FATAL_ERROR)", witness="cminx_gen_rst(missing_dir out)")
        rep.check(not anc, "C19-R1", where, "execute_process is unconditional",
                  "the CMinx invocation is nested in a conditional block: some calls generate nothing and report nothing")
        for kw in ("WORKING_DIRECTORY", "TIMEOUT", "INPUT_FILE"):
            rep.check(kw not in sections, "C19-R2", where, f"execute_process without {kw}",
                      f"{kw} makes the CMinx run differ from the equivalent command line (relative input, output and -s paths are "
                      f"resolved in another directory / the run may be cut short)", witness="cminx_gen_rst(src docs -s conf.yaml) from a -P script elsewhere")
        cmd = sections.get("COMMAND", [])
        n_cmd = sum(1 for a in words if a.kind == "unquoted" and a.text == "COMMAND")
        rep.check(n_cmd == 1, "C19-R2", where, f"{n_cmd} COMMAND clause(s)", "several COMMAND clauses form a pipeline")
        texts = [(a.kind, a.text) for a in cmd]
        ok_exe = bool(cmd) and cmd[0].text in ("${CMINX_EXECUTABLE}",)
        rep.check(ok_exe, "C19-R2", where, f"argv[0] = {cmd[0].text if cmd else None}", "the command does not start with ${CMINX_EXECUTABLE}")
        in_ref = "${" + f_in + "}"
        out_ref = "${" + f_out + "}"
        ins = [i for i, a in enumerate(cmd) if a.text == in_ref]
        rep.check(len(ins) == 1 and cmd[ins[0]].kind == "quoted", "C19-R2", where, f"input argument {in_ref}",
                  "the input path is not passed exactly once as one quoted argument (an unquoted path with spaces or an empty value "
                  "changes the argument list)", witness="input path containing a space")
        o_idx = [i for i, a in enumerate(cmd) if a.text == "-o" or a.text == "--output"]
        ok_o = len(o_idx) == 1 and o_idx[0] + 1 < len(cmd) and cmd[o_idx[0] + 1].text == out_ref and \
            cmd[o_idx[0] + 1].kind == "quoted"
        rep.check(ok_o, "C19-R2", where, "'-o' \"" + out_ref + "\"",
                  "'-o' is not immediately followed by the quoted output formal", witness="cminx_gen_rst(in out -p x)")
        # swapped formals
        if ins and o_idx:
            rep.check(in_ref != out_ref, "C19-R2", where, "input and output are different formals", "input and output are the same formal")
        # options variable(s): unquoted ${var} arguments other than the above
        others = [a for i, a in enumerate(cmd) if i != 0 and a.text not in (in_ref, out_ref, "-o", "--output")]
        for a in others:
            m = re.fullmatch(r"\$\{([A-Za-z0-9_]+)\}", a.text)
            if m:
                rep.check(a.kind == "unquoted", "C19-R2", where, f"options variable {a.text} expanded unquoted",
                          "the options list is passed as one quoted argument: CMinx receives '-r;-p;x' as a single word",
                          witness="cminx_gen_rst(dir out -p pre)")
                opt_vars.append(m.group(1))
            else:
                rep.bad("C19-R2", where, f"extra literal argument {a.text}",
                        "the command line contains an argument that the equivalent CLI call does not have")
        rep.check(len(opt_vars) >= 1, "C19-R2", where, "options variable present in COMMAND",
                  "extra arguments and -r are never passed to CMinx")
    rep.floor("C19-R1", 2, "execute_process facts")
    rep.floor("C19-R2", 6, "COMMAND facts")

    # ---- -r only for directories; ARGN verbatim
    with rep.isolated():
        rep.rule("C19-R3", "'-r' enters the options only inside if(IS_DIRECTORY <first formal>) without else, and does so")
    with rep.isolated():
        rep.rule("C19-R4", "ARGN is appended to the options unfiltered and in order")
    r_sites, argn_sites = [], []
    for c, anc in items:
        if c.name in ("list", "set", "string") and c.args:
            ws = c.words()
            target = None
            if c.name == "list" and len(ws) >= 2 and ws[0] in ("APPEND", "PREPEND", "INSERT"):
                target = ws[1]
                vals = c.args[2:]
            elif c.name == "set":
                target = ws[0]
                vals = c.args[1:]
            else:
                target, vals = None, []
            for v in (vals if target in opt_vars else []):
                if v.text in ("-r", "--recursive"):
                    r_sites.append((c, anc))
                if "ARGN" in v.text or re.search(r"ARGV[2-9]?\b", v.text):
                    argn_sites.append((c, anc, v))
        if c.name == "list" and c.args and c.words()[0] in ("REMOVE_ITEM", "FILTER", "REMOVE_AT", "REMOVE_DUPLICATES",
                                                           "SORT", "REVERSE", "TRANSFORM", "POP_BACK", "POP_FRONT", "SUBLIST") \
                and len(c.args) > 1 and (c.words()[1] in opt_vars or c.words()[1] == "ARGN"):
            rep.bad("C19-R4", where, c.text()[:80], "the forwarded arguments are filtered / reordered before the call",
                    witness="cminx_gen_rst(dir out -e a -e a)")
    # (whether and when '-r' is added is decided on the evaluated paths below, wherever the literal is written)
    # the value of the options variable at the execute_process, on every path through the function, for a directory and for a file
    functions = {it.head.args[0].text: it for it in tree if isinstance(it, Block) and it.kind == "function" and it.head.args and it is not fn}
    paths = _option_paths(fn.body, opt_vars, f_in, eps[0][0] if eps else None, functions=functions, formals=formals)
    for isdir, trail, val in paths:
        label = f"input is a {'directory' if isdir else 'file'}" + (f", {' & '.join(trail)}" if trail else "")
        if val is None:
            rep.bad("C19-R4", where, label + ": options variable not set", "the options variable is not reset on this path: a value from the "
                    "caller's scope leaks into the command line")
            continue
        has_r = any(t in ("-r", "--recursive") for t in val)
        rep.check(has_r == isdir, "C19-R3", where, f"{label}: options = {val}",
                  "'-r' is not added exactly when the input is a directory (unconditional, inverted, else-branch or another path tested)",
                  witness="cminx_gen_rst(single_file.cmake out) / cminx_gen_rst(dir out)")
        extra = [t for t in val if t not in ("-r", "--recursive", "${ARGN}")]
        rep.check(not extra, "C19-R4", where, f"{label}: no other option", f"the options contain {extra}: CMinx receives arguments the "
                  "caller did not pass")
    # variables that hold the number of extra arguments: list(LENGTH ARGN <var>)
    argn_len = {c.args[2].text for c, _a in items if c.name == "list" and len(c.args) == 3 and c.args[0].text == "LENGTH"
                and c.args[1].text == "ARGN"}
    len_alt = "|".join(re.escape(v) + "|\\$\\{" + re.escape(v) + "\\}|" + re.escape(v) + " GREATER 0|\\$\\{" + re.escape(v) + "\\} GREATER 0"
                       for v in sorted(argn_len))
    no_extra = re.compile(r"NOT\((\$\{ARGC\} GREATER 2|ARGC GREATER 2|\$\{ARGC\} GREATER_EQUAL 3" + ("|" + len_alt if len_alt else "") + r")\)")
    for isdir, trail, val in paths:
        if val is None or any(no_extra.fullmatch(t) for t in trail):
            continue                # without extra arguments ${ARGN} expands to nothing: present or not is the same command line
        n_argn = sum(1 for t in val if t == "${ARGN}")
        rep.check(n_argn == 1, "C19-R4", where, f"input is a {'directory' if isdir else 'file'}{', ' + ' & '.join(trail) if trail else ''}: ARGN forwarded once",
                  "extra arguments are not forwarded to CMinx" if n_argn == 0 else "the extra arguments are passed more than once",
                  witness="cminx_gen_rst(dir out -p prefix)")
    for c, anc, v in argn_sites:
        ok_val = v.text in ("${ARGN}",)
        rep.check(ok_val, "C19-R4", where, c.text()[:80], f"only part of the extra arguments is forwarded ({v.text})",
                  witness="cminx_gen_rst(dir out -p a -e b)")
        # guard, if any, must be 'there are extra arguments'
        if anc:
            head = anc[0][0].head
            t = " ".join(head.words())
            okg = len(anc) == 1 and anc[0][1] == "body" and re.fullmatch(r"\$\{ARGC\} GREATER 2|ARGC GREATER 2|\$\{ARGC\} GREATER_EQUAL 3|DEFINED ARGN" + ("|" + len_alt if len_alt else ""), t) is not None
            rep.check(okg, "C19-R4", where, head.text(), "ARGN is forwarded only under a condition other than 'extra arguments exist' "
                      "(if(ARGN) evaluates the joined list as a boolean: false for 0/OFF/N and for a list ending in -NOTFOUND)",
                      witness='cminx_gen_rst(dir out -s "${SETTINGS-NOTFOUND}")')
    # no early return / other side effects
    for c, anc in items:
        if c.name in ("return", "file", "configure_file") or (c.name == "execute_process" and (c, anc) not in eps):
            rep.bad("C19-R2", where, c.text()[:80], "cminx_gen_rst has an effect or exit that the equivalent command line does not have")
    rep.floor("C19-R3", 2, "-r facts")
    rep.floor("C19-R4", 3, "ARGN facts")

    # ---- R6 the formals reach the command line as given
    with rep.isolated():
        rep.rule("C19-R6", "the input and output formals are passed on as given: no command in the function rebinds them "
                           "(set, get_filename_component, file(REAL_PATH), string, cmake_path ... with a formal as result variable)")
    n6 = 0
    for c, anc in items:
        if c.name in ("if", "elseif", "else", "endif", "endfunction"):
            continue
        for a in c.args:
            if a.kind == "unquoted" and a.text in (f_in, f_out):
                n6 += 1
                rep.bad("C19-R6", where, c.text()[:90],
                        f"`{c.name}` uses the formal `{a.text}` as a result variable: the path handed to CMinx is no longer the path "
                        f"the caller gave (symlinks resolved, normalised, ...), so titles, default prefix and page names differ from the "
                        f"equivalent command line", witness="cminx_gen_rst(<symlink to a directory> out)")
    rep.ok("C19-R6", where, f"{len(items)} commands inspected, {n6} rebind a formal")
    rep.floor("C19-R6", 1, "formal-rebinding scan")

    # ---- R5 package config
    with rep.isolated():
        rep.rule("C19-R5", "the package config defines CMINX_EXECUTABLE before it includes cminx.cmake; the cminx script is cminx:main")
    tsrc = repo.read("cmake/templates/cminx-config.cmake.in")
    tsrc_clean = tsrc.replace("@PACKAGE_INIT@", "")
    tcmds = parse(tsrc_clean)
    set_line = [c.line for c in tcmds if c.name == "set" and c.args and c.args[0].text == "CMINX_EXECUTABLE"]
    inc_line = [c.line for c in tcmds if c.name == "include" and c.args and "cminx.cmake" in c.args[0].text]
    rep.check(bool(set_line) and bool(inc_line) and min(set_line) < min(inc_line), "C19-R5",
              "cmake/templates/cminx-config.cmake.in", "set(CMINX_EXECUTABLE ...) before include(cminx.cmake)",
              "CMINX_EXECUTABLE is not defined by the package config before the module is included")
    for c in tcmds:
        if c.name == "set" and c.args and c.args[0].text == "CMINX_EXECUTABLE":
            rep.check(len(c.args) > 1 and c.args[1].text.endswith("/cminx"), "C19-R5", "cmake/templates/cminx-config.cmake.in",
                      c.text()[:80], "CMINX_EXECUTABLE does not point at the installed cminx program")
    py = repo.read("pyproject.toml")
    rep.check(re.search(r'scripts\s*=\s*\{\s*"cminx"\s*=\s*"cminx:main"\s*\}', py) is not None or
              re.search(r'cminx\s*=\s*"cminx:main"', py) is not None, "C19-R5", "pyproject.toml", 'scripts = {"cminx" = "cminx:main"}',
              "the cminx console script is not bound to cminx:main")
    rep.floor("C19-R5", 3, "package config facts")

    # ---- R7: a failure inside CMinx reaches the exit status of whatever executable CMake runs
    with rep.isolated():
        rule_exit_status(rep, repo, "C19-R7")
    with rep.isolated():
        rule_inputs_as_given(rep, repo, "C19-R8")
    # ---- R9: "if CMinx fails, the CMake call fails": a failure can only reach the exit status that execute_process looks at
    # if no handler between the parser and main() absorbs it (log-and-continue, collect-and-report-later)
    with rep.isolated():
        from .c06 import rule_no_swallowing
        rule_no_swallowing(rep, repo, "C19-R9")


def _result_checked(fn: Block, var: str, ep: Command) -> bool:
    """if(NOT ${var} EQUAL 0) / if(${var}) ... message(FATAL_ERROR ...) after the execute_process."""
    after = False
    for it in fn.body:
        if it is ep:
            after = True
            continue
        if after and isinstance(it, Block) and it.kind == "if":
            cond = " ".join(it.head.words())
            if var in cond:
                for c, anc in walk(it.body):
                    if c.name == "message" and c.args and c.args[0].text == "FATAL_ERROR":
                        return True
    return False


def rule_inputs_as_given(rep: Report, repo: Repo, rule: str) -> None:
    """cminx_gen_rst(<input> ...) must behave like `cminx <input> ...`, and both must fail for an input that does not exist: every
    word of the positional `files` list reaches document() as written - not globbed, filtered or de-duplicated on the way (a
    pattern without match would otherwise leave nothing to do, and the run would succeed silently)."""
    import ast
    from ..model import call_name, norm, walk_no_nested
    rep.rule(rule, "main() calls document() once for every element of the parsed positional `files` list, passing the element "
                   "itself: the loop runs over <parse result>.files directly")
    mfn = repo.func("cminx", "main")
    parents = repo.module("cminx").parents
    ns_vars = {norm(n.targets[0]) for n in walk_no_nested(mfn) if isinstance(n, ast.Assign) and len(n.targets) == 1
               and isinstance(n.value, ast.Call) and call_name(n.value).split(".")[-1] == "parse_args"}
    calls = [c for c in ast.walk(mfn) if isinstance(c, ast.Call) and call_name(c) == "document"]
    if not calls or not ns_vars:
        raise AnalysisError("anchor vanished: main() does not call document() / parse_args()")
    for c in calls:
        a0 = c.args[0] if c.args else None
        loops = []
        q = parents.get(c)
        while q is not None and q is not mfn:
            if isinstance(q, ast.For):
                loops.append(q)
            q = parents.get(q)
        direct = [lp for lp in loops if isinstance(a0, ast.Name) and norm(lp.target) == a0.id]
        from .fsrules import resolve_locals
        it = resolve_locals(direct[0].iter, mfn, skip=frozenset(ns_vars)) if direct else None
        while isinstance(it, ast.Call) and call_name(it) in ("list", "tuple") and len(it.args) == 1 and not it.keywords:
            it = it.args[0]
        # the positional argument(s) of the parser, whatever they are called
        positional = {c2.args[0].value for c2 in ast.walk(mfn) if isinstance(c2, ast.Call) and isinstance(c2.func, ast.Attribute)
                      and c2.func.attr == "add_argument" and c2.args and isinstance(c2.args[0], ast.Constant)
                      and isinstance(c2.args[0].value, str) and not c2.args[0].value.startswith("-")}
        ok = len(direct) == 1 and len(loops) == 1 and isinstance(it, ast.Attribute) and it.attr in positional \
            and norm(it.value) in ns_vars
        from ..model import guards_of
        gs = [norm(g.test) for g in guards_of(mfn, c, parents)]
        rep.check(ok and not gs, rule, "cminx:main", norm(c)[:60],
                  f"document() does not receive each command-line input as given (loop over "
                  f"`{norm(loops[0].iter)[:50] if loops else None}`{', under ' + gs[0][:40] if gs else ''}): an input that is expanded, "
                  f"filtered or skipped can leave nothing to do, and the run - and with it cminx_gen_rst() - succeeds without output",
                  witness="cminx_gen_rst(\"missing/dir[v2]\" out): CMake continues although nothing was generated")
    rep.floor(rule, 1, "document() call sites")


def rule_exit_status(rep: Report, repo: Repo, rule: str) -> None:
    import ast
    from ..model import call_name, calls_in, norm, walk_no_nested
    rep.rule(rule, "main() reports failures through exceptions or exit(); if it returns a status instead, every entry point "
                   "(console script, src/main.py launcher) passes that value to sys.exit")
    mfn = repo.func("cminx", "main")
    returns_status = [n for n in walk_no_nested(mfn) if isinstance(n, ast.Return) and n.value is not None
                      and not (isinstance(n.value, ast.Constant) and n.value.value is None)]
    launcher = repo.module("main").tree
    n = 0
    for node in ast.walk(launcher):
        if isinstance(node, ast.Expr) and isinstance(node.value, ast.Call) and call_name(node.value).split(".")[-1] == "main":
            n += 1
            rep.check(not returns_status, rule, "src/main.py", norm(node)[:60],
                      "main() returns an exit status, but the launcher that is frozen into the cminx executable calls it as a plain "
                      "statement and drops the value: the executable exits 0 on failure and COMMAND_ERROR_IS_FATAL never triggers",
                      witness="cminx_gen_rst() on a file with an unterminated quoted argument")
        if isinstance(node, ast.Call) and call_name(node) in ("sys.exit", "exit", "SystemExit") and node.args \
                and isinstance(node.args[0], ast.Call) and call_name(node.args[0]).split(".")[-1] == "main":
            n += 1
            rep.ok(rule, "src/main.py", norm(node)[:60])
    # handlers in main() that swallow a pipeline error without a non-zero exit
    for node in walk_no_nested(mfn):
        if isinstance(node, ast.Try):
            for h in node.handlers:
                reraises = any(isinstance(x, ast.Raise) for x in ast.walk(h))
                exits = any(isinstance(x, ast.Call) and call_name(x) in ("exit", "sys.exit") for x in ast.walk(h))
                sets_status = bool(returns_status)
                rep.check(reraises or exits or not any(call_name(c).endswith("document") for st_ in node.body for c in calls_in(st_)) or
                          (sets_status and n and not any(isinstance(x, ast.Expr) and isinstance(x.value, ast.Call)
                                                         and call_name(x.value).split(".")[-1] == "main" for x in ast.walk(launcher))),
                          rule, "cminx:main", f"except {norm(h.type) if h.type is not None else ''}",
                          "main() catches a failure of document() without re-raising or exiting non-zero",
                          witness="cminx on a malformed file: exit status 0")
    rep.floor(rule, 1, "entry points")
